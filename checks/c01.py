"""C01 - evaluation follows the language definition.  specs/lang/GlyphCore.tla"""
import langrun, vf

ASSUME = [
    "fragment: literals, variables, unary/binary operators, array/object literals, field access and indexing on names, length()/abs(), $ / reassignment, if/else, while, for over arrays and objects, switch, break, continue, return; every program ends with an explicit return; no imports, macros, generics, traits, lambdas, match, user functions",
    "reference choices where the document is silent: the tree-walking interpreter, except == on arrays/objects is structural (never a crash) and objects iterate in ascending key order; both are now also what the interpreter does (fix: commits)",
    "floats are quarter-precision rationals in the model; a program whose evaluation leaves that set is compared for value-vs-error only",
    "program text is rendered by the specification itself (Src) with the minimum parentheses the documented precedence table requires; the real lexer and parser read it",
    "postfix indexing applies to names and field chains only (the grammar does not index a parenthesised expression or a literal)",
]


def run(ck, tier, seed):
    progs, cases, casesA, obs, _, r1, _ = langrun.pipeline(tier, seed)
    ck.assumptions += ASSUME
    ck.add_model("GlyphCore-design", r1)
    nontriv = 0
    seen = set()
    for p in progs:
        c = cases[p["id"]]
        o = obs[p["id"]]
        ck.cov["evaluations"] += 1
        if o.get("skipped"):
            ck.cov["not_run_unbounded_growth"] = ck.cov.get("not_run_unbounded_growth", 0) + 1
            continue
        if o.get("crash"):
            sig = "process-crash/" + ("/".join(p["tags"][:3]) if p["tags"][0] != "random" else "random")
            if sig not in seen:
                seen.add(sig)
                ck.mismatch(sig, {"src": c["src"], "what": o["crash"]}, replay={"kind": "lang", "prog": p})
            continue
        if c["out"].get("class") == "syntax":
            # a line the language has no statement for (`o.x = 7` without `$`): the front end must refuse it
            ck.cov["evaluations"] += 1
            if "parse" not in o:
                sig = "accepted-what-is-not-a-statement/" + "/".join(p["tags"][:3])
                if sig not in seen:
                    seen.add(sig)
                    ck.mismatch(sig, {"src": c["src"], "ran-as": o.get("interp")}, replay={"kind": "lang", "prog": p})
            continue
        if "parse" in o:
            sig = "parse/" + "/".join(p["tags"][:2])
            if sig not in seen:
                seen.add(sig)
                ck.mismatch(sig, {"src": c["src"], "error": o["parse"]}, replay={"kind": "lang", "prog": p})
            continue
        if p["tags"][0] == "random" and (c["out"]["kind"] == "unrep" or c["out"].get("class") == "limit"):
            # a random program that runs into the iteration limit may take the engine seconds to minutes (a million
            # iterations of whatever the body does): neither its timing nor a watchdog expiry says anything about the
            # value it computes; non-termination as such is C04's subject, with dedicated programs
            ck.cov["limit_bound_random_programs_not_judged"] = ck.cov.get("limit_bound_random_programs_not_judged", 0) + 1
            continue
        nontriv += 1
        runs = [o.get("interp"), o.get("interp2"), o.get("interp3")]
        m = langrun.compare(c["out"], runs[0])
        if m is None:
            for k, other in (("second run on the same interpreter", runs[1]), ("fresh interpreter", runs[2])):
                if other is not None and not langrun.same_obs(runs[0], other):
                    m = "outcome is not a function of program and inputs: %s differs" % k
        if m:
            sig = "interp/%s/%s" % ("/".join(p["tags"][:3]) if p["tags"][0] != "random" else "random", m.split(",")[0][:40])
            if sig not in seen:
                seen.add(sig)
                ck.mismatch(sig, {"src": c["src"], "vars": p["vars"], "spec": c["out"], "what": m}, replay={"kind": "lang", "prog": p})
    ck.cov["traces_validated_against_impl"] = nontriv
    ck.cov["distinct_nontrivial"] = nontriv
    ck.cov["exhaustive"] = False
    ck.sample({"src": cases[progs[-1]["id"]]["src"], "spec_outcome": cases[progs[-1]["id"]]["out"]})
    ck.sample({"src": cases[progs[0]["id"]]["src"], "spec_outcome": cases[progs[0]["id"]]["out"]})
    ck.cov["rule"] = ("programs = operator x operand-shape table (literal and variable operands), precedence table (all operator pairs, both groupings), "
                      "scoping / control-flow / value tables, and seeded random programs; each evaluated by TLC and executed three times by the interpreter")
