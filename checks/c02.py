"""C02 - compiled and interpreted execution are indistinguishable.  specs/lang/GlyphCore.tla"""
import json
import langrun, vf, c01


def http_class(o):
    if not o or o.get("kind") != "value":
        return ("broken", o.get("kind") if o else "none", o.get("msg") if o else "")
    v = o["v"]
    return (v["status"], v["body"].strip())


def run(ck, tier, seed):
    progs, cases, casesA, obs, _, r1, r2 = langrun.pipeline(tier, seed)
    ck.assumptions += c01.ASSUME + [
        "domain: programs both engines accept - a program the compiler rejects with a semantic error (a name declared twice in one block) is outside it",
        "the compiled engine is compared with the definition *and* with the named, test-pinned departures of the VM (Deviations VM_* of GlyphCore); an outcome explained only by those is a known finding, anything else a violation",
        "API level: vm.Execute of CompileRoute (the CLI's level OptBasic) vs interpreter.ExecuteRoute, typed values; HTTP level: status and JSON body of the same request in both modes",
    ]
    ck.add_model("GlyphCore-design", r1)
    ck.add_model("GlyphCore-vm-as-pinned", r2)
    n = 0
    seen = set()
    pinned = []
    for p in progs:
        c, a, o = cases[p["id"]], casesA[p["id"]], obs[p["id"]]
        if "parse" in o:
            continue
        ck.cov["evaluations"] += 1
        vmo = o.get("vm1")
        m = None
        if vmo and vmo.get("kind") == "compile-error":
            if "redeclare" in vmo.get("msg", "") and langrun.static_redeclare(p):
                continue      # rejected by both modes' front end: outside the domain
            # any other compile error makes the server fall back to the interpreter for the whole
            # module: the HTTP comparison below decides
            if c["out"]["kind"] != "error":
                ck.mismatch("vm/compile-error/" + vmo.get("msg", "")[:40], {"src": c["src"], "what": vmo.get("msg")}, replay={"kind": "lang", "prog": p})
                continue
        else:
            n += 1
            m = langrun.compare(c["out"], vmo)
        if m:
            m2 = langrun.compare(a["out"], vmo)
            tag = "/".join(p["tags"][:4]) if p["tags"][0] != "random" else "random"
            if m2 is None:
                pinned.append((p, c, vmo, m))      # explained by the pinned departures: attributed below
            else:
                sig = "vm/%s/%s" % (tag, m2.split(",")[0][:40])
                if sig not in seen:
                    seen.add(sig)
                    ck.mismatch(sig, {"src": c["src"], "vars": p["vars"], "definition": c["out"], "vm": vmo, "what": m2}, replay={"kind": "lang", "prog": p})
            continue
        # HTTP: same request, both modes
        hc, hi = o.get("httpC"), o.get("httpI")
        if hc is None or hi is None:
            continue
        if isinstance(hc, dict) and "setup" in hc:
            # compiled mode refuses to start on a semantic compile error (redeclaration, assignment to
            # an undeclared name, break outside a loop): the program is not one both engines accept
            if hc["setup"].startswith("compilation error for") and (langrun.static_redeclare(p) or c["out"]["kind"] == "error" or langrun.unreached_semantic(p)):
                ck.cov["refused_at_startup"] = ck.cov.get("refused_at_startup", 0) + 1
            else:
                ck.mismatch("http/setup-error", {"src": c["src"], "what": hc["setup"]}, replay={"kind": "lang", "prog": p})
            continue
        if isinstance(hi, dict) and "setup" in hi:
            continue
        if http_class(hc) != http_class(hi):
            sig = "http/modes-differ/%s" % ("/".join(p["tags"][:3]) if p["tags"][0] != "random" else "random")
            if sig not in seen:
                seen.add(sig)
                ck.mismatch(sig, {"src": c["src"], "compiled": http_class(hc), "interpreted": http_class(hi)}, replay={"kind": "lang", "prog": p})
    bl = langrun.blame([p for p, _, _, _ in pinned], cases)
    for p, c, vmo, m in pinned:
        for d in (bl[p["id"]] or ["unattributed"]):
            ck.mismatch("vm-pinned/" + d, {"src": c["src"], "definition": c["out"], "vm": vmo, "what": m}, replay={"kind": "lang", "prog": p})
    ck.cov["traces_validated_against_impl"] = n
    ck.cov["distinct_nontrivial"] = n
    ck.sample({"src": cases[progs[-2]["id"]]["src"], "definition": cases[progs[-2]["id"]]["out"], "vm": obs[progs[-2]["id"]].get("vm1")})
    ck.cov["rule"] = "same programs as C01; each compiled at the CLI's optimisation level and run on the VM (typed result) and served over HTTP in both modes"


