"""C02 - compiled and interpreted execution are indistinguishable.  specs/lang/GlyphCore.tla"""
import json
import langrun, vf, c01


def http_class(o):
    if not o or o.get("kind") != "value":
        return ("broken", o.get("kind") if o else "none", o.get("msg") if o else "")
    v = o["v"]
    return (v["status"], v["body"].strip())


CTS = ["", "application/json", "application/json; charset=utf-8", "application/json;", "application/json-patch+json", "application/jsonl",
       "application/json5", "application/json-seq", "Application/JSON", "APPLICATION/JSON; charset=utf-8", "application/json; charset", " application/json",
       "application/jso", "text/plain", "application/x-www-form-urlencoded", "application/xml", "text/json", "application/vnd.api+json"]


def binding(ck, tier, seed):
    """request body binding: every (method, Content-Type, body class) decided by ReqBind.tla, sent to both servers"""
    import os
    kw = {"Methods": {"GET", "POST", "PUT", "PATCH", "DELETE"}, "ContentTypes": set(CTS), "Bodies": {"none", "object", "array", "scalar", "string", "malformed", "empty", "null"},
          "Deviations": set()}
    cases = []
    r = vf.tlc("lang", "ReqBind", kw, invariants=["EngineBlind", "OnlyAnnouncedObjects", "EmitInv"], case_sink=cases.append, timeout=900)
    ck.expect_model_ok("request-binding", r)
    ck.add_model("request-binding", r)
    rr = vf.tlc("lang", "ReqBind", dict(kw, Deviations={"CompiledIgnoresDeleteBody"}), invariants=["EngineBlind"], timeout=600, want_cases=False)
    if rr.ok:
        raise vf.InfraError("ReqBind does not see the DELETE deviation")
    for i, c in enumerate(cases):
        c["id"] = i
    work = vf.scratch("verif-c02-")
    path = os.path.join(work, "rb.ndjson")
    vf.write_ndjson(path, cases)
    rc, txt = vf.go_test("cmd/glyph", ["harness_test.go", "reqbind_test.go"], run="TestVerifReqBind$", env={"VERIF_CASES": path, "VERIF_OUT": path + ".out"}, timeout=1800)
    res = vf.read_ndjson(path + ".out")
    summ = [x for x in res if x.get("summary")]
    if not summ or summ[0]["cases"] != len(cases):
        raise vf.InfraError("request-binding driver failed rc=%s\n%s" % (rc, txt[-2500:]))
    seen = set()
    for o in res:
        if o.get("summary"):
            continue
        c = cases[o["id"]]
        ck.cov["evaluations"] += 2
        for mode in ("compiled", "interpreted"):
            got = o[mode]["input"]
            if got not in c["input"]:
                sig = "binding/%s/%s/%s-body/%s" % (mode, c["req"]["m"], c["req"]["b"], "content-type-" + ("json" if "object" in c["input"] or "emptyobject" in c["input"] else "other"))
                if sig not in seen:
                    seen.add(sig)
                    ck.mismatch(sig, {"request": c["req"], "definition": c["input"], mode: o[mode], "other": o["interpreted" if mode == "compiled" else "compiled"]},
                                replay={"kind": "reqbind", "req": c["req"]})
        if o["compiled"]["input"] != o["interpreted"]["input"] or o["compiled"]["status"] != o["interpreted"]["status"]:
            sig = "binding/modes-differ/%s/%s-body" % (c["req"]["m"], c["req"]["b"])
            if sig not in seen:
                seen.add(sig)
                ck.mismatch(sig, {"request": c["req"], "compiled": o["compiled"], "interpreted": o["interpreted"]}, replay={"kind": "reqbind", "req": c["req"]})
    ck.cov["traces_validated_against_impl"] += len(cases)
    ck.cov["distinct_nontrivial"] += len(cases)


def run(ck, tier, seed):
    binding(ck, tier, seed)
    progs, cases, casesA, obs, _, r1, r2 = langrun.pipeline(tier, seed)
    ck.assumptions += c01.ASSUME + [
        "domain: programs both engines accept - a program the compiler rejects with a semantic error (a name declared twice in one block) is outside it",
        "the compiled engine is compared with the definition *and* with the named, test-pinned departures of the VM (Deviations VM_* of GlyphCore); an outcome explained only by those is a known finding, anything else a violation",
        "API level: vm.Execute of CompileRoute (the CLI's level OptBasic) vs interpreter.ExecuteRoute, typed values; HTTP level: status and JSON body of the same request in both modes",
    ]
    ck.add_model("GlyphCore-design", r1)
    ck.add_model("GlyphCore-vm-as-pinned", r2)
    n = 0
    seen = set()
    pinned = []
    for p in progs:
        c, a, o = cases[p["id"]], casesA[p["id"]], obs[p["id"]]
        if o.get("skipped"):
            ck.cov["not_run_unbounded_growth"] = ck.cov.get("not_run_unbounded_growth", 0) + 1
            continue
        if "parse" in o or o.get("crash"):
            continue
        ck.cov["evaluations"] += 1
        vmo = o.get("vm1")
        m = None
        if p.get("funcs"):
            # a module that declares functions is served by the interpreter in both modes (routes.go): the bytecode of
            # its routes is never run; the HTTP comparison below covers what a client can see
            vmo = None
            ck.cov["served_by_interpreter_fallback"] = ck.cov.get("served_by_interpreter_fallback", 0) + 1
        elif any(x["e"] == "callh" for x in langrun.all_exprs(p)):
            # a route calling a built-in only the interpreter has (append, map, sort ...) is served by the interpreter too
            vmo = None
            ck.cov["served_by_interpreter_fallback"] = ck.cov.get("served_by_interpreter_fallback", 0) + 1
        if vmo and vmo.get("kind") == "compile-error":
            if "redeclare" in vmo.get("msg", "") and langrun.static_redeclare(p):
                continue      # rejected by both modes' front end: outside the domain
            if vmo.get("msg", "").startswith("unsupported statement type") and any(s["s"] == "pset" for s, _ in langrun.walk_stmts(p["body"])):
                # element and field assignment: the compiler says so and the server runs the module interpreted
                vmo = None
                ck.cov["served_by_interpreter_fallback"] = ck.cov.get("served_by_interpreter_fallback", 0) + 1
            # any other compile error makes the server fall back to the interpreter for the whole
            # module: the HTTP comparison below decides
            if vmo is not None and c["out"]["kind"] != "error":
                ck.mismatch("vm/compile-error/" + vmo.get("msg", "")[:40], {"src": c["src"], "what": vmo.get("msg")}, replay={"kind": "lang", "prog": p})
                continue
        elif vmo is not None:
            n += 1
            m = langrun.compare(c["out"], vmo)
        if m:
            m2 = langrun.compare(a["out"], vmo)
            tag = "/".join(p["tags"][:4]) if p["tags"][0] != "random" else "random"
            if m2 is None:
                pinned.append((p, c, vmo, m))      # explained by the pinned departures: attributed below
            else:
                sig = "vm/%s/%s" % (tag, m2.split(",")[0][:40])
                if p["tags"][0] == "match":      # compiled match expressions: identified by the table program
                    sig = "vm-match/" + "/".join(p["tags"][1:3]) + ("" if not p["vars"] else "/in=" + ",".join(langrun.show(v["v"]) for v in p["vars"]))
                if sig not in seen:
                    seen.add(sig)
                    ck.mismatch(sig, {"src": c["src"], "vars": p["vars"], "definition": c["out"], "vm": vmo, "what": m2}, replay={"kind": "lang", "prog": p})
            continue
        # HTTP: same request, both modes
        hc, hi = o.get("httpC"), o.get("httpI")
        if hc is None or hi is None:
            continue
        if isinstance(hc, dict) and "setup" in hc:
            # compiled mode refuses to start on a semantic compile error (redeclaration, assignment to
            # an undeclared name, break outside a loop): the program is not one both engines accept
            if hc["setup"].startswith("compilation error for") and (langrun.static_redeclare(p) or c["out"]["kind"] == "error" or langrun.unreached_semantic(p)):
                ck.cov["refused_at_startup"] = ck.cov.get("refused_at_startup", 0) + 1
            else:
                ck.mismatch("http/setup-error", {"src": c["src"], "what": hc["setup"]}, replay={"kind": "lang", "prog": p})
            continue
        if isinstance(hi, dict) and "setup" in hi:
            continue
        if http_class(hc) != http_class(hi):
            sig = "http/modes-differ/%s" % ("/".join(p["tags"][:3]) if p["tags"][0] != "random" else "random")
            if sig not in seen:
                seen.add(sig)
                ck.mismatch(sig, {"src": c["src"], "compiled": http_class(hc), "interpreted": http_class(hi)}, replay={"kind": "lang", "prog": p})
    bl = langrun.blame([p for p, _, _, _ in pinned], cases)
    for p, c, vmo, m in pinned:
        for d in (bl[p["id"]] or ["unattributed"]):
            ck.mismatch("vm-pinned/" + d, {"src": c["src"], "definition": c["out"], "vm": vmo, "what": m}, replay={"kind": "lang", "prog": p})
    ck.cov["traces_validated_against_impl"] = n
    ck.cov["distinct_nontrivial"] = n
    ck.sample({"src": cases[progs[-2]["id"]]["src"], "definition": cases[progs[-2]["id"]]["out"], "vm": obs[progs[-2]["id"]].get("vm1")})
    ck.cov["rule"] = "same programs as C01; each compiled at the CLI's optimisation level and run on the VM (typed result) and served over HTTP in both modes"


