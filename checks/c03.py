"""C03 - optimisation never changes behaviour.  specs/lang/GlyphCore.tla"""
import langrun, vf, c01


def run(ck, tier, seed):
    progs, cases, casesA, obs, _, r1, r2 = langrun.pipeline(tier, seed)
    ck.assumptions += c01.ASSUME + [
        "every program is compiled at OptNone, OptBasic and OptAggressive from the parser's tree and from a pointer-form copy of it (the library API's node form); the unoptimised compilation is the reference (its own agreement with the definition is decided by C02)",
        "for pointer-form trees the optimizer's known unsound rewrites are classed narrowly by the syntactic pattern that enables them (identity/absorbing literal operand; assignment inside a nested block; declaration inside a branch); a difference on a program without the pattern is a violation",
    ]
    ck.add_model("GlyphCore-vm-as-pinned", r2)
    n = 0
    seen = set()
    for p in progs:
        c, a, o = cases[p["id"]], casesA[p["id"]], obs[p["id"]]
        if o.get("skipped"):
            ck.cov["not_run_unbounded_growth"] = ck.cov.get("not_run_unbounded_growth", 0) + 1
            continue
        if "parse" in o or o.get("crash"):
            continue
        if p.get("funcs"):
            continue      # bytecode cannot call declared functions; such modules are not compiled by the product
        if any(s["s"] == "pset" for s, _ in langrun.walk_stmts(p["body"])):
            continue      # element and field assignment: the compiler reports them as unsupported at every level
        ck.cov["evaluations"] += 6
        for form in ("", "p"):
            base = o.get("vm0" + form)
            if base is None:
                continue
            if base.get("kind") == "compile-error":
                if not (("redeclare" in base.get("msg", "") and langrun.static_redeclare(p)) or c["out"]["kind"] == "error"):
                    ck.mismatch("O0%s/compile-error" % form, {"src": c["src"], "what": base.get("msg")}, replay={"kind": "lang", "prog": p})
                continue
            # the reference compilation itself
            # whether the unoptimised compilation itself agrees with the definition is C02's subject; here it is
            # the reference, whatever it computes (counted for the record)
            if langrun.compare(a["out"], base):
                ck.cov["reference_differs_from_definition"] = ck.cov.get("reference_differs_from_definition", 0) + 1
            n += 1
            slow_ok = c["out"]["kind"] == "unrep" or c["out"].get("class") == "limit"
            for lv in ("vm1", "vm2"):
                ob = o.get(lv + form)
                if slow_ok and "hang" in (base.get("kind"), (ob or {}).get("kind")):
                    continue      # bound only by the step limit: a watchdog expiry on one level is timing, not behaviour
                if langrun.same_obs(base, ob) and not (ob and ob["kind"] == "value" and base["kind"] == "value" and langrun.norm(ob["v"]) != langrun.norm(base["v"])):
                    continue
                level = {"vm1": "O1", "vm2": "O3"}[lv] + form
                kind = ob.get("kind") if ob else "none"
                if kind in ("panic", "hang"):
                    cls = kind
                elif form == "p" and kind == "compile-error" and "redeclare" in ob.get("msg", "") and langrun.decl_in_branch(p):
                    cls = "branch-elimination-flattens-scope"
                elif form == "p" and base["kind"] == "error" and kind == "value" and (langrun.identity_prone(p) or langrun.leak_prone(p)):
                    cls = "rewrite-drops-error"
                elif form == "p" and base["kind"] == "value" and kind == "value" and langrun.number_type_only(base["v"], ob["v"]) and langrun.identity_prone(p):
                    cls = "identity-changes-number-type"
                elif form == "p" and base["kind"] == "value" and kind == "value" and langrun.leak_prone(p):
                    cls = "facts-leak-across-blocks"
                elif form == "p" and p["tags"][0] == "match" and "bindings" in p["tags"]:
                    cls = "constant-propagated-past-a-flat-match-binding"
                elif form == "p" and langrun.stale_prone(p, lv == "vm2"):
                    cls = "stale-fact-after-reassignment"
                elif form == "p" and base["kind"] == "value" and kind in ("error", "compile-error") and (langrun.leak_prone(p) or langrun.decl_in_branch(p)):
                    cls = "facts-leak-across-blocks"
                elif form == "p" and base["kind"] == "error" and kind == "value" and langrun.decl_in_branch(p):
                    cls = "branch-elimination-flattens-scope"
                else:
                    cls = "unexplained/%s" % ("/".join(p["tags"][:3]) if p["tags"][0] != "random" else "random")
                # table programs are identified individually (a new failing shape of a known class is a new finding);
                # random programs by class
                sig = "%s/%s" % (level, cls)
                if p["tags"][0] != "random" and not cls.startswith("unexplained"):
                    sig += "/" + "/".join(p["tags"][:3]) + ("" if not p["vars"] else "/in=" + ",".join(langrun.show(v["v"]) for v in p["vars"]))
                if sig.endswith(tuple(["unexplained/random"])) and sig in seen:
                    continue
                seen.add(sig)
                ck.mismatch(sig, {"src": c["src"], "vars": p["vars"], "unoptimised": base, "optimised": ob}, replay={"kind": "lang", "prog": p})
    ck.cov["traces_validated_against_impl"] = n
    ck.cov["distinct_nontrivial"] = n
    ck.sample({"src": cases[progs[-3]["id"]]["src"], "O0": obs[progs[-3]["id"]].get("vm0"), "O3-pointer-form": obs[progs[-3]["id"]].get("vm2p")})
    ck.cov["rule"] = "same programs as C01; 2 tree forms x 3 optimisation levels each executed on the VM; levels compared with the unoptimised compilation of the same tree"
