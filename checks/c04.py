"""C04 - faults in user programs are contained.  specs/lang/GlyphCore.tla"""
import re
import langrun, vf, c01

LEAK = re.compile(r"(runtime error|goroutine \d|\.go:\d+|panic|reflect\.|/repo/|/usr/|interface \{\}|\[\]interface|map\[string\]|int64|float64|\*ast\.|vm\.[A-Z])")


def run(ck, tier, seed):
    progs, cases, casesA, obs, hangobs, r1, r2 = langrun.pipeline(tier, seed, hang=True)
    ck.assumptions += c01.ASSUME + [
        "every engine run is under recover and a 6 s watchdog; 'bounded work' is observed as wall-clock, not proved",
        "HTTP: an evaluation error must be a 5xx with the generic body; no response body may carry Go type names, file paths or stack text",
        "non-termination: `while true` through the real server in both modes must be answered with an error in bounded time and the server must stay responsive",
    ]
    ck.add_model("GlyphCore-design", r1)
    n = 0
    seen = set()
    for p in progs:
        c, o = cases[p["id"]], obs[p["id"]]
        if o.get("skipped"):
            ck.cov["not_run_unbounded_growth"] = ck.cov.get("not_run_unbounded_growth", 0) + 1
            continue
        if "parse" in o:
            continue
        if o.get("crash"):
            # the whole process went down while this program ran (stack overflow, unrecovered panic, out of memory)
            ck.cov["evaluations"] += 1
            sig = "process-crash/%s/%s" % ("/".join(p["tags"][:3]) if p["tags"][0] != "random" else "random", o["crash"].split(":")[1].strip()[:30] if ":" in o["crash"] else o["crash"][:30])
            if sig not in seen:
                seen.add(sig)
                ck.mismatch(sig, {"src": c["src"], "vars": p["vars"], "what": o["crash"], "runtime_report": o["excerpt"][:1800]}, replay={"kind": "lang", "prog": p})
            continue
        n += 1
        for eng in ("interp", "vm0", "vm1", "vm2", "vm0p", "vm1p", "vm2p"):
            ob = o.get(eng)
            ck.cov["evaluations"] += 1
            slow_ok = p["tags"][0] == "random" and (c["out"]["kind"] == "unrep" or c["out"].get("class") == "limit")
            if ob and ob.get("kind") == "hang" and slow_ok:
                # a random program bound only by the iteration limit: a million iterations of a body that, say, appends to
                # a string are minutes of (bounded) work; the 6 s watchdog is no verdict. Non-termination is judged on the
                # dedicated programs and the socket probe
                ck.cov["slow_limit_bound_random_programs"] = ck.cov.get("slow_limit_bound_random_programs", 0) + 1
                continue
            if ob and ob.get("kind") in ("panic", "hang"):
                sig = "%s/%s/%s" % (eng, ob["kind"], ("/".join(p["tags"][:3]) if p["tags"][0] != "random" else ob.get("msg", "")[:30]))
                if sig not in seen:
                    seen.add(sig)
                    ck.mismatch(sig, {"src": c["src"], "vars": p["vars"], "what": ob}, replay={"kind": "lang", "prog": p})
        for h in ("httpC", "httpI"):
            ob = o.get(h)
            if ob is None or (isinstance(ob, dict) and "setup" in ob):
                continue
            if ob.get("kind") == "hang" and p["tags"][0] == "random" and (c["out"]["kind"] == "unrep" or c["out"].get("class") == "limit"):
                continue
            if ob.get("kind") in ("panic", "hang"):
                sig = "%s/%s" % (h, ob["kind"])
                if sig not in seen:
                    seen.add(sig)
                    ck.mismatch(sig, {"src": c["src"], "what": ob}, replay={"kind": "lang", "prog": p})
                continue
            v = ob["v"]
            status, body = v["status"], v["body"]
            spec_kind = c["out"]["kind"]
            bad = None
            if LEAK.search(body):
                bad = "body leaks implementation text: " + body.strip()[:160]
            elif spec_kind == "error" and not (status >= 500 or (h == "httpC" and 400 <= status < 500)):
                # (a pinned VM departure may turn a definition-level error into a value: that is C02's finding, not a containment fault)
                vmv = casesA[p["id"]]["out"]["kind"]
                if not (h == "httpC" and vmv != "error") and not (200 <= status < 300 and h == "httpC"):
                    bad = "evaluation error answered with status %d: %s" % (status, body.strip()[:120])
                elif h == "httpI":
                    bad = "evaluation error answered with status %d: %s" % (status, body.strip()[:120])
            elif 200 <= status < 300 and body.strip() == '{"error":"Internal server error"}':
                bad = "2xx carries the generic error body: a failure reported as success"
            elif status >= 500 and body.strip() not in ('{"error":"Internal server error"}',) and not (spec_kind == "value" and c["out"].get("st", 200) >= 500):
                # (a 5xx the program itself asks for - `> body :: 503`, a failing guard - carries the program's body)
                bad = "5xx body is not the generic one: " + body.strip()[:160]
            if bad:
                sig = "%s/%s" % (h, bad.split(":")[0][:40])
                if sig not in seen:
                    seen.add(sig)
                    ck.mismatch(sig, {"src": c["src"], "status": status, "what": bad}, replay={"kind": "lang", "prog": p})
    for h in [x for x in hangobs if x.get("probe") == "grow"]:
        ck.cov["evaluations"] += 1
        if h["status"] == 200:
            ck.mismatch("memory/exponential-growth-unbounded/%s" % h["mode"],
                        {"program": "a route that doubles a 16-byte string 21 times", "answer": h["body"], "bytes_allocated": h["alloc"],
                         "meaning": "nothing bounds the memory of one evaluation: 40 doublings instead of 21 end the process (fatal out of memory), which is how the thorough tier first met this"},
                        replay={"kind": "lang-hang"})
    hangobs = [x for x in hangobs if x.get("probe") != "grow"]
    for h in hangobs:
        ck.cov["evaluations"] += 1
        ok = h.get("result", "").startswith("5") and h.get("secs", 99) < 20 and h.get("after") == "200"
        if not ok:
            ck.mismatch("nontermination/%s" % h["mode"], h, replay={"kind": "lang-hang"})
    ck.cov["traces_validated_against_impl"] = n
    ck.cov["distinct_nontrivial"] = n
    ck.sample({"hang_probe": hangobs})
    ck.cov["rule"] = "same programs as C01 (the operator x shape table puts null/array/object in every operand position) on 7 engine configurations + HTTP in both modes, plus the non-termination probe"
