"""C05 - requests reach exactly the declared handler.  specs/router/Router.tla"""
import json, os, random
import vf

DEFS = r'''
Stat == {"a", "b"}
PNames == {"p", "q"}
Segs == [k : {"s"}, v : Stat] \cup [k : {"p"}, v : PNames]
NoDupNames(p) == \A i, j \in 1..Len(p) : (i # j /\ p[i].k = "p" /\ p[j].k = "p") => p[i].v # p[j].v
Pats == UNION {{p \in [1..j -> Segs] : NoDupNames(p)} : j \in 0..%(maxpat)d}
DeclSet == [m : %(methods)s, pat : Pats]
AllTables == UNION {[1..j -> DeclSet] : j \in 1..%(maxroutes)d}
Vals == {"a", "b", "z", ""}
AllRequests == [m : %(reqmethods)s, path : UNION {[1..j -> Vals] : j \in 0..%(maxpath)d}]
ReqSeq == SetToSeq(AllRequests)
EmitInv == (n = 0 /\ PickTable(decls)) =>
    PrintT(<<"CASE", ToJson([table |-> decls,
        exp |-> [i \in 1..Len(ReqSeq) |->
            LET r == DeclMatch(decls, ReqSeq[i]) IN
            [m |-> ReqSeq[i].m, path |-> ReqSeq[i].path, route |-> r,
             params |-> IF r = 0 THEN {} ELSE Bind(decls, ReqSeq[i], r)]]])>>)
'''
INVS = ["ScanIsDecl", "Specificity", "ModeAgnostic", "BindsAll"]


def run_model(ck, name, p, pick, dev=(), invs=INVS, sink=None, timeout=1800):
    defs = "PickTable(t) == " + pick + "\n" + (DEFS % p)
    kw = {"Decls": vf.TlaRaw("AllTables"), "Requests": vf.TlaRaw("AllRequests"), "Deviations": set(dev)}
    r = vf.tlc("router", "Router", kw, invariants=invs + (["EmitInv"] if sink is not None else []),
               defs=defs, extends=("Json", "TLC", "SequencesExt"), case_sink=sink, timeout=timeout)
    return r


def signature(m, case):
    e = case["exp"][m["req"]]
    t = case["table"]
    cls = []
    pats = [json.dumps(d["pat"]) for d in t]
    if len(set(pats)) < len(pats):
        ms = {}
        for d in t:
            ms.setdefault(json.dumps(d["pat"]), set()).add(d["m"])
        if any(len(v) > 1 for v in ms.values()):
            cls.append("same-pattern-two-methods")
        if len({(d["m"], json.dumps(d["pat"])) for d in t}) < len(t):
            cls.append("duplicate-declaration")
    if "" in e["path"]:
        cls.append("empty-segment")
    if "z" in e["path"]:
        cls.append("odd-value")
    return "%s/%s/%s" % (m["layer"], "404" if e["route"] == 0 else "dispatch", ",".join(cls))


def replay(ck, cases):
    work = vf.scratch("verif-c05-")
    path = os.path.join(work, "cases.ndjson")
    for i, c in enumerate(cases):
        c["id"] = i
    vf.write_ndjson(path, cases)
    out = path + ".out"
    rc, txt = vf.go_test("cmd/glyph", ["harness_test.go", "router_test.go"], run="TestVerifRouterReplay$",
                         env={"VERIF_CASES": path, "VERIF_OUT": out}, timeout=2400)
    res = vf.read_ndjson(out)
    summ = [r for r in res if r.get("summary")]
    if not summ or summ[0]["cases"] != len(cases):
        raise vf.InfraError("C05 driver failed rc=%s\n%s" % (rc, txt[-3000:]))
    ck.cov["traces_validated_against_impl"] += len(cases)
    ck.cov["evaluations"] += summ[0]["requests"] * 3
    seen = set()
    for m in res:
        if m.get("summary"):
            continue
        case = cases[m["case"]]
        sig = signature(m, case)
        if sig in seen:
            continue
        seen.add(sig)
        ck.mismatch(sig, {"mismatch": m, "table": case["table"], "request": case["exp"][m["req"]]},
                    replay={"kind": "router", "case": {"table": case["table"], "exp": [case["exp"][m["req"]]]}})


def run(ck, tier, seed):
    quick = tier == "quick"
    ck.assumptions += [
        "a pattern does not repeat a parameter name; segment values: static names, one 'other' value concretised in rotation as z, 'x y', '100%', 'café', 'q?x', 'a.b', '~t', '1', and the empty segment (doubled/trailing slash)",
        "encoded slashes (%2F) inside a segment are outside the space: net/http decodes them before routing",
        "for paths containing '//' a 301/308 from http.ServeMux (nothing ran) is accepted as well as dispatch on the cleaned path",
    ]
    rnd = random.Random(seed)
    # exhaustive model: all tables of <= 2 routes (thorough: 3 routes on a reduced alphabet), every request
    p = dict(maxpat=2, methods='{"GET", "POST"}', reqmethods='{"GET", "POST", "DELETE"}', maxroutes=2, maxpath=3)
    cases = []
    # behaviours for replay: a seeded sample of the tables
    frac = 12 if quick else 2
    pick = "TRUE"
    r = run_model(ck, "tables<=2", p, "(Len(t) >= 1)", sink=cases.append)
    ck.expect_model_ok("tables<=2", r)
    ck.add_model("tables<=2", r)
    rnd.shuffle(cases)
    keep = cases[: max(40, len(cases) // frac)]
    # always keep the decisive shapes: same pattern under two methods, overlap static/param in both orders, duplicates
    def decisive(c):
        t = c["table"]
        if len(t) < 2:
            return False
        a, b = t[0], t[1]
        return a["pat"] == b["pat"] or (len(a["pat"]) == len(b["pat"]) and a["m"] == b["m"])
    extra = [c for c in cases[len(keep):] if decisive(c)]
    rnd.shuffle(extra)
    keep += extra[: (150 if quick else 2000)]
    if not quick:
        p3 = dict(maxpat=2, methods='{"GET"}', reqmethods='{"GET", "POST"}', maxroutes=3, maxpath=2)
        cases3 = []
        r = run_model(ck, "tables<=3-GET", p3, "(Len(t) = 3)", sink=cases3.append, timeout=3000)
        ck.expect_model_ok("tables<=3-GET", r)
        ck.add_model("tables<=3-GET", r)
        rnd.shuffle(cases3)
        keep += cases3[:1500]
    ck.cov["distinct_nontrivial"] += len(keep)
    ck.cov["exhaustive"] = False
    ck.cov["notes"].append("model: exhaustive over all tables and requests of the bounds; replay: seeded sample of %d tables, each with every request" % len(keep))
    ck.sample({"table": keep[0]["table"], "requests": keep[0]["exp"][:4]})
    replay(ck, keep)
    ck.cov["rule"] = "a case = one route table served in both modes (and registered in a server.Router) with every request of the bounded request space; tables are distinct by construction"


def selftest(seed):
    """the design model must reject the path-keyed bytecode table (deviation)"""
    p = dict(maxpat=1, methods='{"GET", "POST"}', reqmethods='{"GET", "POST"}', maxroutes=2, maxpath=1)
    r = run_model(None, "dev", p, "TRUE", dev=("CLI_CompiledKeyedByPath",), invs=["ModeAgnostic"])
    ok = r.violation is not None
    print("selftest C05: deviation CLI_CompiledKeyedByPath %s" % ("violates ModeAgnostic (good)" if ok else "NOT detected"))
    return 0 if ok else 2
