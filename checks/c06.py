"""C06 - declared authentication fails closed.  specs/auth/AuthGate.tla"""
import json, os
import vf

INVS = ["FailClosed", "UnconfiguredDeniesAll", "OpenUnaffected", "ValidPasses", "StatusRanConsistent", "LockoutBounded"]
CLOCK = ["pkg/server/middleware.go"]
DEFS = r'''
MaxNowC == %d
MaxHist == %d
Bound2 == now <= MaxNowC /\ Len(hist) <= MaxHist
Emit == (hist' # hist) => PrintT(<<"CASE", ToJson(hist')>>)
SimDepth == %d
SimEmit == (Len(hist) >= SimDepth) => PrintT(<<"CASE", ToJson(hist)>>)
SimBound == now <= MaxNowC /\ Len(hist) < SimDepth
SimEmitInv == SimEmit
\* behaviours meant for replay: the clock moves only between requests (the replay driver runs each request at one
\* instant; time passing between a request's two critical sections is covered by the recorded concurrent traces)
SerialNext == (\E c \in Clients, s \in Shapes, f \in Fwds : Arrive(c, s, f))
              \/ (\E i \in 1..Len(reqs) : Simple(i) \/ Check(i) \/ Settle(i))
              \/ (reqs = <<>> /\ \E d \in Jumps : Advance(d))
SerialSpec == Init /\ [][SerialNext]_vars
'''
# time unit 20 s: LockoutDuration 60 s = 3, MaxLockout = ResetAfter = 900 s = 45; requests only at even times
LOCK = {"MaxFailures": 5, "Lockout": 3, "MaxLockout": 45, "ResetAfter": 45}


def L(scheme, tok):
    return {"scheme": scheme, "tok": tok}


def S(authz=(), xkey="absent"):
    return {"authz": list(authz), "xkey": xkey}


JWT_DET = [S(), S([L("", "empty")]), S([L("", "secret")]), S([L("Bearer ", "secret")]), S([L("bearer ", "secret")]),
           S([L("Bearer  ", "secret")]), S([L("Bearer ", "empty")]), S([L("Basic ", "secret")]), S([L("", "wrong")]),
           S([L("Bearer ", "wrong")]), S([L("Bearer ", "upper")]), S([L("Bearer ", "prefix")]), S([L("Bearer ", "longer")]),
           S([L("", "padded")]), S([L("Bearer ", "secret"), L("Bearer ", "wrong")]), S([], "secret")]
JWT_EITHER = [S([L("Bearer ", "wrong"), L("Bearer ", "secret")])]
KEY_DET = [S(), S([], "empty"), S([], "secret"), S([], "key2"), S([], "padded"), S([], "wrong"), S([], "upper"),
           S([], "prefix"), S([], "longer"), S([L("Bearer ", "secret")]), S([L("Bearer ", "key2")], "empty"),
           S([L("", "secret")]), S([L("bearer ", "secret")]), S([L("Basic ", "secret")]), S([L("Bearer ", "wrong")]),
           S([L("Bearer ", "padded")])]
KEY_EITHER = [S([L("Bearer ", "secret")], "wrong"), S([L("Bearer ", "wrong"), L("Bearer ", "key2")])]


def shapes_for(auth, env, det_only=True):
    if auth == "apikey":
        sh = KEY_DET + ([] if det_only else KEY_EITHER)
    else:
        sh = JWT_DET + ([] if det_only else JWT_EITHER)
        if env == "separators":   # the secret is ",": drop tokens that would coincide with it
            sh = [s for s in sh if all(l["tok"] not in ("upper", "prefix") for l in s["authz"])]
    return sh


def tla_shapes(shapes):
    return vf.TlaRaw("{" + ", ".join(vf.tla({"authz": [dict(x) for x in s["authz"]], "xkey": s["xkey"]}) for s in shapes) + "}")


def consts(auth, env, shapes, clients=("A",), jumps=(2,), inflight=1, hist=True, fwds=("",)):
    c = {"Fwds": set(fwds), "AuthType": auth, "EnvClass": env, "Clients": set(clients), "Shapes": tla_shapes(shapes),
         "Jumps": set(jumps), "MaxInFlight": inflight, "RecordHist": hist}
    c.update(LOCK)
    return c


BATCH = []


def gen(ck, name, auth, env, shapes, maxnow, maxhist, clients=("A",), jumps=(2,), sim=None, seed=1, fwds=("",)):
    cases = []
    kw = consts(auth, env, shapes, clients, jumps, fwds=fwds)
    if sim is None:
        r = vf.tlc("auth", "AuthGate", kw, spec="SerialSpec", invariants=INVS, constraint="Bound2", view="View", action_constraint="Emit",
                   defs=DEFS % (maxnow, maxhist, 0), case_sink=cases.append, timeout=900)
        ck.expect_model_ok(name, r)
        ck.add_model(name, r)
    else:
        r = vf.tlc("auth", "AuthGate", kw, spec="SerialSpec", invariants=INVS + ["SimEmitInv"], constraint="SimBound",
                   defs=DEFS % (maxnow, maxhist, sim["depth"]), simulate={"num": sim["num"], "depth": sim["depth"] * 4},
                   seed=seed, workers=1, case_sink=cases.append, timeout=900)
        ck.expect_model_ok(name, r)
        ck.cov["models"].append({"name": name, "mode": "simulate", "walks": len(cases)})
    uniq = {}
    for h in cases:
        uniq.setdefault(json.dumps(h, sort_keys=True), h)
    cases = list(uniq.values())
    if not cases:
        raise vf.InfraError("no behaviours for " + name)
    ck.cov["distinct_nontrivial"] += len(cases)
    ck.sample({"model": name, "behaviour": cases[len(cases) // 2]})
    for interp in (False, True):
        cfg = {"AuthType": auth, "EnvClass": env, "interp": interp, "tickSec": 20}
        for h in cases:
            BATCH.append((name, cfg, h))


def flush(ck, tier, seed):
    work = vf.scratch("verif-c06-")
    path = os.path.join(work, "cases.ndjson")
    vf.write_ndjson(path, [{"id": i, "cfg": cfg, "hist": h} for i, (_, cfg, h) in enumerate(BATCH)])
    out = path + ".out"
    rc, txt = vf.go_test("cmd/glyph", ["harness_test.go", "auth_test.go"], run="TestVerifAuthReplay$", clock=CLOCK,
                         env={"VERIF_CASES": path, "VERIF_OUT": out}, timeout=1500)
    res = vf.read_ndjson(out)
    summ = [r for r in res if r.get("summary")]
    if not summ or summ[0]["cases"] != len(BATCH):
        raise vf.InfraError("C06 replay driver failed rc=%s\n%s" % (rc, txt[-3000:]))
    ck.cov["traces_validated_against_impl"] += len(BATCH)
    ck.cov["evaluations"] += summ[0]["steps"]
    n = 0
    for m in res:
        if m.get("summary"):
            continue
        n += 1
        if n > 12:
            break
        name, cfg, h = BATCH[m["case"]]
        st = h[m["step"]]
        if m.get("open"):
            sig = "open-route-affected/%s" % cfg["AuthType"]
        else:
            kind = "ran-without-credential" if (not st["ran"]) and "ran=true" in m["got"].lower() else (
                "valid-refused" if st["ran"] else "status")
            sig = "replay/%s/%s/%s" % (cfg["AuthType"], cfg["EnvClass"], kind)
        ck.mismatch(sig, {"model": name, "cfg": cfg, "mismatch": m, "hist": h}, replay={"kind": "auth-replay", "cfg": cfg, "hist": h})
    del BATCH[:]


def either_pass(ck):
    """shapes whose outcome the property leaves open: FailClosed-side only (spec verdict via TLC)"""
    work = vf.scratch("verif-c06-")
    path = os.path.join(work, "shapes.ndjson")
    items = []
    for auth, env in (("jwt", "value"), ("apikey", "value"), ("apikey", "padded"), ("jwt", "unset"), ("apikey", "separators")):
        for interp in (False, True):
            items.append({"cfg": {"AuthType": auth, "EnvClass": env, "interp": interp, "tickSec": 20},
                          "shapes": shapes_for(auth, env, det_only=False)})
    vf.write_ndjson(path, items)
    out = path + ".out"
    rc, txt = vf.go_test("cmd/glyph", ["harness_test.go", "auth_test.go"], run="TestVerifAuthShapes$", clock=CLOCK,
                         env={"VERIF_CASES": path, "VERIF_OUT": out}, timeout=600)
    res = vf.read_ndjson(out)
    if rc != 0 or not res:
        raise vf.InfraError("shapes driver failed rc=%s\n%s" % (rc, txt[-2000:]))
    # verdicts from the spec: one TLC evaluation per configuration
    for it in items:
        cfg = it["cfg"]
        kw = consts(cfg["AuthType"], cfg["EnvClass"], it["shapes"])
        verd = []
        defs = 'EvalInit == PrintT(<<"CASE", ToJson([i \\in 1..Len(ShapeSeq) |-> Verdict(ShapeSeq[i])])>>) /\\ Init\nEvalNext == UNCHANGED vars\nShapeSeq == ' + vf.tla(it["shapes"]) + "\n"
        defs = "ShapeSeq == " + vf.tla(it["shapes"]) + "\n" + 'EvalInit == PrintT(<<"CASE", ToJson([i \\in 1..Len(ShapeSeq) |-> Verdict(ShapeSeq[i])])>>) /\\ Init\nEvalNext == UNCHANGED vars\n'
        r = vf.tlc("auth", "AuthGate", kw, spec=None, init="EvalInit", next_="EvalNext", defs=defs, workers=1,
                   case_sink=verd.append, timeout=120)
        if not r.ok or not verd:
            raise vf.InfraError("verdict evaluation failed: %s %s" % (r.error, r.out[-1500:]))
        v = verd[0]
        obs = [o for o in res if o["cfg"] == cfg]
        for o in obs:
            want = v[o["i"]]
            sh = it["shapes"][o["i"]]
            ck.cov["evaluations"] += 1
            bad = None
            if o["panic"] != "<nil>":
                bad = "panic"
            elif o["ran"] != (o["status"] == 200):
                bad = "status/ran inconsistent"
            elif want == "bad" and o["ran"]:
                bad = "ran-without-credential"
            elif want == "ok" and not o["ran"]:
                bad = "valid-refused"
            elif not o["ran"] and o["status"] not in (401, 403, 429):
                bad = "unexpected status %d" % o["status"]
            if bad:
                ck.mismatch("shape/%s/%s/%s" % (cfg["AuthType"], cfg["EnvClass"], bad),
                            {"cfg": cfg, "shape": sh, "spec_verdict": want, "observed": o},
                            replay={"kind": "auth-shape", "cfg": cfg, "shape": sh})


def record(ck, tier, seed):
    work = vf.scratch("verif-c06-")
    out = os.path.join(work, "rec.ndjson")
    rc, txt = vf.go_test("cmd/glyph", ["harness_test.go", "auth_test.go"], run="TestVerifAuthRecord$", clock=CLOCK, race=True,
                         env={"VERIF_REC_OUT": out, "VERIF_SEED": str(seed), "VERIF_NTRACES": "4" if tier == "quick" else "20"},
                         timeout=900)
    if "DATA RACE" in txt:
        ck.mismatch("race/auth", {"output": txt[-3000:]})
        return
    lines = vf.read_ndjson(out)
    if rc != 0 or not lines:
        raise vf.InfraError("auth record driver failed rc=%s\n%s" % (rc, txt[-3000:]))
    for ln in lines:
        if ln["ev"] == "BAD":
            ck.mismatch("concurrent/" + ln["what"].split(" with ")[0], ln)
    lines = [ln for ln in lines if ln["ev"] != "BAD"]
    strangers = [ln for ln in lines if ln.get("identity") is not None]
    if strangers:
        # the failure tracker was keyed by something that is not the address of the client that sent the request
        ck.mismatch("trace/tracker-keyed-by-something-else-than-the-client-address", {"identity": strangers[0]["identity"], "event": strangers[0],
                    "clients": "10.0.0.1 and 2001:db8::b, ports vary"}, replay={"kind": "auth-record"})
        return
    vf.write_ndjson(out, lines)
    shapes = [S([L("Bearer ", "secret")]), S([L("Bearer ", "wrong")])]
    kw = consts("jwt", "value", shapes, clients=("A", "B"), inflight=6, hist=False)
    v = vf.validate_trace("auth", "AuthGateTrace", kw, out, invariants=INVS, timeout=900)
    ntr = sum(1 for ln in lines if ln["ev"] == "Reset")
    ck.cov["traces_validated_against_impl"] += ntr
    ck.cov["models"].append({"name": "trace-lockout", "mode": "trace-validation", "traces": ntr, "events": len(lines),
                             "states": v["states"], "accepted": v["accepted"]})
    if not v["accepted"]:
        at = v["reject_at"]
        ck.mismatch("trace/lockout", {"reject_at": at, "line": lines[at - 1] if at and at <= len(lines) else None,
                                      "violation": v["violation"]}, replay={"kind": "auth-record"})
    else:
        ck.sample({"trace_events": lines[1:7]}, limit=8)


def run(ck, tier, seed):
    quick = tier == "quick"
    ck.assumptions += [
        "time unit 20 s (LockoutDuration 3, MaxLockout = ResetAfter = 45 units from DefaultAuthRateLimitConfig); requests are sent at even units so no comparison is at an exact boundary",
        "credential = the configured shared secret (the code has no JWT validation; the spec states the documented rule)",
        "header shapes are set on the request object (no HTTP/1.1 parsing: leading/trailing blanks are preserved)",
        "the 60 s background sweeper of failure trackers is not exercised",
    ]
    # concurrency model: two in-flight requests of the same client, all interleavings of the critical sections
    two = [S([L("Bearer ", "secret")]), S([L("Bearer ", "wrong")])]
    r = vf.tlc("auth", "AuthGate", dict(consts("jwt", "value", two, clients=("A",), jumps=(4, 46), inflight=2, hist=False), MaxFailures=2),
               invariants=INVS, constraint="Bound2", defs=DEFS % (60 if quick else 100, 0, 0), timeout=900)
    ck.expect_model_ok("mc-interleavings", r)
    ck.add_model("mc-interleavings", r)
    # credential tables: every shape x every configuration, one request each (transition cover depth 1..2)
    for auth in ("jwt", "apikey", "other"):
        for env in ("unset", "blank", "value", "padded", "separators"):
            gen(ck, "shapes-%s-%s" % (auth, env), auth, env, shapes_for(auth, env), 0, 1 if quick else 2)
    gen(ck, "open-route", "none", "unset", JWT_DET[:6] + KEY_DET[2:4], 0, 1)
    # lockout state machine: valid / wrong / missing, clock jumps
    lock_shapes = [S([L("Bearer ", "secret")]), S([L("Bearer ", "wrong")]), S()]
    gen(ck, "lockout-sim", "jwt", "value", lock_shapes, 400, 0, clients=("A", "B"), jumps=(2, 4, 10, 46),
        sim={"num": 150 if quick else 3000, "depth": 30}, seed=seed)
    gen(ck, "lockout-sim-forwarded", "jwt", "value", lock_shapes[:2], 400, 0, clients=("A", "B"), jumps=(2, 4, 46),
        sim={"num": 150 if quick else 3000, "depth": 30}, seed=seed + 5, fwds=("", "A", "B"))
    gen(ck, "lockout-cover", "jwt", "value", lock_shapes[:2], 8 if quick else 12, 7 if quick else 9, clients=("A",), jumps=(4,))
    ck.cov["exhaustive"] = True
    flush(ck, tier, seed)
    either_pass(ck)
    record(ck, tier, seed)
    ck.cov["rule"] = "behaviours (request sequences with header shapes, clients, clock jumps) from TLC transition cover / random walks, replayed through parseSource+setupRoutes+createHandler in both execution modes; distinct behaviours counted after de-duplication"
