"""C07 - declared data contracts are enforced at the boundary.  specs/contract/TypeContract.tla"""
import json, os, random
import vf

# ---- the catalogue (python only renders TLA+ text and GlyphLang source from the same table) ----
T = lambda k, **kw: dict(k=k, **kw)
INT, FLOAT, STR, BOOL, ANY = T("int"), T("float"), T("str"), T("bool"), T("any")
NODEF = {"k": "nodefault"}
V = lambda k, **kw: dict(k=k, **kw)
VINT, VFRAC, VSTR, VBOOL, VNULL = V("int", v=5), V("frac"), V("str", v="x"), V("bool", v=True), V("null")
FIELDS = [
    dict(name="a_int", t=INT, req=False, d=NODEF, src="int"),
    dict(name="b_intreq", t=INT, req=True, d=NODEF, src="int!"),
    dict(name="c_intdef", t=INT, req=False, d=V("int", v=7), src="int = 7"),
    dict(name="d_strreq", t=STR, req=True, d=NODEF, src="str!"),
    dict(name="e_stropt", t=T("opt", t=STR), req=False, d=NODEF, src="str?"),
    dict(name="f_float", t=FLOAT, req=False, d=NODEF, src="float"),
    dict(name="g_boolreq", t=BOOL, req=True, d=NODEF, src="bool!"),
    dict(name="h_any", t=ANY, req=False, d=NODEF, src="any"),
    dict(name="i_listint", t=T("list", t=INT), req=False, d=NODEF, src="List[int]"),
    dict(name="j_liststrreq", t=T("list", t=STR), req=True, d=NODEF, src="List[str]!"),
    dict(name="k_addr", t=T("named", n="Addr"), req=False, d=NODEF, src="Addr"),
    dict(name="l_union", t=T("union", a=INT, b=STR), req=False, d=NODEF, src="int | str"),
    dict(name="m_strreqdef", t=STR, req=True, d=V("str", v="dflt"), src='str! = "dflt"'),
    dict(name="n_addrreq", t=T("named", n="Addr"), req=True, d=NODEF, src="Addr!"),
    # unions with a member that has contents of its own: the contents count, not only the outer shape
    dict(name="o_unionlist", t=T("union", a=T("list", t=INT), b=STR), req=False, d=NODEF, src="List[int] | str"),
    dict(name="p_unionaddr", t=T("union", a=T("named", n="Addr"), b=STR), req=True, d=NODEF, src="Addr | str!"),
]
ADDR = [dict(name="city", t=STR, req=True, d=NODEF, src="str!"), dict(name="zip", t=INT, req=False, d=NODEF, src="int")]
OBJ = lambda **kw: V("obj", f=[{"name": k, "v": v} for k, v in kw.items()])
CANDS = [V("absent"), VNULL, VINT, VFRAC, VSTR, VBOOL, V("arr", e=[VINT, VINT]), V("arr", e=[VSTR]), V("arr", e=[VINT, VSTR]),
         V("arr", e=[VNULL]), V("arr", e=[]), OBJ(city=VSTR), OBJ(), OBJ(city=VNULL), OBJ(city=VSTR, zip=VSTR), OBJ(city=VSTR, zip=VINT)]
CANDS_SMALL_IDX = [0, 1, 2, 4, 11, 13]
LEX = [("12", "ok", "ok", "bad"), ("-3", "ok", "ok", "bad"), ("1.5", "bad", "ok", "bad"), ("1e3", "bad", "ok", "bad"),
       ("abc", "bad", "bad", "bad"), ("", "bad", "bad", "either"), (" 7", "bad", "bad", "bad"), ("true", "bad", "bad", "ok"),
       ("yes", "bad", "bad", "either"), ("0", "ok", "ok", "either"), ("12abc", "bad", "bad", "bad"), ("1.5.2", "bad", "bad", "bad"),
       ("99999999999999999999", "bad", "either", "bad"), ("FALSE", "bad", "bad", "ok")]
QTYPES = ["int", "float", "bool", "str"]
QDEF = {"int": V("int", v=7), "float": V("int", v=7), "bool": V("bool", v=True), "str": V("str", v="dflt")}


def typedefs():
    td = {"Addr": ADDR}
    for i, f in enumerate(FIELDS):
        td["S%d" % i] = [f]
    for i, f in enumerate(FIELDS):
        for j, g in enumerate(FIELDS):
            if i != j and (i + j) % 3 == 0:
                td["D%d_%d" % (i, j)] = [f, g]
    return td


def tla_field(f):
    return vf.tla({"name": f["name"], "t": f["t"], "req": f["req"], "def": f["d"]})


def glyph_lit(v):
    k = v["k"]
    if k == "null":
        return "null"
    if k == "int":
        return str(v["v"])
    if k == "frac":
        return "1.5"
    if k == "str":
        return '"%s"' % v["v"]
    if k == "bool":
        return "true" if v["v"] else "false"
    if k == "arr":
        return "[" + ", ".join(glyph_lit(e) for e in v["e"]) + "]"
    if k == "obj":
        return "{" + ", ".join("%s: %s" % (f["name"], glyph_lit(f["v"])) for f in v["f"]) + "}"
    raise ValueError(k)


def source(td, rets):
    out = []
    for n, fields in td.items():
        out.append(": %s {\n%s\n}\n" % (n, "\n".join("  %s: %s" % (f["name"], f["src"]) for f in fields)))
    for n in td:
        if n != "Addr":
            out.append("@ POST /t/%s {\n  < input: %s\n  > {ran: true, input: input}\n}\n" % (n, n))
    qi = 0
    for t in QTYPES:
        for req in (False, True):
            for hasdef in (False, True):
                for arr in (False, True):
                    ty = t + ("[]" if arr else "") + ("!" if req else "")
                    dflt = (" = " + glyph_lit(QDEF[t])) if hasdef and not arr else ""
                    out.append("@ GET /q/q%d {\n  ? p: %s%s\n  > {ran: true, q: query}\n}\n" % (qi, ty, dflt))
                    qi += 1
    for i, (ts, v, st) in enumerate(rets):
        out.append("@ GET /ret/r%d -> %s {\n  > %s%s\n}\n" % (i, ts, glyph_lit(v), (" :: %d" % st) if st else ""))
    return "\n".join(out)


RET_TYPES = [("int", INT), ("str", STR), ("float", FLOAT), ("bool", BOOL), ("List[int]", T("list", t=INT)), ("Addr", T("named", n="Addr")),
             ("int | str", T("union", a=INT, b=STR)), ("any", ANY), ("S1", T("named", n="S1")), ("S12", T("named", n="S12"))]


def run(ck, tier, seed):
    quick = tier == "quick"
    rnd = random.Random(seed)
    ck.assumptions += [
        "field rule: a required (!) field must be present and not null; any other field may be absent or null; defaults fill exactly the absent fields; unknown extra fields are allowed",
        "a null element inside a typed list, an empty string for a bool query value and '0'/'yes' style booleans are left open ('either'); float overflow likewise",
        "whole JSON numbers are ints, 1.5 is the fractional representative; values are rendered identically as JSON bodies and as GlyphLang literals",
        "non-object bodies: absent, empty, malformed JSON, JSON array, scalar, null, and a JSON object sent as text/plain",
        "one module with every type definition and route is served once per execution mode (compiled / --interpret)",
    ]
    td = typedefs()
    names = [n for n in td if n != "Addr"]
    # a return that carries a status (`> v :: 200`) is an explicit answer of the route and exempt from the declared type
    rets = [(ts, v, st) for ts, _ in RET_TYPES for v in CANDS[1:] for st in (0, 200, 201)]
    ret_t = {ts: t for ts, t in RET_TYPES}
    # ---- TLA+ definitions
    tdtxt = "(" + " @@ ".join("(%s :> <<%s>>)" % (vf.tla(n), ", ".join(tla_field(f) for f in fs)) for n, fs in td.items()) + ")"
    cands = "<<" + ", ".join(vf.tla(c) for c in CANDS) + ">>"
    small = "{" + ", ".join(str(i + 1) for i in CANDS_SMALL_IDX) + "}"
    lex = "<<" + ", ".join(vf.tla({"text": t, "int": a, "float": b, "bool": c}) for t, a, b, c in LEX) + ">>"
    qdecls = []
    for t in QTYPES:
        for req in (False, True):
            for hasdef in (False, True):
                for arr in (False, True):
                    qdecls.append({"t": t, "req": req, "def": QDEF[t] if (hasdef and not arr) else NODEF, "arr": arr})
    defs = r'''
TD == %(td)s
Cands == %(cands)s
Small == %(small)s
Lex == %(lex)s
QDecls == <<%(qdecls)s>>
Rets == <<%(rets)s>>
MkObj(fs, picks) == [k |-> "obj", f |-> SelectSeq([i \in 1..Len(fs) |-> [name |-> fs[i].name, v |-> Cands[picks[i]]]], LAMBDA x : x.v.k # "absent")]
ObjBodies(n) == LET fs == TD[n] IN
    IF Len(fs) = 1 THEN {MkObj(fs, <<c>>) : c \in 1..Len(Cands)}
    ELSE {MkObj(fs, <<c1, c2>>) : c1 \in %(dset)s, c2 \in %(dset)s}
Extra(o) == [k |-> "obj", f |-> Append(o.f, [name |-> "zz_extra", v |-> [k |-> "int", v |-> 5]])]
InputJobs == UNION {{[kind |-> "input", type |-> n, body |-> [class |-> "object", v |-> o]] : o \in ObjBodies(n)} : n \in %(names)s}
          \cup UNION {{[kind |-> "input", type |-> n, body |-> [class |-> "object", v |-> Extra(o)]] : o \in {MkObj(TD[n], [i \in 1..Len(TD[n]) |-> 3])}} : n \in %(names)s}
          \cup {[kind |-> "input", type |-> n, body |-> [class |-> c, v |-> [k |-> "null"]]] :
                    n \in %(names)s, c \in {"absent", "empty", "malformed", "array", "scalar", "null", "notjson"}}
QueryJobs == {[kind |-> "query", qi |-> i, decl |-> QDecls[i], raw |-> r] : i \in 1..Len(QDecls),
                 r \in {<<>>} \cup {<<Lex[a]>> : a \in 1..Len(Lex)} \cup {<<Lex[a], Lex[b]>> : a \in {1, 3, 5, 8}, b \in {1, 5, 6}}}
ReturnJobs == {[kind |-> "return", ri |-> i, t |-> Rets[i].t, v |-> Rets[i].v, st |-> Rets[i].st] : i \in 1..Len(Rets)}
AllJobs == InputJobs \cup QueryJobs \cup ReturnJobs
EmitInv == (decision.d # "pending") => PrintT(<<"CASE", ToJson([job |-> job, decision |-> decision])>>)
''' % {"td": tdtxt, "cands": cands, "small": small, "lex": lex, "qdecls": ", ".join(vf.tla(q) for q in qdecls),
       "rets": ", ".join(vf.tla({"t": ret_t[ts], "v": v, "st": st}) for ts, v, st in rets),
       "dset": "Small" if quick else "1..Len(Cands)", "names": vf.tla(set(names))}
    cases = []
    r = vf.tlc("contract", "TypeContract", {"TypeDefs": vf.TlaRaw("TD"), "Jobs": vf.TlaRaw("AllJobs")},
               invariants=["RunOnlyConforming", "ConformingNeverRejected", "DefaultsExact", "RequiredNeverNull", "EmitInv"],
               defs=defs, case_sink=cases.append, timeout=3000, heap="24g")
    ck.expect_model_ok("jobs", r)
    ck.add_model("jobs", r)
    if not cases:
        raise vf.InfraError("no jobs")
    for i, c in enumerate(cases):
        c["id"] = i
    ck.cov["distinct_nontrivial"] += len(cases)
    ck.cov["exhaustive"] = True
    for kind in ("input", "query", "return"):
        ck.sample(next(c for c in cases if c["job"]["kind"] == kind), limit=6)
    work = vf.scratch("verif-c07-")
    path = os.path.join(work, "cases.ndjson")
    vf.write_ndjson(path, cases)
    spath = os.path.join(work, "module.glyph")
    open(spath, "w").write(source(td, rets))
    out = path + ".out"
    rc, txt = vf.go_test("cmd/glyph", ["harness_test.go", "contract_test.go"], run="TestVerifContractReplay$",
                         env={"VERIF_CASES": path, "VERIF_OUT": out, "VERIF_SOURCE": spath}, timeout=3000)
    res = vf.read_ndjson(out)
    summ = [x for x in res if x.get("summary")]
    if not summ or summ[0]["cases"] != 2 * len(cases):
        raise vf.InfraError("C07 driver failed rc=%s\n%s" % (rc, txt[-3000:]))
    ck.cov["traces_validated_against_impl"] += summ[0]["cases"]
    ck.cov["evaluations"] += summ[0]["cases"]
    seen = set()
    for m in res:
        if m.get("summary"):
            continue
        c = cases[m["case"]]
        j = c["job"]
        cls = j["body"]["class"] if j["kind"] == "input" else ""
        sig = "%s/%s/%s/%s/%s" % (m["mode"], j["kind"], cls, c["decision"]["d"], m["kind"])
        if sig in seen:
            continue
        seen.add(sig)
        ck.mismatch(sig, {"mismatch": m, "job": j, "decision": c["decision"]}, replay={"kind": "contract", "case": c})
    ck.cov["rule"] = "a case = one request (typed body / query string / return value) decided by the spec; each sent to the compiled and the interpreted server"
