"""C08 - concurrent requests do not interfere.  specs/isolation/ReqIsolation.tla, ReqIsolationTrace.tla"""
import itertools, json, os, re
import vf

INVS = ["SoloEquivalence", "NoTornRecord", "Quiescent", "Linearizable"]
EXPECT = {"SharedDepth": "SoloEquivalence", "SharedTypeScope": "SoloEquivalence", "LiveRecords": "NoTornRecord", "SplitCreate": "Linearizable"}


def J(route, x=0, y=0):
    return {"route": route, "x": x, "y": y}


def tla_mixes(ms):
    def job(j):
        x = '"%s"' % j["x"] if isinstance(j["x"], str) else str(j["x"])
        return '[route |-> "%s", x |-> %s, y |-> %d]' % (j["route"], x, j["y"])
    return vf.TlaRaw("{" + ", ".join("<<" + ", ".join(job(j) for j in m) + ">>" for m in ms) + "}")


BASE = [J("sum", 2), J("sum", 3), J("gen", 1), J("gen", 2), J("echo", 7), J("create", 5), J("create", 6), J("get", 1), J("update", 1, 9),
        J("delete", 1), J("length"), J("all"), J("incr", "c1"), J("rmw", 1), J("kvset", "k1", 4), J("kvget", "k1"), J("push", 3), J("llen"),
        J("insert", 1), J("count")]


def mixes(tier, seed):
    import random
    rnd = random.Random(seed)
    hand = [[J("create", 5), J("create", 6), J("length")], [J("sum", 2), J("sum", 3), J("sum", 2)], [J("gen", 1), J("gen", 2), J("echo", 7)],
            [J("create", 5), J("update", 1, 9), J("get", 1)], [J("create", 5), J("rmw", 1), J("rmw", 1)], [J("create", 5), J("delete", 1), J("create", 6)],
            [J("incr", "c1"), J("incr", "c1"), J("incr", "c1")], [J("kvset", "k1", 4), J("kvget", "k1"), J("kvset", "k1", 5)],
            [J("push", 3), J("push", 4), J("llen")], [J("insert", 1), J("count"), J("insert", 2)], [J("create", 5), J("all"), J("update", 1, 9)],
            [J("sum", 3), J("gen", 1), J("create", 5)]]
    if tier == "quick":
        return hand + [[rnd.choice(BASE) for _ in range(3)] for _ in range(20)]
    allm = [list(c) for c in itertools.combinations_with_replacement(BASE, 3)]
    rnd.shuffle(allm)
    return hand + allm[:600] + [[rnd.choice(BASE) for _ in range(4)] for _ in range(40)]


def race_signatures(txt):
    sigs = []
    for block in txt.split("WARNING: DATA RACE")[1:]:
        block = block.split("==================")[0]
        frames = [re.sub(r"\(\)$", "", l.strip()).replace("github.com/glyphlang/glyph/", "") for l in block.splitlines()
                  if l.startswith("  ") and "glyphlang" in l and "zz_verif" not in l and "/cmd/glyph.create" not in l]
        acc = []
        for part in re.split(r"\n(?:Previous |Goroutine )", block)[:2]:
            fr = [re.sub(r"\(\)$", "", l.strip()).replace("github.com/glyphlang/glyph/", "") for l in part.splitlines()
                  if l.startswith("  ") and "glyphlang" in l and "zz_verif" not in l]
            acc.append(fr[0] if fr else "?")
        sigs.append(("race/" + " <-> ".join(sorted(set(acc))), block[:3000]))
    return sigs


def run(ck, tier, seed):
    quick = tier == "quick"
    ck.assumptions += [
        "the model enumerates every interleaving of the routes' shared-state steps for 3 (thorough: also 4) simultaneous requests; the real server's interleavings are sampled (bursts of simultaneous requests released by one barrier, several GOMAXPROCS values, the race detector on), not enumerated: no deterministic scheduler for goroutines exists without instrumenting the runtime",
        "histories are black-box: call and return of every HTTP request ordered by one atomic counter in the client; linearization points are placed by TLC (silent steps), so no hook in the providers is needed and none can be displaced by a change",
        "a data race reported by the Go race detector during the run is a violation (the Go memory model gives racy map access no meaning; it ends in 'fatal error: concurrent map read and map write')",
        "Solo answers are the specification's (sum n = n(n+1)/2 up to the depth limit measured on the live server with one request; echo and generic identity return their argument)",
    ]
    # 1. the design: all interleavings
    ms = mixes(tier, seed)
    kw = {"Mixes": tla_mixes(ms), "MaxDepth": 4, "Deviations": set()}
    r = vf.tlc("isolation", "ReqIsolation", kw, invariants=INVS, properties=["Termination"], timeout=3000, workers=12)
    ck.expect_model_ok("design-%d-mixes" % len(ms), r)
    ck.add_model("design-%d-mixes" % len(ms), r)
    ck.cov["exhaustive"] = True
    ck.cov["distinct_nontrivial"] += len(ms)
    # the model must be able to see each way of sharing (vacuity guard)
    for dev, inv in EXPECT.items():
        rr = vf.tlc("isolation", "ReqIsolation", {"Mixes": tla_mixes(ms[:12]), "MaxDepth": 4, "Deviations": {dev}}, invariants=INVS, timeout=900, workers=8,
                    want_cases=False)
        if rr.ok or inv not in (rr.violation or ""):
            raise vf.InfraError("model does not exhibit deviation %s (%s)" % (dev, rr.violation or rr.error))
        ck.cov["models"].append({"name": "as-implemented/" + dev, "violates": inv, "distinct": rr.distinct})
    # 2. the real server under simultaneous requests, race detector on
    work = vf.scratch("verif-c08-")
    out = os.path.join(work, "iso")
    env = {"VERIF_OUT": out, "VERIF_SEED": str(seed), "VERIF_ISO_SESSIONS": "4" if quick else "12",
           "VERIF_ISO_ROUNDS": "40" if quick else "80", "VERIF_ISO_WIDTH": "8" if quick else "10"}
    rc, txt = vf.go_test("cmd/glyph", ["harness_test.go", "iso_test.go"], run="TestVerifIsoRun$", race=True, env=env, timeout=3000)
    seen = set()
    for sig, block in race_signatures(txt):
        if sig not in seen:
            seen.add(sig)
            ck.mismatch(sig, {"report": block}, replay={"kind": "iso-run", "env": env})
    if "fatal error:" in txt or "panic:" in txt:
        m = re.search(r"(fatal error: [^\n]*|panic: [^\n]*)", txt)
        ck.mismatch("process-crash/" + m.group(1)[:60], {"output": txt[-4000:]}, replay={"kind": "iso-run", "env": env})
        return
    if not os.path.exists(out + ".meta.json"):
        raise vf.InfraError("C08 driver failed rc=%s\n%s" % (rc, txt[-3000:]))
    meta = json.load(open(out + ".meta.json"))
    ck.cov["solo_depth_limit"] = meta
    for mode, key in (("interp", "maxSumInterpreted"), ("compiled", "maxSumCompiled")):
        path = "%s.%s.ndjson" % (out, mode)
        lines = vf.read_ndjson(path)
        nreq = sum(1 for e in lines if e["e"] == "ret")
        ck.cov["evaluations"] += nreq
        # plain failures first (better diagnostics than a rejected trace)
        bad = {}
        for e in lines:
            if e["e"] == "ret" and e["res"]["k"] in ("fail", "panic"):
                bad.setdefault("%s/response/%s/%s" % (mode, e["route"], e["res"]["k"]), e)
        for sig, e in bad.items():
            ck.mismatch(sig, {"request": {k: e[k] for k in ("route", "x", "y")}, "answer": e.get("raw")}, replay={"kind": "iso-run", "env": env})
        maxdepth = meta[key] if meta[key] < 4000 else 10 ** 9      # 4000: the search's ceiling, i.e. no limit in this mode
        # one TLC per session, in parallel: the search over placements of linearization points is per session anyway
        sessions, cur = [], []
        for e in lines:
            if e["e"] == "reset" and cur:
                sessions.append(cur)
                cur = []
            cur.append(e)
        if cur:
            sessions.append(cur)
        offsets, off = [], 0
        for sess in sessions:
            offsets.append(off)
            off += len(sess)

        def one(i):
            sp = "%s.s%d.ndjson" % (path, i)
            vf.write_ndjson(sp, sessions[i])
            return vf.validate_trace("isolation", "ReqIsolationTrace", {"MaxDepth": maxdepth}, sp, timeout=2400, heap="3g")
        from concurrent.futures import ThreadPoolExecutor
        with ThreadPoolExecutor(max_workers=6) as ex:
            results = list(ex.map(one, range(len(sessions))))
        bad_i = next((i for i, r in enumerate(results) if not r["accepted"]), None)
        v = {"accepted": bad_i is None, "states": sum(r["states"] for r in results),
             "reject_at": (offsets[bad_i] + results[bad_i]["reject_at"]) if bad_i is not None and results[bad_i]["reject_at"] else None,
             "violation": results[bad_i]["violation"] if bad_i is not None else None}
        nsess = sum(1 for e in lines if e["e"] == "reset")
        ck.cov["traces_validated_against_impl"] += nsess
        ck.cov["models"].append({"name": "history-" + mode, "mode": "trace-validation", "sessions": nsess, "requests": nreq, "events": len(lines),
                                 "states": v["states"], "accepted": v["accepted"]})
        if not v["accepted"] and not bad:
            at = v["reject_at"]
            keep = os.path.join(vf.out_dir(), "replay", "C08-%s-%d.ndjson" % (mode, seed))
            os.makedirs(os.path.dirname(keep), exist_ok=True)
            # keep the session that was rejected
            start = max(i for i, e in enumerate(lines[:at]) if e["e"] == "reset") if at else 0
            vf.write_ndjson(keep, lines[start:at] if at else lines)
            badline = lines[at - 1] if at and at <= len(lines) else None
            route = badline.get("route", "?") if badline else "?"
            concurrent = [e for e in lines[start:at - 1] if e["e"] == "call" and not any(x["e"] == "ret" and x["r"] == e["r"] for x in lines[start:at - 1])] if at else []
            ck.mismatch("%s/history/%s/%s" % (mode, route, badline["res"]["k"] if badline and badline.get("res") else "?"),
                        {"reject_at": at, "event": badline, "in_flight": [{k: e[k] for k in ("r", "route", "x", "y", "res")} for e in concurrent][:12],
                         "meaning": "no placement of the in-flight requests' provider operations (or the Solo answer) explains this answer", "trace": keep},
                        replay={"kind": "iso-trace", "trace": keep, "maxdepth": maxdepth})
        elif v["accepted"]:
            ck.sample({"mode": mode, "events": [e for e in lines if e["e"] != "reset"][:6]}, limit=2)
    ck.cov["rule"] = "design: every interleaving of 3-request mixes at shared-state-step grain; implementation: simultaneous bursts against one live server, race detector on, black-box histories accepted by the trace specification"


def replay(ck, data):
    if data.get("kind") == "iso-trace":
        v = vf.validate_trace("isolation", "ReqIsolationTrace", {"MaxDepth": data["maxdepth"]}, data["trace"], timeout=1200)
        if not v["accepted"]:
            ck.mismatch("replayed-history", {"reject_at": v["reject_at"]})
    else:
        run(ck, "quick", int(data.get("env", {}).get("VERIF_SEED", 1)))
