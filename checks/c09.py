"""C09 - async blocks are race-free, deterministic and settle once.
specs/async/Futures.tla (+FuturesObs.tla), specs/lang/GlyphCore.tla (async/await)"""
import json, os, re
import vf, langgen, langrun

DEFS = '''
MaxHist == %d
HBound == Len(hist) <= MaxHist
Emit == (hist' # hist) => PrintT(<<"CASE", ToJson(hist')>>)
'''
CONTRACTS = ["TypeOK", "AllContract", "RaceContract", "AnyContract"]


def race_blocks(txt):
    out = []
    for block in txt.split("WARNING: DATA RACE")[1:]:
        block = block.split("==================")[0]
        fr = [re.sub(r"\(\)$", "", l.strip()).replace("github.com/glyphlang/glyph/", "") for l in block.splitlines()
              if l.startswith("  ") and "glyphlang" in l and "zz_verif" not in l]
        out.append(("race/" + (fr[0] if fr else "?"), block[:2500]))
    return out


def library(ck, tier, seed):
    quick = tier == "quick"
    allc = []
    for kind in ("all", "race", "any"):
        r = vf.tlc("async", "Futures", {"NF": 3, "Kind": kind, "Deviations": set(), "RecordHist": False}, invariants=CONTRACTS,
                   properties=["SettleOnce", "ResultStable"], timeout=900)
        ck.expect_model_ok("futures-" + kind, r)
        ck.add_model("futures-" + kind, r)
        cases = []
        r = vf.tlc("async", "Futures", {"NF": 3, "Kind": kind, "Deviations": set(), "RecordHist": True}, invariants=["TypeOK"],
                   constraint="HBound", view="View", action_constraint="Emit", defs=DEFS % 6, case_sink=cases.append, timeout=1500)
        ck.expect_model_ok("futures-cover-" + kind, r)
        allc += [{"id": len(allc) + i, "kind": kind, "nf": 3, "hist": h} for i, h in enumerate(cases)]
    rr = vf.tlc("async", "Futures", {"NF": 2, "Kind": "any", "Deviations": {"DoubleSettle"}, "RecordHist": False}, properties=["SettleOnce"], timeout=600,
                want_cases=False)
    if rr.ok:
        raise vf.InfraError("Futures.tla does not see a double settle")
    ck.cov["exhaustive"] = True
    work = vf.scratch("verif-c09-")
    path = os.path.join(work, "cases.ndjson")
    vf.write_ndjson(path, allc)
    rc, txt = vf.go_test("pkg/interpreter", ["future_test.go"], run="TestVerifFutureReplay$", env={"VERIF_CASES": path, "VERIF_OUT": path + ".out"},
                         timeout=2400, race=True)
    for sig, block in race_blocks(txt)[:3]:
        ck.mismatch("library/" + sig, {"report": block})
    res = vf.read_ndjson(path + ".out")
    summ = [x for x in res if x.get("summary")]
    if not summ or summ[0]["cases"] != len(allc):
        if "fatal error" in txt or "panic:" in txt:
            ck.mismatch("library/process-crash", {"output": txt[-3000:]})
            return
        raise vf.InfraError("C09 replay driver failed rc=%s\n%s" % (rc, txt[-2500:]))
    ck.cov["traces_validated_against_impl"] += len(allc)
    ck.cov["distinct_nontrivial"] += len(allc)
    ck.cov["evaluations"] += summ[0]["steps"]
    seen = set()
    for m in res:
        if m.get("summary"):
            continue
        c = allc[m["case"]]
        st = c["hist"][m["step"]] if m["step"] >= 0 else {"op": "panic"}
        pre = sum(1 for s in c["hist"][:m["step"]] if s["op"] != "call" and not any(x["op"] == "call" for x in c["hist"][:c["hist"].index(s)]))
        sig = "library/%s/%s-after-%s" % (c["kind"], st["op"], "call" if any(s["op"] == "call" for s in c["hist"][:m["step"]]) else "no-call")
        if sig in seen:
            continue
        seen.add(sig)
        ck.mismatch(sig, {"kind": c["kind"], "step": m["step"], "why": m["why"], "behaviour": [{k: s[k] for k in ("op", "f", "v")} for s in c["hist"]]},
                    replay={"kind": "future-replay", "case": c})
    ck.sample({"kind": allc[len(allc) // 2]["kind"], "behaviour": [{k: s[k] for k in ("op", "f", "v", "res")} for s in allc[len(allc) // 2]["hist"]]})
    # free-running settles: final observations judged by the contracts
    free = path + ".free"
    trials = 900 if quick else 9000
    rc, txt = vf.go_test("pkg/interpreter", ["future_test.go"], run="TestVerifFutureFree$", env={"VERIF_SEED": str(seed), "VERIF_OUT": free, "VERIF_TRIALS": str(trials)},
                         timeout=2400, race=True)
    for sig, block in race_blocks(txt)[:3]:
        ck.mismatch("library-free/" + sig, {"report": block})
    obs = vf.read_ndjson(free)
    summ = [x for x in obs if x.get("summary")]
    if not summ:
        if "fatal error" in txt or "panic:" in txt:
            ck.mismatch("library-free/process-crash", {"output": txt[-3000:]})
            return
        raise vf.InfraError("C09 free driver failed rc=%s\n%s" % (rc, txt[-2500:]))
    if summ[0]["goroutines_left"] > 0:
        ck.mismatch("library-free/goroutines-left", {"left": summ[0]["goroutines_left"], "after": "every argument future was settled"})
    obs = [o for o in obs if not o.get("summary")]
    for o in obs:
        if o["status"] != "ok":
            ck.mismatch("library-free/%s/%s" % (o["kind"], o["status"]), o, replay={"kind": "future-free", "obs": o})
    for kind in ("all", "race", "any"):
        sub = [o for o in obs if o["kind"] == kind and o["status"] == "ok"]
        op = os.path.join(work, "obs-%s.ndjson" % kind)
        vf.write_ndjson(op, sub)
        r = vf.tlc("async", "FuturesObs", {"NF": 3, "Kind": kind, "Deviations": set(), "RecordHist": False}, spec=None, init="ObsInit", next_="ObsNext",
                   invariants=CONTRACTS + ["Settled"], extra_files={"obs.ndjson": op}, timeout=900, want_cases=False)
        ck.cov["models"].append({"name": "free-observations-" + kind, "observations": len(sub), "distinct": r.distinct, "ok": r.ok})
        ck.cov["traces_validated_against_impl"] += len(sub)
        if not r.ok:
            if r.error:
                raise vf.InfraError("FuturesObs: " + r.error + r.out[-1500:])
            m = re.search(r"trial \|-> (\d+)", r.out)
            bad = next((o for o in sub if m and o["trial"] == int(m.group(1))), None)
            ck.mismatch("library-free/%s/%s" % (kind, (r.violation or "").replace("Invariant ", "").replace(" is violated", "")),
                        {"violation": r.violation, "observation": bad}, replay={"kind": "future-free", "obs": bad})


def language(ck, tier, seed):
    progs = langgen.async_programs(tier, seed)
    cases, r1 = langrun.evaluate(progs)
    casesV, r2 = langrun.evaluate(progs, dev=langrun.VM_KNOWN + ["VM_AwaitPassesValue"])
    ck.add_model("GlyphCore-async", r1)
    try:
        obs, _ = langrun.observe(progs, cases, race=True, env={"VERIF_LANG_REPEAT": "4" if tier == "quick" else "8"}, timeout=3000)
    except vf.InfraError:
        txt = getattr(langrun.observe, "last_output", "")
        m = re.search(r"fatal error: [^\n]*|panic: [^\n]*", txt)
        if not m:
            raise
        i = txt.find(m.group(0))
        for sig, block in race_blocks(txt)[:2]:
            ck.mismatch("language/" + sig, {"report": block})
        ck.mismatch("language/process-crash/" + m.group(0)[:60], {"output": txt[i:i + 3000]}, replay={"kind": "lang-corpus", "seed": seed})
        return
    txt = langrun.observe.last_output
    seen = set()
    for sig, block in race_blocks(txt):
        if sig not in seen:
            seen.add(sig)
            ck.mismatch("language/" + sig, {"report": block})
    n = 0
    for p in progs:
        c, cv, o = cases[p["id"]], casesV[p["id"]], obs[p["id"]]
        tag = "/".join(p["tags"][1:3]) if p["tags"][-1] != "random" else "random"
        if o.get("skipped"):
            ck.cov["not_run_unbounded_growth"] = ck.cov.get("not_run_unbounded_growth", 0) + 1
            continue
        if o.get("crash"):
            ck.mismatch("language/process-crash/" + tag, {"src": c["src"], "what": o["crash"], "runtime_report": o["excerpt"][:1500]}, replay={"kind": "lang", "prog": p})
            continue
        if "parse" in o:
            ck.mismatch("language/parse/" + tag, {"src": c["src"], "what": o["parse"]})
            continue
        if c["out"]["kind"] == "unrep" or c["out"].get("class") == "limit":
            ck.cov["skipped_unrepresentable"] = ck.cov.get("skipped_unrepresentable", 0) + 1
            continue
        n += 1
        runs = [("interp", o.get("interp")), ("interp2", o.get("interp2")), ("interp3", o.get("interp3"))] + \
               [("interpN%d" % i, x) for i, x in enumerate(o.get("interpN") or [])]
        for name, ob in runs:
            ck.cov["evaluations"] += 1
            m = langrun.compare(c["out"], ob)
            if m:
                sig = "language/interpreter/%s" % tag
                if sig not in seen:
                    seen.add(sig)
                    ck.mismatch(sig, {"src": c["src"], "vars": p["vars"], "run": name, "what": m}, replay={"kind": "lang", "prog": p})
                break
        # compiled blocks (the CLI's level and the others), parser tree
        if "block-without-return" not in p["tags"] and '"s": "pset"' not in json.dumps(p["body"]):      # (element assignment is not compiled)
            for lv in ("vm0", "vm1", "vm2"):
                ob = o.get(lv)
                ck.cov["evaluations"] += 1
                if ob and ob.get("kind") == "compile-error" and "redeclare" in ob.get("msg", "") and p["tags"][-1] == "random":
                    continue      # random programs may declare a name twice in one block: rejected up front by the compiler
                m = langrun.compare(cv["out"], ob)
                if m:
                    sig = "language/%s/%s" % (lv, tag)
                    if sig not in seen:
                        seen.add(sig)
                        ck.mismatch(sig, {"src": c["src"], "vars": p["vars"], "what": m}, replay={"kind": "lang", "prog": p})
        if o.get("goroutines_left", 0) > 0 and o.get("interp", {}).get("kind") != "hang":
            ck.mismatch("language/goroutines-left/" + tag, {"src": c["src"], "left": o["goroutines_left"]}, replay={"kind": "lang", "prog": p})
    ck.cov["traces_validated_against_impl"] += n
    ck.cov["distinct_nontrivial"] += n
    ck.sample({"src": cases[progs[5]["id"]]["src"], "definition": cases[progs[5]["id"]]["out"]})


def run(ck, tier, seed):
    ck.assumptions += [
        "library level: the behaviours of Futures.tla (every sequence of resolve/reject/cancel attempts on 3 futures and the point where all/race/any is applied, to the transition cover) are replayed on real Futures with quiescence between steps (poll until the model's observation holds, then confirm it still holds); a race between arguments already settled at the call may go to any of them",
        "free-running level: the scheduler decides; only the final observation is judged, by the contracts of the same specification",
        "language level: GlyphCore gives async/await the deterministic meaning the property states (a block runs on a snapshot, communicates through await only); every program is run 3+N times on the interpreter under different GOMAXPROCS with the race detector on, and on the VM at the three levels",
        "programs whose outcome depends on the iteration limit are not judged; `await` of a non-future and a block without `>` are outside the property (engines differ there: C02 matter)",
    ]
    library(ck, tier, seed)
    language(ck, tier, seed)
    ck.cov["rule"] = "Futures.tla transition cover replayed on real futures and combinators; free-running trials judged by the contracts; GlyphCore async corpus on interpreter (repeated, perturbed) and VM; race detector on throughout"


def replay(ck, data):
    run(ck, "quick", 1)
