"""C10 - malformed source and bytecode are rejected, never mis-executed.
specs/binfmt/Bytecode.tla (reference decoder + malformation catalogue), specs/binfmt/SourceMut.tla"""
import json, os, re, collections
import vf, langgen, langrun

HAND_SOURCES = [
    '@ GET /hello {\n  > {message: "Hello, World!"}\n}\n',
    '# comment\n@ GET /s {\n  $ t = "caf\\u00e9 \\x41\\n\\t\\"q\\" \\\\"\n  $ u = \'single \\\' quote\'\n  > {t: t, u: u}\n}\n',
    ': User {\n  id: int!\n  name: str!\n  tags: List[str]\n  note: str?\n}\n\n@ POST /u -> User {\n  < input: User\n  > input\n}\n',
    '@ GET /m/:id {\n  ? q: int = 5\n  $ r = match q {\n    1 => "one"\n    n when n > 3 => "big"\n    _ => "other"\n  }\n  > {id: id, r: r}\n}\n',
    '! add(a: int, b: int): int {\n  > a + b\n}\n\n@ GET /f {\n  > {r: add(1, 2) * -3 % 4, b: !true || 1 <= 2.5 && "a" != "b"}\n}\n',
    '@ GET /a {\n  $ f = async {\n    $ i = 0\n    while i < 3 {\n      i = i + 1\n    }\n    > i\n  }\n  > [await f, [1, [2, {k: null}]]]\n}\n',
    '@ GET /g {\n  + auth(jwt)\n  + ratelimit(10/min)\n  % db: Database\n  ? ok :: 404 "nope"\n  for k, v in {a: 1} {\n    if v == 1 {\n      break\n    } else {\n      continue\n    }\n  }\n  switch 1 {\n    case 1 {\n      > 1 :: 201\n    }\n    default {\n      > 2\n    }\n  }\n}\n',
    '@ GET /crlf {\r\n  > 1\r\n}\r\n',
    ': P {\n  age: int @min(0) @max(150)\n  name: str @minLen(2)\n}\n\n@ POST /p -> P {\n  < input: P\n  > input\n}\n',
]

NEST = {
    "paren": ("  > ", "(", "1", ")", "\n"), "bracket": ("  > ", "[", "1", "]", "\n"), "object": ("  > ", "{a: ", "1", "}", "\n"),
    "neg": ("  > ", "-", "1", "", "\n"), "not": ("  > ", "!", "true", "", "\n"), "index": ("  $ a = [1]\n  > a", "[", "0", "]", "\n"),
    "call": ("  > ", "length(", "\"a\"", ")", "\n"), "binary-chain": ("  > 1", " + 1", "", "", "\n"),
    "string-escape": ("  > \"", "\\\\", "", "", "\"\n"),
}


def nest_source(kind, n):
    if kind == "block":
        body = "".join("  if true {\n" for _ in range(n)) + "  > 1\n" + "".join("  }\n" for _ in range(n))
    elif kind == "async":
        body = "  > " + "await async {\n > " * n + "1" + "\n}" * n + "\n"
    elif kind == "index-of-block":
        # a statement that starts like an element assignment (`x[ ... ]`) whose index holds a block whose statement starts
        # the same way: deciding "assignment or expression?" by parsing and starting over doubles the work per level
        body = "  x[0]\n"
        for _ in range(n):
            body = "  x[await async {\n" + body + "  > 1\n  }]\n"
        body = "  $ x = [1]\n" + body + "  > 1\n"
    else:
        pre, o, mid, c, post = NEST[kind]
        body = pre + o * n + mid + c * n + post
    return "@ GET /n {\n" + body + "}\n"


def apply_mut(b, m):
    k, at, v = m["kind"], m["at"], m["val"]
    if k == "truncate":
        return b[:at]
    if k == "insert":
        return b[:at] + bytes([v]) + b[at:]
    if k == "replace":
        return b[:at] + bytes([v]) + b[at + 1:]
    if k == "double":
        return b[:at + 1] + b[at:at + 1] + b[at + 1:]
    raise ValueError(k)


def bound_alloc(n):
    return 6 * 1024 * 1024 + 3000 * n


def judge_run(ck, where, run, n, detail, seen, replay):
    """no crash, no hang, time and memory in proportion to the input"""
    sig = None
    if run["kind"] == "panic":
        sig = "%s/panic/%s" % (where, re.sub(r"[0-9]+", "N", run.get("msg", ""))[:60])
    elif run["kind"] == "hang":
        sig = "%s/hang" % where
    elif run["ms"] > 3000 + n // 200:
        sig = "%s/slow" % where
    elif run["alloc"] > bound_alloc(n):
        sig = "%s/memory-out-of-proportion" % where
    if sig and sig not in seen:
        seen.add(sig)
        ck.mismatch(sig, dict(detail, run=run, input_bytes=n, alloc_bound=bound_alloc(n)), replay=replay)
    return sig is None


def bytecode(ck, tier, seed):
    quick = tier == "quick"
    progs = [p for p in (langgen.control_table() + langgen.async_table() + langgen.optimizer_table()[:40] + langgen.operator_table()[:30]) if not p["vars"]]
    import random
    rnd = random.Random(seed)
    rnd.shuffle(progs)
    progs = progs[:(14 if quick else 90)]
    for i, p in enumerate(progs):
        p["id"] = i
    cases, _ = langrun.evaluate(progs)
    work = vf.scratch("verif-c10-")
    srcs = os.path.join(work, "srcs.ndjson")
    items = [{"id": p["id"], "src": "@ POST /run {\n" + cases[p["id"]]["src"] + "}\n"} for p in progs]
    items += [{"id": 1000 + i, "src": s} for i, s in enumerate(HAND_SOURCES)]
    vf.write_ndjson(srcs, items)
    rc, txt = vf.go_test("cmd/glyph", ["harness_test.go", "robust_test.go"], run="TestVerifRobustEmit$", env={"VERIF_CASES": srcs, "VERIF_OUT": srcs + ".out"}, timeout=900)
    emitted = [e for e in vf.read_ndjson(srcs + ".out") if "bytes" in e]
    if rc != 0 or len(emitted) < len(items) // 2:
        raise vf.InfraError("C10 emit failed rc=%s\n%s" % (rc, txt[-2000:]))
    files = []
    seenb = set()
    for e in emitted:
        key = bytes(e["bytes"])
        if key in seenb or len(key) > (260 if quick else 420):
            continue
        seenb.add(key)
        files.append({"id": len(files), "bytes": e["bytes"], "emitted": True, "src": e["id"], "level": e["level"]})
    fpath = os.path.join(work, "files.ndjson")
    vf.write_ndjson(fpath, files)
    out = []
    r = vf.tlc("binfmt", "Bytecode", {}, invariants=["Total", "EmittedWellFormed", "PrefixMalformed", "EmitInv"], extra_files={"files.ndjson": fpath},
               case_sink=out.append, timeout=3000, heap="24g", workers=12)
    ck.expect_model_ok("bytecode-decoder", r)
    ck.add_model("bytecode-decoder", r)
    ck.cov["exhaustive"] = True
    for i, c in enumerate(out):
        c["cid"] = i
    # mutants with counts above 2^22 go last, in a run of their own: they are the ones that can take the process down
    def u32(q):
        return sum(b << (8 * i) for i, b in enumerate(q))
    small = [c for c in out if not (c["mut"]["kind"].startswith("field:") and u32(c["mut"]["val"]) > 4194304)]
    huge = [c for c in out if c not in small]
    obs = {}
    for name, part in (("main", small), ("huge-counts", huge)):
        cp = os.path.join(work, "feed-%s.ndjson" % name)
        vf.write_ndjson(cp, [{"cid": c["cid"], "bytes": c["bytes"]} for c in part])
        rc, txt = vf.go_test("cmd/glyph", ["harness_test.go", "robust_test.go"], run="TestVerifRobustFeed$", env={"VERIF_CASES": cp, "VERIF_OUT": cp + ".out"}, timeout=3000)
        res = vf.read_ndjson(cp + ".out")
        summ = [x for x in res if x.get("summary")]
        for x in res:
            if "cid" in x:
                obs[x["cid"]] = x
        if not summ or summ[0]["cases"] != len(part):
            m = re.search(r"fatal error: [^\n]*|panic: [^\n]*|signal: killed|out of memory", txt)
            done_ids = {x["cid"] for x in res if "cid" in x}
            nxt = next((c for c in part if c["cid"] not in done_ids), None)
            if m and nxt:
                ck.mismatch("bytecode/process-crash/%s/%s" % (nxt["mut"]["kind"], m.group(0)[:40]),
                            {"mutation": nxt["mut"], "file_bytes": len(nxt["bytes"]), "output": txt[-2500:]}, replay={"kind": "bytes", "bytes": nxt["bytes"]})
                continue
            raise vf.InfraError("C10 feed (%s) failed rc=%s\n%s" % (name, rc, txt[-2500:]))
    seen = set()
    tagname = {0: "null", 1: "int", 2: "float", 3: "bool", 4: "string"}
    stats = collections.Counter()
    for c in out:
        o = obs.get(c["cid"])
        if o is None:
            continue
        n = len(c["bytes"])
        mk = c["mut"]["kind"]
        rep = {"kind": "bytes", "bytes": c["bytes"], "mutation": c["mut"]}
        ck.cov["evaluations"] += 2
        judge_run(ck, "decompiler/" + mk, o["dec"], n, {"mutation": c["mut"], "spec": c["why"] or "well-formed"}, seen, rep)
        judge_run(ck, "vm/" + mk, o["vm"], n, {"mutation": c["mut"], "spec": c["why"] or "well-formed"}, seen, rep)
        stats["%s/dec=%s/vm=%s" % ("ok" if c["ok"] else "malformed:" + c["why"], o["dec"]["kind"], o["vm"]["kind"])] += 1
        if c["ok"]:
            # complete and faithful disassembly of whatever is well-formed
            if o["dec"]["kind"] == "ok":
                got = (o.get("offs", []), o.get("args", []), o.get("ctypes", []))
                # the reference reads operands of 2^30 and more as "huge" (TLC integers are 32-bit)
                wargs = [g if (w == 1073741824 and i < len(got[1]) and got[1][i] >= 1073741824) else w for i, (w, g) in enumerate(zip(c["args"], got[1] + [None] * len(c["args"])))]
                want = (c["offs"], wargs, [tagname[t] for t in c["ctags"]])
                if want != got:
                    which = "instruction-boundaries" if want[0] != got[0] else ("operands" if want[1] != got[1] else "constants")
                    sig = "decompiler/%s/%s" % ("emitted" if mk == "none" else mk, which)
                    if sig not in seen:
                        seen.add(sig)
                        ck.mismatch(sig, {"mutation": c["mut"], "spec_offsets": c["offs"][:40], "decompiler_offsets": got[0][:40], "spec_ops": c["ops"][:40]}, replay=rep)
            elif o["dec"]["kind"] == "error":
                sig = "decompiler/%s/rejects-well-formed" % ("emitted" if mk == "none" else mk)
                if sig not in seen:
                    seen.add(sig)
                    ck.mismatch(sig, {"mutation": c["mut"], "error": o["dec"].get("msg")}, replay=rep)
            if mk == "none" and o["vm"]["kind"] == "error" and "undefined" not in o["vm"].get("msg", "") and "exceeded maximum step" not in o["vm"].get("msg", ""):
                pass      # a program may fail at run time; what it computes is C02's subject
        else:
            # malformed: never executed to a result
            # (instruction-level defects - unknown opcode, operand out of range - are found by the VM only
            # when it reaches them: a file whose bad instruction is never executed is not "mis-executed")
            if o["vm"]["kind"] == "ok" and c["why"] not in ("opcode-unknown", "operand-range", "operand-truncated"):
                sig = "vm/executes-malformed/%s" % c["why"]
                if sig not in seen:
                    seen.add(sig)
                    ck.mismatch(sig, {"mutation": c["mut"], "spec": c["why"], "vm_result": o["vm"].get("msg")}, replay=rep)
    ck.cov["traces_validated_against_impl"] += len(obs)
    ck.cov["distinct_nontrivial"] += len(out)
    ck.cov["bytecode_outcomes"] = dict(stats.most_common(40))
    ck.sample({"file_bytes": len(files[0]["bytes"]), "mutants": sum(1 for c in out if c["id"] == files[0]["id"]), "first": out[0]["mut"]})


LIMIT_SOURCES = [
    "@ GET /a {\n  $ f = async {\n    $ i = 0\n    while true {\n      i = i + 1\n    }\n    > i\n  }\n  > 1\n}\n",
    "@ GET /b {\n  $ f = async {\n    $ i = 0\n    while true {\n      i = i + 1\n    }\n    > i\n  }\n  > await f\n}\n",
    "@ GET /c {\n  $ a = 1\n  $ b = 2\n  $ c = a + b\n  $ f = async {\n    $ g = async {\n      while true {\n        $ z = 1\n      }\n      > 0\n    }\n    > await g\n  }\n  $ d = c * 2\n  > d\n}\n",
    "@ GET /d {\n  $ f = async {\n    while true {\n      $ z = 1\n    }\n    > 0\n  }\n  $ g = async {\n    while true {\n      $ z = 2\n    }\n    > 0\n  }\n  > 5\n}\n",
]


def limit_sweep(ck, tier, seed):
    """non-terminating async blocks under every step limit 1..N: Execute returns and no goroutine is left spinning"""
    work = vf.scratch("verif-c10-")
    srcs = os.path.join(work, "lsrc.ndjson")
    vf.write_ndjson(srcs, [{"id": i, "src": s} for i, s in enumerate(LIMIT_SOURCES)])
    rc, txt = vf.go_test("cmd/glyph", ["harness_test.go", "robust_test.go"], run="TestVerifRobustEmit$", env={"VERIF_CASES": srcs, "VERIF_OUT": srcs + ".out"}, timeout=900)
    emitted = [e for e in vf.read_ndjson(srcs + ".out") if "bytes" in e and e["level"] == 1]
    if len(emitted) != len(LIMIT_SOURCES):
        raise vf.InfraError("C10 limit sweep: emit failed rc=%s\n%s" % (rc, txt[-1500:]))
    cp = os.path.join(work, "limit.ndjson")
    vf.write_ndjson(cp, [{"cid": e["id"], "bytes": e["bytes"]} for e in emitted])
    maxlimit = 80 if tier == "quick" else 400
    rc, txt = vf.go_test("cmd/glyph", ["harness_test.go", "robust_test.go"], run="TestVerifRobustLimit$",
                         env={"VERIF_CASES": cp, "VERIF_OUT": cp + ".out", "VERIF_MAXLIMIT": str(maxlimit)}, timeout=1800)
    res = vf.read_ndjson(cp + ".out")
    summ = [x for x in res if x.get("summary")]
    if not summ:
        raise vf.InfraError("C10 limit sweep driver failed rc=%s\n%s" % (rc, txt[-1500:]))
    ck.cov["evaluations"] += summ[0]["cases"]
    ck.cov["models"].append({"name": "step-limit-sweep", "programs": len(emitted), "limits": maxlimit, "runs": summ[0]["cases"]})
    for x in res:
        if x.get("summary"):
            continue
        what = "goroutine-left-spinning" if x["goroutines_left"] > 0 else x["run"]["kind"]
        ck.mismatch("vm/step-limit/%s" % what, {"program": LIMIT_SOURCES[x["cid"]], "limit": x["limit"], "run": x["run"], "goroutines_left": x["goroutines_left"]},
                    replay={"kind": "limit", "program": x["cid"], "limit": x["limit"]})
        break


def source(ck, tier, seed):
    quick = tier == "quick"
    progs = [p for p in langgen.control_table()[:6] + langgen.async_table()[:4] if not p["vars"]]
    for i, p in enumerate(progs):
        p["id"] = i
    cases, _ = langrun.evaluate(progs)
    bases = [s.encode() for s in HAND_SOURCES] + [("@ POST /run {\n" + cases[p["id"]]["src"] + "}\n").encode() for p in progs]
    if quick:
        bases = bases[:len(HAND_SOURCES)] + bases[-2:]
    work = vf.scratch("verif-c10-")
    lens = os.path.join(work, "lens.ndjson")
    vf.write_ndjson(lens, [{"id": i, "len": len(b)} for i, b in enumerate(bases)])
    muts = []
    r = vf.tlc("binfmt", "SourceMut", {}, invariants=["EmitInv"], extra_files={"lens.ndjson": lens}, case_sink=muts.append, timeout=1800, workers=8)
    ck.expect_model_ok("source-malformations", r)
    ck.add_model("source-malformations", r)
    feed = [{"cid": i, "bytes": list(b), "what": {"kind": "none", "base": i}} for i, b in enumerate(bases)]
    for m in muts:
        b = apply_mut(bases[m["id"]], m["m"])
        feed.append({"cid": len(feed), "bytes": list(b), "what": dict(m["m"], base=m["id"])})
    depths = [10, 100, 400, 1000, 10000, 100000] + ([] if quick else [1000000])
    nest = []
    for kind in list(NEST) + ["block", "async"]:
        for d in depths:
            nest.append({"cid": len(feed) + len(nest), "what": {"kind": "nest/" + kind, "n": d}, "text": nest_source(kind, d)})
    for d in (8, 16, 24, 32, 64, 200):
        nest.append({"cid": len(feed) + len(nest), "what": {"kind": "nest/index-of-block", "n": d}, "text": nest_source("index-of-block", d)})
    # prefix operators are the cheapest way to nest (one byte a level): 3 MB of them, in both tiers
    for kind in ("neg", "not"):
        nest.append({"cid": len(feed) + len(nest), "what": {"kind": "nest/" + kind, "n": 3000000}, "text": nest_source(kind, 3000000)})
    if quick:
        # (the thorough tier has every construct at 10^6) a chain of binary operators is built by a loop in the parser and
        # walked by recursion in the compiler
        nest.append({"cid": len(feed) + len(nest), "what": {"kind": "nest/binary-chain", "n": 1000000}, "text": nest_source("binary-chain", 1000000)})
    cp = os.path.join(work, "src-feed.ndjson")
    with open(cp, "w") as f:
        for c in feed:
            f.write(json.dumps({"cid": c["cid"], "bytes": c["bytes"]}) + "\n")
        for c in nest:
            f.write(json.dumps({"cid": c["cid"], "bytes": list(c["text"].encode())}) + "\n")
    rc, txt = vf.go_test("cmd/glyph", ["harness_test.go", "robust_test.go"], run="TestVerifRobustSource$", env={"VERIF_CASES": cp, "VERIF_OUT": cp + ".out"}, timeout=3000)
    res = vf.read_ndjson(cp + ".out")
    obs = {x["cid"]: x for x in res if "cid" in x}
    summ = [x for x in res if x.get("summary")]
    allc = feed + nest
    if not summ or summ[0]["cases"] != len(allc):
        m = re.search(r"fatal error: [^\n]*|panic: [^\n]*|goroutine stack exceeds[^\n]*", txt)
        nxt = next((c for c in allc if c["cid"] not in obs), None)
        if m and nxt:
            # the crash may come from the goroutine of an earlier input that was given up as hanging: name the parser
            # (or compiler) functions on the crashing stack rather than trusting the position in the input list
            fns = collections.Counter(re.findall(r"pkg/(?:parser|compiler)\.\(\*\w+\)\.(\w+)", txt)).most_common(2)
            where = "+".join(f for f, _ in fns) or nxt["what"]["kind"]
            ck.mismatch("source/process-crash/%s" % where, {"input_being_processed": nxt["what"], "crash": m.group(0), "stack_functions": fns, "output": txt[:1500]},
                        replay={"kind": "source", "what": nxt["what"]})
        else:
            raise vf.InfraError("C10 source feed failed rc=%s\n%s" % (rc, txt[-2500:]))
    seen = set()
    stats = collections.Counter()
    for c in allc:
        o = obs.get(c["cid"])
        if o is None:
            continue
        n = len(c["bytes"]) if "bytes" in c else len(c["text"])
        for lex in ("compact", "expanded", "compile"):
            if lex not in o:
                continue      # compile: only sources the parser accepted
            ck.cov["evaluations"] += 1
            rep = {"kind": "source", "what": c["what"], "bytes": c.get("bytes") if n < 4000 else None}
            judge_run(ck, "source-%s/%s" % (lex, c["what"]["kind"]), o[lex], n, {"input": c["what"]}, seen, rep)
            stats["%s/%s/%s" % (lex, c["what"]["kind"].split("/")[0], o[lex]["kind"])] += 1
        if c["what"]["kind"] == "none" and o["compact"]["kind"] != "ok":
            ck.mismatch("source/base-rejected", {"base": c["what"], "error": o["compact"].get("msg")})
    ck.cov["traces_validated_against_impl"] += len(obs)
    ck.cov["distinct_nontrivial"] += len(allc)
    ck.cov["source_outcomes"] = dict(stats.most_common(40))


def run(ck, tier, seed):
    ck.assumptions += [
        "bytecode: Bytecode.tla is the reference for the container as the compiler writes it (docs/BINARY_FORMAT.md describes a different, unimplemented layout); it decodes every file the real compiler emitted for the corpus and every catalogued malformation of it (every truncation; every count, length, constant index, jump target and async length set to 0, +-1, 2^20, 2^31-1, 2^31, 2^32-1; type tags, opcodes, magic, version replaced; bytes appended)",
        "the decompiler must reproduce the reference's constants and instruction boundaries on well-formed files; the VM (step limit 200000) must not return a result for a file the reference classifies as malformed; decompiler and VM must answer every file without panic within 3 s and 6 MB + 3000 bytes per input byte of allocation",
        "source: the catalogue of SourceMut.tla (every truncation, 11 foreign bytes inserted at every position, 5 replacements and a doubling at every position of each base program; 11 nesting constructs at depths 10..10^6) is applied to parser-accepted programs; both lexers and the parser must end with a tree or a diagnostic within the same bounds. The specification does not decide which mutated sources are valid",
    ]
    bytecode(ck, tier, seed)
    limit_sweep(ck, tier, seed)
    source(ck, tier, seed)
    ck.cov["rule"] = "reference decoder evaluated by TLC on compiler output x malformation catalogue; real decompiler and VM run on the same bytes; source malformation catalogue applied to accepted programs and fed to lexers+parser"


def replay(ck, data):
    run(ck, "quick", 1)
