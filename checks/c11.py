"""C11 - rate limits bound admitted traffic per client.  specs/ratelimit/TokenBucket.tla"""
import json, os
import vf

INVS = ["Bound", "TokensInRange", "IdentityUnforgeable", "IdentityFromTrustedOnly", "CompliantNeverRejected"]
DEFS = r'''
MaxNowC == %d
MaxLog == %d
SimDepth == %d
Bound2 == now <= MaxNowC /\ Len(log) <= MaxLog
Emit == (hist' # hist) => PrintT(<<"CASE", ToJson(hist')>>)
SimEmit == (Len(hist) >= SimDepth) => PrintT(<<"CASE", ToJson(hist)>>)
SimBound == Bound2 /\ Len(hist) < SimDepth
'''


def consts(burst, rate, win, clients=("A", "B"), remotes=("A", "B"), fwds=("A",), trust=False, trusted=(),
           stale=None, hist=True, d=None):
    d = d or (burst, rate, win)
    return {"Clients": set(clients), "Burst": burst, "Rate": rate, "Win": win,
            "DBurst": d[0], "DRate": d[1], "DWin": d[2],
            "StaleAfter": stale if stale is not None else 5 * win,
            "Remotes": set(remotes), "Fwds": set(fwds), "TrustProxy": trust, "Trusted": set(trusted),
            "Deviations": set(), "RecordHist": hist}


def go_cfg(kw, mode="direct", unit=""):
    return {"mode": mode, "Burst": kw["Burst"], "Rate": kw["Rate"], "Win": kw["Win"], "TrustProxy": kw["TrustProxy"],
            "Trusted": sorted(kw["Trusted"]), "unit": unit}


CLOCK = ["pkg/server/middleware.go"]


BATCH = []   # (name, cfg, hist)


def replay(ck, name, cases, cfg):
    for h in cases:
        BATCH.append((name, cfg, h))


def flush_replay(ck, tier, seed, decl):
    """one go test run: all replay cases + the declared-limit patterns"""
    work = vf.scratch("verif-c11-")
    path = os.path.join(work, "cases.ndjson")
    vf.write_ndjson(path, [{"id": i, "cfg": cfg, "hist": h} for i, (_, cfg, h) in enumerate(BATCH)])
    out = path + ".out"
    dout = os.path.join(work, "decl.ndjson")
    rc, txt = vf.go_test("cmd/glyph", ["ratelimit_test.go"], run="TestVerifRate(Replay|Declared)$", clock=CLOCK,
                         env={"VERIF_CASES": path, "VERIF_OUT": out, "VERIF_DECL_OUT": dout,
                              "VERIF_DECL": json.dumps([{"unit": u, "n": n} for u, n in decl])}, timeout=1500)
    res = vf.read_ndjson(out)
    cases = [h for _, _, h in BATCH]
    name = "batch"
    summ = [r for r in res if r.get("summary")]
    if not summ or summ[0]["cases"] != len(cases):
        raise vf.InfraError("C11 replay driver failed (%s) rc=%s\n%s" % (name, rc, txt[-3000:]))
    ck.cov["traces_validated_against_impl"] += len(cases)
    ck.cov["evaluations"] += summ[0]["steps"]
    n = 0
    for m in res:
        if m.get("summary"):
            continue
        n += 1
        if n > 10:
            break
        h = cases[m["case"]]
        name, cfg = BATCH[m["case"]][0], BATCH[m["case"]][1]
        st = h[m["step"]]
        sig = "replay/%s/%s" % (cfg["mode"], "over-admit" if not st["admitted"] else "under-admit")
        ck.mismatch(sig, {"model": name, "cfg": cfg, "mismatch": m, "hist": h},
                    replay={"kind": "rl-replay", "cfg": cfg, "hist": h})
    lines = vf.read_ndjson(dout)
    if rc != 0 or not lines:
        raise vf.InfraError("declared driver failed rc=%s\n%s" % (rc, txt[-3000:]))
    del BATCH[:]
    return lines


def model_and_replay(ck, name, kw, maxnow, maxlog, mode="direct", unit="", cover=True, sim=None, seed=1):
    cases = []
    if cover:
        r = vf.tlc("ratelimit", "TokenBucket", kw, invariants=INVS, properties=["Isolation"], constraint="Bound2",
                   view="View", action_constraint="Emit", defs=DEFS % (maxnow, maxlog, 0),
                   case_sink=cases.append, timeout=1200)
        ck.expect_model_ok(name, r)
        ck.add_model(name, r)
    else:
        r = vf.tlc("ratelimit", "TokenBucket", kw, invariants=INVS + ["SimEmitInv"], constraint="SimBound",
                   defs=(DEFS % (maxnow, maxlog, sim["depth"])) + "SimEmitInv == SimEmit\n",
                   simulate={"num": sim["num"], "depth": sim["depth"] * 3}, seed=seed, workers=1,
                   case_sink=cases.append, timeout=900)
        ck.expect_model_ok(name, r)
        ck.cov["models"].append({"name": name, "mode": "simulate", "walks": len(cases)})
    # de-duplicate
    uniq = {}
    for h in cases:
        uniq.setdefault(json.dumps(h, sort_keys=True), h)
    cases = list(uniq.values())
    if not cases:
        raise vf.InfraError("no behaviours for " + name)
    ck.cov["distinct_nontrivial"] += len(cases)
    ck.sample({"model": name, "behaviour": cases[len(cases) // 2]})
    replay(ck, name, cases, go_cfg(kw, mode, unit))


DECL = [("min", 1), ("min", 2), ("min", 3), ("min", 7), ("sec", 1), ("sec", 2), ("hour", 1), ("hour", 30),
        ("hour", 120), ("hour", 125), ("day", 1), ("day", 2000)]


def decl_list(tier):
    return DECL if tier == "thorough" else [d for d in DECL if d[1] <= 30]


def declared(ck, tier, seed, lines):
    """Declared limits, every unit: hook events validated by TLC against the bucket the
    declaration maps to today (ImplPerMinute), with the declared Bound as an invariant."""
    work = vf.scratch("verif-c11-")
    # split per declaration
    groups = []
    for ln in lines:
        if ln["ev"] == "Reset":
            groups.append([ln])
        else:
            groups[-1].append(ln)
    tpm = 60
    for g in groups:
        unit, n = g[0]["unit"], g[0]["n"]
        for ln in g:
            if ln["ev"] == "BAD":
                ck.mismatch("declared/%s/body-vs-status" % unit, {"n": n, "what": ln["what"]})
        tr = [ln for ln in g if ln["ev"] != "BAD"]
        p = os.path.join(work, "t.ndjson")
        vf.write_ndjson(p, tr)
        impl = 'ImplPerMinute(%d, "%s")' % (n, unit)
        kw = {"Clients": {"A", "B", "C", "X"}, "Burst": vf.TlaRaw(impl), "Rate": vf.TlaRaw(impl), "Win": tpm,
              "DBurst": n, "DRate": n, "DWin": vf.TlaRaw('UnitTicks("%s", %d)' % (unit, tpm)),
              "StaleAfter": 100000000, "Remotes": {"A", "B", "C"}, "Fwds": {"X"}, "TrustProxy": False, "Trusted": set(),
              "Deviations": {"RL_PerMinuteBudget"}, "RecordHist": False}
        # (a) does the code behave like the bucket the declaration maps to today?
        v = vf.validate_trace("ratelimit", "TokenBucketTrace", kw, p, invariants=["TokensInRange"])
        ck.cov["traces_validated_against_impl"] += 1
        ck.cov["evaluations"] += len(tr)
        if not v["accepted"]:
            at = v["reject_at"]
            ck.mismatch("declared/%s/not-the-mapped-bucket" % unit,
                        {"n": n, "unit": unit, "reject_at": at, "line": tr[at - 1] if at and at <= len(tr) else None,
                         "violation": v["violation"]}, replay={"kind": "rl-declared", "unit": unit, "n": n})
            continue
        # (b) does that behaviour respect the declared bound?
        v2 = vf.validate_trace("ratelimit", "TokenBucketTrace", kw, p, invariants=["Bound"])
        if v2["violation"] and "Bound" in v2["violation"]:
            ck.mismatch("declared/%s/bound-exceeded-by-per-minute-budget" % unit,
                        {"n": n, "unit": unit, "what": "admissions exceed n*(1+T/window)"},
                        replay={"kind": "rl-declared", "unit": unit, "n": n})
        elif not v2["accepted"]:
            raise vf.InfraError("declared trace accepted then rejected: %s" % v2["violation"])
        ck.sample({"declared": "%d/%s" % (n, unit), "events": tr[:4]}, limit=8)


def record(ck, tier, seed):
    work = vf.scratch("verif-c11-")
    kws = [consts(2, 2, 4, clients=("A", "B", "X"), remotes=("A", "B"), fwds=("X",), hist=False),
           consts(3, 6, 6, clients=("A", "B", "X"), remotes=("A", "B"), fwds=("X",), hist=False)]
    outp = os.path.join(work, "rec")
    rc, txt = vf.go_test("cmd/glyph", ["ratelimit_test.go"], run="TestVerifRateRecord$", clock=CLOCK, race=True,
                         env={"VERIF_REC_OUT": outp, "VERIF_SEED": str(seed), "VERIF_NTRACES": "4" if tier == "quick" else "25",
                              "VERIF_CFGS": json.dumps([go_cfg(kw) for kw in kws])}, timeout=900)
    if "DATA RACE" in txt:
        ck.mismatch("race/ratelimit", {"output": txt[-3000:]})
        return
    for ci, kw in enumerate(kws):
        out = "%s.%d" % (outp, ci)
        lines = vf.read_ndjson(out)
        if rc != 0 or not lines:
            raise vf.InfraError("record driver failed rc=%s\n%s" % (rc, txt[-3000:]))
        for ln in lines:
            if ln["ev"] == "BAD":
                ck.mismatch("concurrent/body-vs-status", ln)
        lines = [ln for ln in lines if ln["ev"] != "BAD"]
        vf.write_ndjson(out, lines)
        v = vf.validate_trace("ratelimit", "TokenBucketTrace", kw, out, invariants=["Bound", "TokensInRange"])
        ntr = sum(1 for ln in lines if ln["ev"] == "Reset")
        ck.cov["traces_validated_against_impl"] += ntr
        ck.cov["models"].append({"name": "trace-%d" % ci, "mode": "trace-validation", "traces": ntr, "events": len(lines),
                                 "accepted": v["accepted"]})
        if not v["accepted"]:
            at = v["reject_at"]
            ck.mismatch("trace/concurrent", {"reject_at": at, "line": lines[at - 1] if at and at <= len(lines) else None,
                                             "violation": v["violation"]}, replay={"kind": "rl-record"})


def run(ck, tier, seed):
    ck.assumptions += [
        "virtual clock: time.Now() in pkg/server/middleware.go textually redirected by overlay; request k is placed k microseconds after its tick so that float refill arithmetic is never at an exact boundary",
        "the 60 s background sweeper and the >10000-entry in-request eviction (Forget action) are model-checked only",
        "clients: 10.0.0.1, 2001:db8::b, 2001:db8::c; ports vary per request",
    ]
    quick = tier == "quick"
    # design model, exhaustive (incl. Forget with StaleAfter >= Win)
    kw = consts(2, 2, 4, hist=False)
    r = vf.tlc("ratelimit", "TokenBucket", kw, invariants=INVS, properties=["Isolation"], constraint="Bound2",
               defs=DEFS % ((5, 4, 0) if quick else (8, 6, 0)), timeout=1200)
    ck.expect_model_ok("mc-2clients", r)
    ck.add_model("mc-2clients", r)
    kw = consts(1, 1, 3, clients=("A", "P", "X"), remotes=("A", "P"), fwds=("X",), trust=True, trusted=("P",), hist=False)
    r = vf.tlc("ratelimit", "TokenBucket", kw, invariants=INVS, properties=["Isolation"], constraint="Bound2",
               defs=DEFS % (4, 4, 0), timeout=1200)
    ck.expect_model_ok("mc-trusted-proxy", r)
    ck.add_model("mc-trusted-proxy", r)
    # transition covers replayed through the middleware (Forget disabled: StaleAfter huge)
    model_and_replay(ck, "cover-b2r2w4", consts(2, 2, 4, clients=("A", "B"), remotes=("A", "B"), fwds=(), stale=10 ** 6), 5 if quick else 7, 4 if quick else 5)
    model_and_replay(ck, "cover-b1r3w3", consts(1, 3, 3, clients=("A",), remotes=("A",), fwds=(), stale=10 ** 6), 4, 4)
    model_and_replay(ck, "cover-declared-min", consts(2, 2, 4, clients=("A", "C"), remotes=("A", "C"), fwds=("A",), stale=10 ** 6),
                     4 if quick else 6, 4, mode="declared", unit="min")
    model_and_replay(ck, "cover-trust-any", consts(1, 1, 2, clients=("A", "B", "X"), remotes=("A", "B"), fwds=("X",), trust=True, stale=10 ** 6), 2, 3)
    model_and_replay(ck, "cover-trust-listed", consts(1, 1, 2, clients=("A", "P", "X"), remotes=("A", "P"), fwds=("X",), trust=True, trusted=("P",), stale=10 ** 6), 2, 3)
    model_and_replay(ck, "cover-notrust-forged", consts(1, 1, 2, clients=("A", "B"), remotes=("A", "B"), fwds=("B",), trust=False, stale=10 ** 6), 2, 3)
    ck.cov["exhaustive"] = True
    model_and_replay(ck, "sim-b3r6w6", consts(3, 6, 6, clients=("A", "B", "C"), remotes=("A", "B", "C"), fwds=(), stale=10 ** 6), 30, 30,
                     cover=False, sim={"num": 200 if quick else 3000, "depth": 25}, seed=seed)
    lines = flush_replay(ck, tier, seed, decl_list(tier))
    declared(ck, tier, seed, lines)
    record(ck, tier, seed)
    ck.cov["rule"] = "behaviours: transition cover of bounded TokenBucket configs + random walks, each replayed through the real middleware chain; declared limits of every unit and concurrent floods validated as traces by TLC"
