"""C12 - programs reach providers only through the allow-list.  specs/provider/ProviderGate.tla"""
import json, os
import vf

DEFS = r'''
Sh == {"null", "int", "float", "string", "bool", "array", "object", "arraynull"}
Vecs(n) == UNION {[1..k -> Sh] : k \in 0..n}
AllVecs == Vecs(%d)
EmitInv == (outcome # "pending") => PrintT(<<"CASE", ToJson([call |-> call, outcome |-> outcome])>>)
'''


def run(ck, tier, seed):
    quick = tier == "quick"
    ck.assumptions += [
        "probe provider: 12 allow-listed and 7 unlisted exported methods with int64/int/float64/string/interface/slice/map/variadic parameters; its method table is read from the code by reflection and the allow-list applied is the code's own `allowedMethods` (the property is about the gate, not about which names are listed)",
        "another custom provider registers operation names equal to the probe's unlisted methods; that must not widen the probe's surface",
        "argument literals: null, 7, 2.5, \"s\", true, [1, \"x\"], {a: 1}; spellings: exact, lower, UPPER, sWAPCASE, Capfirst",
        "argument rule stated by the spec: null only for interface/slice/map parameters, integers widen to any numeric parameter, floats only to float parameters",
    ]
    work = vf.scratch("verif-c12-")
    mpath = os.path.join(work, "methods.json")
    alt = {os.path.join(vf.REPO, "pkg/interpreter/zzverifalt/alt.go"): os.path.join(vf.ROOT, "inject/pkg/interpreter/zzverifalt/alt.go")}
    rc, txt = vf.go_test("pkg/interpreter", ["provider_test.go"], run="TestVerifProviderMethods$", env={"VERIF_OUT": mpath}, timeout=900, extra_overlay=alt)
    if rc != 0 or not os.path.exists(mpath):
        raise vf.InfraError("method table failed rc=%s\n%s" % (rc, txt[-2000:]))
    methods = json.load(open(mpath))
    if not any(m["allowed"] for m in methods) or all(m["allowed"] for m in methods):
        raise vf.InfraError("probe has no allowed/unlisted mix: %s" % methods)
    mset = vf.TlaRaw("{" + ", ".join(vf.tla(m) for m in methods) + "}")
    kw = {"Methods": mset, "Spellings": {"exact", "lower", "upper", "swap", "capfirst"},
          "Forms": {"method", "nested", "free", "freenested", "field"}, "ArgVectors": vf.TlaRaw("AllVecs")}
    cases = []
    r = vf.tlc("provider", "ProviderGate", kw, invariants=["OnlyAllowed", "SpellingBlind", "Total", "EmitInv"],
               defs=DEFS % (2 if quick else 3), case_sink=cases.append, timeout=3000)
    ck.expect_model_ok("calls", r)
    ck.add_model("calls", r)
    for i, c in enumerate(cases):
        c["id"] = i
    ck.cov["distinct_nontrivial"] += len(cases)
    ck.cov["exhaustive"] = True
    ck.sample(cases[len(cases) // 2])
    path = os.path.join(work, "cases.ndjson")
    vf.write_ndjson(path, cases)
    out = path + ".out"
    # one process: every call on the first provider, then every call on the second (same unqualified type name,
    # other package, other methods), then the first again - the decision must not depend on what was called before
    cases.sort(key=lambda c: c["call"]["m"]["prov"])
    again = [dict(c) for c in cases if c["call"]["m"]["prov"] == 0 and c["call"]["spelling"] == "exact" and c["call"]["form"] == "method"]
    cases = cases + again
    for i, c in enumerate(cases):
        c["id"] = i
    vf.write_ndjson(path, cases)
    rc, txt = vf.go_test("pkg/interpreter", ["provider_test.go"], run="TestVerifProviderReplay$", env={"VERIF_CASES": path, "VERIF_OUT": out}, timeout=3000, extra_overlay=alt)
    res = vf.read_ndjson(out)
    summ = [x for x in res if x.get("summary")]
    if not summ or summ[0]["cases"] != len(cases):
        if "panic:" in txt or "fatal error" in txt:
            ck.mismatch("process-crash", {"output": txt[-3000:]})
            return
        raise vf.InfraError("C12 driver failed rc=%s\n%s" % (rc, txt[-3000:]))
    ck.cov["traces_validated_against_impl"] += len(cases)
    ck.cov["evaluations"] += len(cases)
    seen = set()
    for m in res:
        if m.get("summary"):
            continue
        c = cases[m["case"]]
        call = c["call"]
        kind = "crash" if m["what"].startswith("crash") else ("reached-unlisted" if (not call["m"]["allowed"] and "reached" in m["what"]) else
                                                               ("field-invokes" if call["form"] == "field" else "decision"))
        sig = "%s/%s/%s/%s%s" % (kind, call["form"], "allowed" if call["m"]["allowed"] else "unlisted", c["outcome"], "/second-provider" if call["m"]["prov"] == 1 else "")
        if sig in seen:
            continue
        seen.add(sig)
        ck.mismatch(sig, {"mismatch": m, "call": call, "expected": c["outcome"]}, replay={"kind": "provider", "case": c})
    ck.cov["rule"] = "a case = one call (method x spelling x call form x argument vector up to arity %d) rendered to source and executed by the interpreter against the recording probe" % (2 if quick else 3)
