"""C13 - generated SQL is injection-free.  specs/sql/SqlBuild.tla"""
import json, os, random
import vf

CLASSES = ["L", "D", "U", "dq", "sq", "bt", "semi", "sp", "minus", "slash", "star", "lp", "rp", "dot", "nul", "W", "nl", "comma"]


def cand(text, ok, canon=""):
    return {"text": text, "ok": ok, "canon": canon}


OPS = [cand(o, True, o) for o in ["=", "!=", "<>", "<", ">", "<=", ">=", "LIKE", "ILIKE", "IN", "NOT IN", "IS", "IS NOT"]] + [
    cand("like", True, "LIKE"), cand(" = ", True, "="), cand("not in", True, "NOT IN"), cand("LIKE ", True, "LIKE"),
    cand("= 1 OR 1=1 --", False), cand("=;", False), cand("", False), cand("==", False), cand("BETWEEN", False),
    cand("= $1 OR", False), cand("IS  NOT", False), cand("=\x00", False)]
DIRS = [cand("ASC", True, "ASC"), cand("DESC", True, "DESC"), cand("asc", True, "ASC"), cand("Desc", True, "DESC"),
        cand(" desc", True, "DESC"), cand("", True, "ASC"), cand("ASC; DROP TABLE sentinel", False), cand("ASC, id", False),
        cand("DESC--", False), cand("RANDOM()", False), cand("ASCENDING", False)]
JOINS = [cand("INNER", True, "INNER"), cand("LEFT", True, "LEFT"), cand("RIGHT", True, "RIGHT"), cand("FULL", True, "FULL"),
         cand("inner", True, "INNER"), cand("Left", True, "LEFT"), cand(" LEFT", False), cand("LEFT OUTER", False),
         cand("CROSS", False), cand("LEFT JOIN sentinel ON 1=1 LEFT", False), cand("", False), cand("INNER;", False),
         cand("NATURAL", False)]
TYPES = [cand(t, True, t) for t in ["INTEGER", "integer", "VARCHAR(100)", "DECIMAL(10,2)", "INTEGER PRIMARY KEY", "TEXT NOT NULL"]] + [
    cand(t, False) for t in ["TEXT; DROP TABLE sentinel", "TEXT) ; --", "TEXT'", "FOO", "", "TEXT, evil INTEGER",
                             "TEXT (1), evil INTEGER", "INTEGER) WITHOUT ROWID", "INT\x00", " TEXT", "TEXT)", "1INTEGER",
                             "TEXT DEFAULT 'x'", "TEXT -- c"]]

DEFS_TMPL = r'''
Classes == %(classes)s
Cands(n) == UNION {[1..k -> Classes] : k \in 0..n} \cup {<<"Llong">>, <<"L", "Llong", "D">>, <<"Llong", "semi">>}
Hot == Cands(%(n)d)
HotSmall == Cands(1)
T1 == <<"L">>
C1 == <<"L", "D">>
C2 == <<"U", "L">>
Ops == %(ops)s
Dirs == %(dirs)s
JoinTypes == %(joins)s
Types == %(types)s
Eq == CHOOSE o \in Ops : o.text = "="
Asc == CHOOSE o \in Dirs : o.text = "ASC"
Inner == CHOOSE o \in JoinTypes : o.text = "INNER"
Star == [star |-> TRUE]
B(table, calls) == [ep |-> "build", dialect |-> "postgres", table |-> table, calls |-> calls]
Sel(cols) == [m |-> "Select", cols |-> cols]
Wh(c, o) == [m |-> "Where", col |-> c, op |-> o]
Ob(c, d) == [m |-> "OrderBy", col |-> c, dir |-> d]
Jn(t, tb, a, b) == [m |-> "Join", type |-> t, table |-> tb, on |-> a, with |-> b]
Lim(n) == [m |-> "Limit", n |-> n]
Off(n) == [m |-> "Offset", n |-> n]
BuildJobs ==
       {B(h, <<>>) : h \in Hot}
  \cup {B(T1, <<Sel(<<[id |-> h]>>)>>) : h \in Hot}
  \cup {B(T1, <<Sel(<<Star, [id |-> h], [id |-> C1]>>)>>) : h \in HotSmall}
  \cup {B(T1, <<Wh(h, Eq)>>) : h \in Hot}
  \cup {B(T1, <<Wh(C1, o)>>) : o \in Ops}
  \cup {B(T1, <<Wh(h, o)>>) : h \in HotSmall, o \in Ops}
  \cup {B(T1, <<Ob(h, Asc)>>) : h \in {x \in Hot : \E i \in 1..Len(x) : x[i] \notin {"sp", "nl"}}}     \* (an all-blank column with a direction word is outside the space)
  \cup {B(T1, <<Ob(h, CHOOSE x \in Dirs : x.text = "")>>) : h \in {<<>>, <<"sp">>, <<"nl">>}}
  \cup {B(T1, <<Ob(h, d)>>) : h \in (HotSmall \ {<<>>, <<"sp">>, <<"nl">>}) \cup {C1, <<"L", "sp">>, <<"sp", "L">>, <<"L", "nl">>, <<"L", "sp", "L">>}, d \in Dirs}
  \cup {B(T1, <<Jn(Inner, h, C1, C2)>>) : h \in Hot}
  \cup {B(T1, <<Jn(Inner, C1, h, C2)>>) : h \in Hot}
  \cup {B(T1, <<Jn(Inner, C1, C2, h)>>) : h \in Hot}
  \cup {B(T1, <<Jn(t, C1, C1, C2)>>) : t \in JoinTypes}
  \cup {B(T1, <<Sel(<<[id |-> C1], [id |-> C2]>>), Wh(C1, o1), Wh(C2, o2), Ob(C1, d), Lim(l), Off(f)>>) :
            o1 \in {Eq}, o2 \in Ops, d \in Dirs, l \in {0, 3}, f \in {0, 2}}
  \cup {B(T1, <<Jn(t, C1, C1, C2), Jn(Inner, C2, h, C1), Wh(C1, Eq), Lim(5)>>) : t \in JoinTypes, h \in HotSmall}
  \cup {B(T1, <<Off(4), Lim(1), Wh(C1, Eq), Wh(C1, Eq), Wh(C2, Eq)>>)}
OrmJobs ==
       {[ep |-> e, dialect |-> "postgres", table |-> h, col |-> C1] : e \in {"create", "update"}, h \in Hot}
  \cup {[ep |-> e, dialect |-> "postgres", table |-> T1, col |-> h] : e \in {"create", "update"}, h \in Hot}
  \cup {[ep |-> "delete", dialect |-> "postgres", table |-> h] : h \in Hot}
  \cup {[ep |-> "count", dialect |-> "postgres", table |-> h, conds |-> <<>>] : h \in Hot}
  \cup {[ep |-> "count", dialect |-> "postgres", table |-> T1, conds |-> <<[col |-> h, op |-> o]>>] : h \in HotSmall, o \in Ops}
  \cup {[ep |-> "count", dialect |-> "postgres", table |-> T1, conds |-> <<[col |-> C1, op |-> Eq], [col |-> h, op |-> Eq]>>] : h \in Hot}
Dialects == {"postgres", "mysql", "sqlite"}
DialectJobs ==
       {[ep |-> "bulk", dialect |-> d, table |-> h, cols |-> <<C1>>, nrows |-> 1] : d \in Dialects, h \in Hot}
  \cup {[ep |-> "bulk", dialect |-> d, table |-> T1, cols |-> <<T1, h>>, nrows |-> 2] : d \in Dialects, h \in Hot}
  \cup {[ep |-> "bulk", dialect |-> d, table |-> T1, cols |-> <<T1, C2>>, nrows |-> n] : d \in Dialects, n \in {1, 3}}
  \cup {[ep |-> "drop", dialect |-> d, table |-> h] : d \in Dialects, h \in Hot}
  \cup {[ep |-> "lastid", dialect |-> d, table |-> h, col |-> C1] : d \in Dialects, h \in HotSmall}
  \cup {[ep |-> "lastid", dialect |-> d, table |-> T1, col |-> h] : d \in Dialects, h \in HotSmall}
  \cup {[ep |-> "createtable", dialect |-> d, table |-> h, col |-> C1, type |-> CHOOSE t \in Types : t.text = "INTEGER"] : d \in Dialects, h \in Hot}
  \cup {[ep |-> "createtable", dialect |-> d, table |-> C1, col |-> h, type |-> CHOOSE t \in Types : t.text = "INTEGER"] : d \in Dialects, h \in Hot}
  \cup {[ep |-> "createtable", dialect |-> d, table |-> C1, col |-> C2, type |-> t] : d \in Dialects, t \in Types}
AllJobs == BuildJobs \cup OrmJobs \cup DialectJobs
EmitInv == Finished => PrintT(<<"CASE", ToJson([job |-> job, out |-> out])>>)
'''


def tla_cands(cs):
    return "{" + ", ".join(vf.tla(c) for c in cs) + "}"


def run(ck, tier, seed):
    quick = tier == "quick"
    ck.assumptions += [
        "identifiers are sequences of character classes (one concrete character per class: letter a, digit 7, _, quotes, ;, blank, -, /, *, parentheses, ., NUL, Cyrillic a, newline, comma) up to length 2 (thorough: also length 3 over the 10 classes that matter to quoting and statement structure), plus a 300-letter run",
        "operator / direction / join-type / column-type candidates carry their own classification [text, ok, canon] in the case; the classification is the documented rule (trimmed, case-folded membership; join types exact word)",
        "an OrderBy whose column is blank is 'no ordering' when the direction is blank too; a blank column with a direction word is outside the space (the code then takes the direction word as the column)",
        "OrderBy(column, direction) is specified as the code documents it: both are joined and split on blanks, so blanks around the column are immaterial",
        "Postgres and MySQL statements are captured from a recording database/sql driver and compared as text; only SQLite statements are executed (sentinel table + schema compared before/after)",
        "one adversarial identifier per statement (the other slots hold safe names)",
    ]
    # quick: all 18 classes, identifiers up to 2 characters.  thorough adds identifiers of 3 characters over the 10 classes
    # that matter to quoting and statement structure (the full 18^3 product does not finish in an hour)
    plans = [(CLASSES, 2)] if quick else [(CLASSES, 2), (["L", "D", "U", "dq", "sq", "bt", "semi", "sp", "minus", "lp"], 3)]
    cases = []
    seen_jobs = set()
    for pi_, (classes, n) in enumerate(plans):
        defs = DEFS_TMPL % {"classes": vf.tla(set(classes)), "n": n, "ops": tla_cands(OPS), "dirs": tla_cands(DIRS),
                            "joins": tla_cands(JOINS), "types": tla_cands(TYPES)}
        part = []
        r = vf.tlc("sql", "SqlBuild", {"Jobs": vf.TlaRaw("AllJobs")}, invariants=["OnlyValidatedIdentifiers", "EmitInv"], defs=defs,
                   case_sink=part.append, timeout=5000, heap="24g")
        ck.expect_model_ok("jobs-%d" % pi_, r)
        ck.add_model("jobs-%d" % pi_, r)
        for c in part:
            key = json.dumps(c, sort_keys=True)
            if key not in seen_jobs:
                seen_jobs.add(key)
                cases.append(c)
    if not cases:
        raise vf.InfraError("no jobs emitted")
    for i, c in enumerate(cases):
        c["id"] = i
    ck.cov["distinct_nontrivial"] += len(cases)
    ck.cov["exhaustive"] = True
    ck.sample(cases[len(cases) // 3])
    ck.sample(cases[2 * len(cases) // 3])
    work = vf.scratch("verif-c13-")
    path = os.path.join(work, "cases.ndjson")
    vf.write_ndjson(path, cases)
    out = path + ".out"
    rc, txt = vf.go_test("pkg/database", ["sql_test.go"], run="TestVerifSqlReplay$", env={"VERIF_CASES": path, "VERIF_OUT": out}, timeout=6000)
    res = vf.read_ndjson(out)
    summ = [x for x in res if x.get("summary")]
    if not summ or summ[0]["cases"] != len(cases):
        raise vf.InfraError("C13 driver failed rc=%s\n%s" % (rc, txt[-3000:]))
    ck.cov["traces_validated_against_impl"] += len(cases)
    ck.cov["evaluations"] += len(cases)
    seen = set()
    for m in res:
        if m.get("summary"):
            continue
        c = cases[m["case"]]
        j = c["job"]
        kind = m["what"].split(":")[0].split(";")[0][:40]
        slot = c["out"].get("slot", "")
        sig = "%s/%s/%s/%s" % (j["ep"], j.get("dialect", ""), slot or "text", kind.replace(" ", "-"))
        if sig in seen:
            continue
        seen.add(sig)
        ck.mismatch(sig, {"mismatch": m, "job": j, "expected": c["out"]}, replay={"kind": "sql", "case": c})
    ck.cov["rule"] = "a case = one builder call sequence / entry-point call with one adversarial identifier or keyword candidate; all jobs of the bounded space enumerated by TLC and executed"
