"""C14 - database transactions are all-or-nothing.  specs/txn/SqlTxn.tla"""
import json, os, random
import vf

INVS = ["Atomic", "ConnUsable", "NothingPendingAtRest"]
DEFS = r'''
Ids == 1..%(ids)d
Scripts(n) == UNION {[1..k -> Ids] : k \in 0..n}
Faults(len) == {[kind |-> "none", at |-> 0]} \cup [kind : {"err", "ctxerr", "txdone", "panic", "cancel"}, at : 1..(len + 1)]
TxJobs(n) == UNION {{[k |-> "tx", ins |-> s, fault |-> f, onerr |-> o, pad |-> 0] : f \in Faults(Len(s)), o \in {"return", "ignore"}} : s \in Scripts(n)}
BulkJobs(n) == {[k |-> "bulk", ins |-> s, fault |-> [kind |-> "none", at |-> 0], onerr |-> "return", pad |-> p] : s \in Scripts(n) \ {<<>>}, p \in {0, 1}}
Second == {jb \in TxJobs(2) : jb.fault.kind \in {"none", "err"} /\ jb.onerr = "return"} \cup {jb \in BulkJobs(2) : jb.pad = 0}
AllPlans == {<<a, b>> : a \in TxJobs(%(n)d) \cup BulkJobs(%(n)d), b \in Second}
         \cup {<<a, b, c>> : a \in {jb \in BulkJobs(1) : jb.pad = 0}, b \in {jb \in TxJobs(2) : Len(jb.ins) = 2}, c \in {jb \in Second : Len(jb.ins) = 1}}
EmitInv == (j > Len(plan) /\ Pick(plan)) => PrintT(<<"CASE", ToJson([plan |-> plan, results |-> results])>>)
'''


def model(ck, name, n, ids, pick, dev=(), sink=None, invs=INVS, timeout=3000):
    defs = "Pick(p) == " + pick + "\n" + DEFS % {"n": n, "ids": ids}
    kw = {"Plans": vf.TlaRaw("AllPlans"), "Deviations": set(dev), "RecordHist": False}
    return vf.tlc("txn", "SqlTxn", kw, invariants=invs + (["EmitInv"] if sink is not None else []), defs=defs,
                  case_sink=sink, timeout=timeout)


def run(ck, tier, seed):
    quick = tier == "quick"
    ck.level = "model_checking"
    ck.assumptions += [
        "table t(id INTEGER PRIMARY KEY): a statement fails exactly when it inserts an existing id (or after the context was cancelled)",
        "fault kinds: callback returns an error, panics, context cancelled - at every script position; a failing statement's error is returned or ignored by the callback",
        "Postgres/MySQL code paths run over a recording fake database/sql driver (no server offline): only the driver-call sequence is compared there",
        "bulk inserts come in two sizes: the listed rows only, or preceded by a block of 1200 further rows (id 1000 stands for the block) so that statements exceed common bound-parameter limits",
        "nested transactions on the single-connection SQLite pool are not exercised (they block until the context deadline)",
    ]
    rnd = random.Random(seed)
    cases = []
    n, ids = (2, 2) if quick else (3, 3)
    r = model(ck, "plans", n, ids, "TRUE", sink=cases.append)
    ck.expect_model_ok("plans", r)
    ck.add_model("plans", r)
    if not cases:
        raise vf.InfraError("no plans emitted")
    if quick and len(cases) > 6000:
        rnd.shuffle(cases)
        cases = cases[:6000]
    else:
        ck.cov["exhaustive"] = True
    for i, c in enumerate(cases):
        c["id"] = i
        for res in c["results"]:
            res["table"] = sorted(res["table"])
    ck.cov["distinct_nontrivial"] += len(cases)
    ck.sample(cases[len(cases) // 2])
    work = vf.scratch("verif-c14-")
    path = os.path.join(work, "cases.ndjson")
    vf.write_ndjson(path, cases)
    out, fout = path + ".out", path + ".fake.out"
    rc, txt = vf.go_test("pkg/database", ["txn_test.go"], run="TestVerifTxn(SQLite|FakeDriver)$",
                         env={"VERIF_CASES": path, "VERIF_OUT": out, "VERIF_FAKE_OUT": fout}, timeout=3000)
    for o, label in ((out, "sqlite"), (fout, "fake-driver")):
        res = vf.read_ndjson(o)
        summ = [x for x in res if x.get("summary")]
        if not summ or summ[0]["cases"] != len(cases):
            raise vf.InfraError("C14 %s driver failed rc=%s\n%s" % (label, rc, txt[-3000:]))
        ck.cov["traces_validated_against_impl"] += summ[0]["jobs"]
        ck.cov["evaluations"] += summ[0]["jobs"]
        seen = set()
        for m in res:
            if m.get("summary"):
                continue
            c = cases[m["case"]]
            job = c["plan"][m["job"]]
            what = m["what"].split(" ")[0]
            sig = "%s/%s/%s/%s" % (m["driver"], job["k"], job["fault"]["kind"], what)
            if sig in seen:
                continue
            seen.add(sig)
            ck.mismatch(sig, {"mismatch": m, "plan": c["plan"], "expected": c["results"]}, replay={"kind": "txn", "case": c})
    ck.cov["rule"] = "a case = one plan (2-3 back-to-back jobs: scripted transaction with a fault position/kind, or bulk insert); all plans of the bounded space enumerated by TLC"


def selftest(seed):
    ok = True
    for d in ("TX_NoRollbackOnError", "TX_CommitAfterPanic", "BULK_RowByRow"):
        r = model(None, "dev", 2, 2, "TRUE", dev=(d,))
        print("selftest C14: deviation %s -> %s" % (d, r.violation))
        ok = ok and r.violation is not None
    return 0 if ok else 2
