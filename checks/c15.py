"""C15 - JIT tiering and caching are invisible.  specs/jit/JitCache.tla"""
import json, os
import vf

INVS = ["NoStale", "CacheConsistent", "SpecCap", "TierRange"]
DEFS = r'''
Bnd == now <= %(now)d /\ \A r \in Routes : prof[r] <= %(prof)d /\ \A i \in 1..Len(specs[r]) : specs[r][i].hits <= %(hits)d
HBnd == Bnd /\ Len(hist) <= %(hist)d
Emit == (hist' # hist) => PrintT(<<"CASE", ToJson(hist')>>)
SimDepth == %(depth)d
SimEmitInv == (Len(hist) >= SimDepth) => PrintT(<<"CASE", ToJson(hist)>>)
SimBound == Len(hist) < SimDepth
'''


def consts(routes=("a",), tms=("T1", "T2"), maxver=2, thr=2, win=1, maxspecs=2, dev=(), hist=False):
    return {"Routes": set(routes), "TypeMaps": set(tms), "MaxVer": maxver, "Threshold": thr, "Window": win,
            "MaxSpecs": maxspecs, "Deviations": set(dev), "RecordHist": hist}


BATCH = []


def gen(ck, name, kw, b, sim=None, seed=1):
    cases = []
    if sim is None:
        r = vf.tlc("jit", "JitCache", kw, invariants=INVS, constraint="HBnd", view="View", action_constraint="Emit",
                   defs=DEFS % b, case_sink=cases.append, timeout=1500)
        ck.expect_model_ok(name, r)
        ck.add_model(name, r)
    else:
        r = vf.tlc("jit", "JitCache", kw, invariants=INVS + ["SimEmitInv"], constraint="SimBound", defs=DEFS % b,
                   simulate={"num": sim, "depth": b["depth"] * 3}, seed=seed, workers=1, case_sink=cases.append, timeout=900)
        ck.expect_model_ok(name, r)
        ck.cov["models"].append({"name": name, "mode": "simulate", "walks": len(cases)})
    uniq = {}
    for h in cases:
        if any(s["op"] in ("Compile", "CompileTyped") for s in h[-1:]):
            uniq.setdefault(json.dumps(h, sort_keys=True), h)
        elif sim is not None:
            uniq.setdefault(json.dumps(h, sort_keys=True), h)
    cases = list(uniq.values())
    if not cases:
        raise vf.InfraError("no behaviours for " + name)
    ck.cov["distinct_nontrivial"] += len(cases)
    ck.sample({"model": name, "behaviour": cases[len(cases) // 2]})
    # the real MaxSpecs is 5: only replay when the model uses 5, or when no eviction can occur
    cfg = {"Threshold": kw["Threshold"], "Window": kw["Window"]}
    for h in cases:
        BATCH.append((name, cfg, h))


def run(ck, tier, seed):
    quick = tier == "quick"
    ck.assumptions += [
        "a bytecode is identified by executing it: the version constant and derived locals appear in the result, which is compared with a fresh OptNone compilation of that version (path parameter id = 'seven')",
        "contract: a caller that changes a definition calls InvalidateCache (or RecordDeoptimization for specialisations); between the change and that call stale code may be served",
        "virtual clock by textual redirection of time.Now/Since in pkg/jit/jit.go; tick = 1 s (Duration arithmetic is exact, so `> window` is the integer comparison of the model)",
        "the specialisation cap is the code's constant 5; random walks with seven type maps on one route reach it, which entry is evicted is the code's business - what is handed out afterwards must still be code of the current definition",
    ]
    # design model
    b = dict(now=3, prof=3, hits=1, hist=0, depth=0)
    r = vf.tlc("jit", "JitCache", consts(("a",)), invariants=INVS, properties=["TierMonotone"], constraint="Bnd", defs=DEFS % b, timeout=900)
    ck.expect_model_ok("mc-1route", r)
    ck.add_model("mc-1route", r)
    b2 = dict(now=1 if quick else 2, prof=2, hits=1, hist=0, depth=0)
    r = vf.tlc("jit", "JitCache", consts(("a", "b"), tms=("T1",), maxspecs=1 if quick else 2), invariants=INVS, properties=["TierMonotone"],
               constraint="Bnd", defs=DEFS % b2, timeout=3000)
    ck.expect_model_ok("mc-2routes", r)
    ck.add_model("mc-2routes", r)
    # behaviours for replay (MaxSpecs = 5 as in the code; two type maps never reach it)
    gen(ck, "cover-1route", consts(("a",), maxspecs=5, hist=True), dict(now=2, prof=2, hits=1, hist=5 if quick else 6, depth=0))
    gen(ck, "sim-2routes", consts(("a", "b"), maxspecs=5, maxver=3, thr=4, win=1, hist=True), dict(now=0, prof=0, hits=0, hist=0, depth=24),
        sim=400 if quick else 6000, seed=seed)
    gen(ck, "sim-2routes-hot", consts(("a", "b"), maxspecs=5, maxver=2, thr=2, win=1, hist=True), dict(now=0, prof=0, hits=0, hist=0, depth=20),
        sim=400 if quick else 6000, seed=seed + 3)
    # seven type maps on one route: the cap of 5 specialisations is reached, entries are evicted, and an evicted
    # combination is asked for again after the definition changed
    gen(ck, "sim-1route-7typemaps", consts(("a",), tms=("T1", "T2", "T3", "T4", "T5", "T6", "T7"), maxspecs=5, maxver=3, thr=4, win=1, hist=True),
        dict(now=0, prof=0, hits=0, hist=0, depth=30), sim=300 if quick else 4000, seed=seed + 5)
    ck.cov["exhaustive"] = True
    work = vf.scratch("verif-c15-")
    path = os.path.join(work, "cases.ndjson")
    vf.write_ndjson(path, [{"id": i, "cfg": cfg, "hist": h} for i, (_, cfg, h) in enumerate(BATCH)])
    out = path + ".out"
    rc, txt = vf.go_test("pkg/jit", ["jit_test.go"], run="TestVerifJitReplay$", clock=["pkg/jit/jit.go"],
                         env={"VERIF_CASES": path, "VERIF_OUT": out}, timeout=2400)
    res = vf.read_ndjson(out)
    summ = [x for x in res if x.get("summary")]
    if not summ or summ[0]["cases"] != len(BATCH):
        raise vf.InfraError("C15 driver failed rc=%s\n%s" % (rc, txt[-3000:]))
    ck.cov["traces_validated_against_impl"] += len(BATCH)
    ck.cov["evaluations"] += summ[0]["steps"]
    seen = set()
    for m in res:
        if m.get("summary"):
            continue
        name, cfg, h = BATCH[m["case"]]
        prev = [s["op"] for s in h[:m["step"]]]
        after = "after-" + next((o for o in reversed(prev) if o in ("Invalidate", "Clear", "Deopt", "Redefine")), "start")
        kind = "stale-or-wrong-code" if "yields" in m["what"] else ("tier" if m["what"].startswith("tier") else "error")
        sig = "replay/%s/%s/%s" % (m["op"], kind, after)
        if sig in seen:
            continue
        seen.add(sig)
        ck.mismatch(sig, {"model": name, "mismatch": m, "hist": h}, replay={"kind": "jit", "cfg": cfg, "hist": h})
    del BATCH[:]
    # concurrent phase
    cout = os.path.join(work, "conc.out")
    rc, txt = vf.go_test("pkg/jit", ["jit_test.go"], run="TestVerifJitConcurrent$", clock=["pkg/jit/jit.go"], race=True,
                         env={"VERIF_CONC_OUT": cout, "VERIF_SEED": str(seed)}, timeout=1200)
    if "DATA RACE" in txt:
        i = txt.index("DATA RACE")
        ck.mismatch("race/pkg/jit", {"output": txt[max(0, i - 200):i + 2500]}, replay={"kind": "jit-concurrent"})
    res = vf.read_ndjson(cout)
    summ = [x for x in res if x.get("summary")]
    if not summ:
        if "DATA RACE" not in txt:
            raise vf.InfraError("C15 concurrent driver failed rc=%s\n%s" % (rc, txt[-3000:]))
    else:
        ck.cov["evaluations"] += summ[0]["calls"]
        if summ[0]["bad"]:
            ck.mismatch("concurrent/wrong-code", {"examples": [x for x in res if not x.get("summary")]}, replay={"kind": "jit-concurrent"})
    ck.cov["rule"] = "behaviours = transition cover (bounded history) of the 1-route model + random walks over 2 routes / 3 versions; each executed on a real JITCompiler, every handed-out bytecode run on the VM"


def selftest(seed):
    ok = True
    b = dict(now=2, prof=2, hits=1, hist=0, depth=0)
    for d in ("JIT_InvalidateKeepsSpecializations", "JIT_DeoptNeedsUnit"):
        r = vf.tlc("jit", "JitCache", consts(("a",), dev=(d,)), invariants=INVS, constraint="Bnd", defs=DEFS % b, timeout=600)
        print("selftest C15: deviation %s -> %s" % (d, r.violation))
        ok = ok and r.violation is not None
    return 0 if ok else 2
