"""C16 - WebSocket rooms stay consistent under concurrency.  specs/ws/WsHub.tla"""
import json, os
import vf

INVS = ["NoCrash", "Limits", "ViewsAgreeAtRest", "ClosedIsNowhere"]
DEFS = r'''
MaxHist == %d
HBound == Len(hist) <= MaxHist
Emit == (hist' # hist) => PrintT(<<"CASE", ToJson(hist')>>)
SimDepth == %d
SimEmit == (Len(hist) >= SimDepth) => PrintT(<<"CASE", ToJson(hist)>>)
SimBound == Len(hist) < SimDepth
SimEmitInv == SimEmit
'''


def consts(conns=("c1", "c2"), rooms=("r1",), maxconns=0, roomcap=1, qcap=1, strategy="drop_newest", serial=False,
           dev=(), hist=False, msgs=("m",)):
    return {"Conns": set(conns), "Rooms": set(rooms), "Msgs": set(msgs), "MaxConns": maxconns, "RoomCap": roomcap,
            "QCap": qcap, "Strategy": strategy, "Serial": serial, "Deviations": set(dev), "RecordHist": hist}


def go_cfg(kw):
    return {"MaxConns": kw["MaxConns"], "RoomCap": kw["RoomCap"], "QCap": kw["QCap"], "Strategy": kw["Strategy"]}


def replay(ck, name, kw, cases):
    work = vf.scratch("verif-c16-")
    path = os.path.join(work, "cases.ndjson")
    cfg = go_cfg(kw)
    vf.write_ndjson(path, [{"id": i, "cfg": cfg, "hist": h} for i, h in enumerate(cases)])
    out = path + ".out"
    rc, txt = vf.go_test("pkg/websocket", ["hub_test.go"], run="TestVerifHubReplay$",
                         env={"VERIF_CASES": path, "VERIF_OUT": out, "VERIF_CONNS": json.dumps(sorted(kw["Conns"])),
                              "VERIF_ROOMS": json.dumps(sorted(kw["Rooms"]))}, timeout=2400)
    res = vf.read_ndjson(out)
    summ = [r for r in res if r.get("summary")]
    if not summ or summ[0]["cases"] != len(cases):
        if "panic:" in txt or "fatal error" in txt:
            ck.mismatch("replay/process-crash", {"model": name, "output": txt[-3000:]}, replay={"kind": "ws-replay", "cfg": cfg})
            return
        raise vf.InfraError("C16 replay driver failed rc=%s\n%s" % (rc, txt[-3000:]))
    ck.cov["traces_validated_against_impl"] += len(cases)
    ck.cov["evaluations"] += summ[0]["steps"]
    seen = set()
    for m in res:
        if m.get("summary"):
            continue
        h = cases[m["case"]]
        prev = [s["op"] for s in h[:m["step"]]]
        cls = []
        st = h[m["step"]]
        if "Unregister" in prev:
            cls.append("after-disconnect")
        if st["op"] == "Join" and st.get("ok") is False:
            cls.append("refused")
        sig = "replay/%s/%s/%s" % (m["op"], m["field"], ",".join(cls))
        if sig in seen:
            continue
        seen.add(sig)
        ck.mismatch(sig, {"model": name, "cfg": cfg, "mismatch": m, "hist": h}, replay={"kind": "ws-replay", "cfg": cfg, "hist": h})


def gen_and_replay(ck, name, kw, maxhist=None, sim=None, seed=1):
    cases = []
    if sim is None:
        r = vf.tlc("ws", "WsHub", kw, invariants=INVS, constraint="HBound", view="View", action_constraint="Emit",
                   defs=DEFS % (maxhist, 0), case_sink=cases.append, timeout=1800)
        ck.expect_model_ok(name, r)
        ck.add_model(name, r)
    else:
        r = vf.tlc("ws", "WsHub", kw, invariants=INVS + ["SimEmitInv"], constraint="SimBound", defs=DEFS % (0, sim["depth"]),
                   simulate={"num": sim["num"], "depth": sim["depth"] * 8}, seed=seed, workers=1, case_sink=cases.append, timeout=900)
        ck.expect_model_ok(name, r)
        ck.cov["models"].append({"name": name, "mode": "simulate", "walks": len(cases)})
    uniq = {}
    for h in cases:
        uniq.setdefault(json.dumps(h, sort_keys=True), h)
    cases = list(uniq.values())
    if not cases:
        raise vf.InfraError("no behaviours for " + name)
    ck.cov["distinct_nontrivial"] += len(cases)
    ck.sample({"model": name, "behaviour": [{k: v for k, v in s.items() if k != "st"} for s in cases[len(cases) // 2]]})
    replay(ck, name, kw, cases)


def record(ck, tier, seed):
    work = vf.scratch("verif-c16-")
    for ci, kw in enumerate([consts(("c1", "c2", "c3"), ("r1", "r2"), maxconns=2, roomcap=1, qcap=1, strategy="drop_newest"),
                             consts(("c1", "c2", "c3"), ("r1", "r2"), maxconns=0, roomcap=2, qcap=2, strategy="drop_oldest")]):
        out = os.path.join(work, "rec%d.ndjson" % ci)
        rc, txt = vf.go_test("pkg/websocket", ["hub_test.go"], run="TestVerifHubRecord$", race=True,
                             env={"VERIF_OUT": out, "VERIF_SEED": str(seed + ci), "VERIF_NTRACES": "4" if tier == "quick" else "30",
                                  "VERIF_CONNS": json.dumps(sorted(kw["Conns"])), "VERIF_ROOMS": json.dumps(sorted(kw["Rooms"])),
                                  "VERIF_CFG": json.dumps(go_cfg(kw))}, timeout=1500)
        if "DATA RACE" in txt:
            ck.mismatch("race/websocket", {"output": txt[-3500:]})
            continue
        lines = vf.read_ndjson(out)
        if rc != 0 or not lines:
            if "panic:" in txt or "fatal error" in txt:
                ck.mismatch("concurrent/process-crash", {"output": txt[-3500:]}, replay={"kind": "ws-record"})
                continue
            raise vf.InfraError("C16 record driver failed rc=%s\n%s" % (rc, txt[-3000:]))
        for ln in lines:
            if ln["ev"] == "Reset" and ln.get("status") != "ok":
                ck.mismatch("concurrent/" + ("hang" if ln["status"] == "hang" else "panic"), {"status": ln["status"]},
                            replay={"kind": "ws-record"})
        v = vf.validate_trace("ws", "WsHubTrace", kw, out, invariants=["NoCrash", "ViewsAgreeAtRest", "ClosedIsNowhere"],
                              timeout=1200)
        ntr = sum(1 for ln in lines if ln["ev"] == "Reset")
        ck.cov["traces_validated_against_impl"] += ntr
        ck.cov["models"].append({"name": "trace-%d" % ci, "mode": "trace-validation", "traces": ntr, "events": len(lines),
                                 "states": v["states"], "accepted": v["accepted"]})
        if not v["accepted"]:
            at = v["reject_at"]
            keep = os.path.join(vf.out_dir(), "replay", "C16-trace-%d-%d.ndjson" % (seed, ci))
            os.makedirs(os.path.dirname(keep), exist_ok=True)
            vf.write_ndjson(keep, lines[:at] if at else lines)
            bad = lines[at - 1] if at and at <= len(lines) else None
            ck.mismatch("trace/%s" % (bad["ev"] if bad else v["violation"]),
                        {"reject_at": at, "line": bad, "before": lines[max(0, (at or 1) - 6):(at or 1) - 1], "violation": v["violation"], "trace": keep},
                        replay={"kind": "ws-trace", "trace": keep})
        else:
            ck.sample({"trace_events": lines[1:8]}, limit=8)


def burst(ck, tier, seed):
    """many connections released at once onto a nearly full room; trace validated"""
    work = vf.scratch("verif-c16-")
    names = ["c%d" % i for i in range(1, 9)]
    kw = consts(names, ("r1", "r2"), maxconns=0, roomcap=2, qcap=2)
    out = os.path.join(work, "burst.ndjson")
    rc, txt = vf.go_test("pkg/websocket", ["hub_test.go"], run="TestVerifHubBurst$",
                         env={"VERIF_OUT": out, "VERIF_ROUNDS": "60" if tier == "quick" else "400",
                              "VERIF_CONNS": json.dumps(names), "VERIF_ROOMS": json.dumps(["r1", "r2"]),
                              "VERIF_CFG": json.dumps(go_cfg(kw))}, timeout=1500)
    lines = vf.read_ndjson(out)
    if rc != 0 or not lines:
        raise vf.InfraError("C16 burst driver failed rc=%s\n%s" % (rc, txt[-3000:]))
    v = vf.validate_trace("ws", "WsHubTrace", kw, out, invariants=["NoCrash", "ViewsAgreeAtRest", "ClosedIsNowhere", "Limits"],
                          timeout=1500)
    ck.cov["traces_validated_against_impl"] += 1
    ck.cov["models"].append({"name": "trace-burst", "mode": "trace-validation", "events": len(lines), "states": v["states"],
                             "accepted": v["accepted"]})
    if not v["accepted"]:
        at = v["reject_at"]
        bad = lines[at - 1] if at and at <= len(lines) else None
        keep = os.path.join(vf.out_dir(), "replay", "C16-burst-%d.ndjson" % seed)
        os.makedirs(os.path.dirname(keep), exist_ok=True)
        vf.write_ndjson(keep, lines[:at] if at else lines)
        ck.mismatch("burst/%s" % (bad["ev"] if bad else v["violation"]),
                    {"reject_at": at, "line": bad, "before": lines[max(0, (at or 1) - 6):(at or 1) - 1], "violation": v["violation"], "trace": keep},
                    replay={"kind": "ws-trace", "trace": keep})


def block(ck, tier, seed):
    """senders blocked on a full queue (strategy block) while the hub closes the connection: WsBlock.tla"""
    for pump in (False, True):
        kw = {"Senders": {"s1", "s2"}, "QCap": 1, "MaxMsgs": 2, "PumpRuns": pump, "Deviations": set()}
        r = vf.tlc("ws", "WsBlock", kw, invariants=["TypeOK", "LockDiscipline", "NoSendOnClosed", "HeldOnlyWhileSending"],
                   properties=["HubReturns", "SendersReturn"], timeout=600, want_cases=False)
        ck.expect_model_ok("block-locks" + ("-pump" if pump else ""), r)
        ck.add_model("block-locks" + ("-pump" if pump else ""), r)
    r = vf.tlc("ws", "WsBlock", {"Senders": {"s1"}, "QCap": 1, "MaxMsgs": 2, "PumpRuns": False, "Deviations": {"DoneUnderLock"}},
               properties=["HubReturns"], timeout=600, want_cases=False)
    if r.ok:
        raise vf.InfraError("WsBlock.tla does not see the deadlock of closing done under the write lock")
    work = vf.scratch("verif-c16-")
    out = os.path.join(work, "block.ndjson")
    rc, txt = vf.go_test("pkg/websocket", ["hub_test.go"], run="TestVerifHubBlock$",
                         env={"VERIF_OUT": out, "VERIF_ROUNDS": "40" if tier == "quick" else "400", "VERIF_SEED": str(seed)}, timeout=1500)
    lines = vf.read_ndjson(out)
    rounds = [ln for ln in lines if ln.get("ev") == "BlockRound"]
    if not rounds:
        raise vf.InfraError("C16 block driver failed rc=%s\n%s" % (rc, txt[-3000:]))
    ck.cov["traces_validated_against_impl"] += len(rounds)
    ck.cov["evaluations"] = ck.cov.get("evaluations", 0) + len(rounds)
    for ln in rounds:
        bad = None
        if not ln["hub_returns"]:
            bad = "hub-does-not-return"         # HubReturns
        elif not ln["senders_return"]:
            bad = "sender-stays-blocked"        # SendersReturn
        elif ln["queued"] + ln["closed"] != ln["senders"] * ln["msgs"] or ln["queued"] > ln["qcap"]:
            bad = "send-results"                # every Send answers once; without a pump at most QCap are queued
        elif not ln.get("late_send_refused"):
            bad = "send-after-close-accepted"   # NoSendOnClosed
        elif not ln.get("hub_serves_afterwards"):
            bad = "hub-stops-serving"
        if bad:
            ck.mismatch("block/" + bad, ln, replay={"kind": "ws-block", "round": ln})
            break
    ck.sample({"block_round": rounds[0]})


def run(ck, tier, seed):
    quick = tier == "quick"
    ck.assumptions += [
        "strategy block: WsBlock.tla models one connection's queue at the grain of sendMu/done (closeSend must close done before it asks for the write lock); the implementation is bound by scenario rounds (1-3 senders x 1-3 messages on a queue of 1-2 without a write pump, the connection unregistered after 0-3 ms) judged by the properties of that specification under a watchdog",
        "connections are real *websocket.Conn pairs over loopback, but the read/write pumps are not started: a disconnect is the `unregister` send the read pump performs, a consumer is the driver draining the queue",
        "trace validation follows registration, queue-open, closed flag, membership and views exactly and checks sends for safety only (queue contents are not ordered against drains)",
        "mutexes are assumed starvation-free (strong fairness for the hub's steps) in the liveness check",
    ]
    # 1. design model: all interleavings at critical-section granularity, incl. liveness
    kw = consts(("c1", "c2"), ("r1",), maxconns=0, roomcap=1, qcap=1)
    r = vf.tlc("ws", "WsHub", kw, invariants=INVS, properties=["ClosedQueuesOnlyShrink", "HubReturns", "OpsReturn"], timeout=1800)
    ck.expect_model_ok("mc-2c-1r", r)
    ck.add_model("mc-2c-1r", r)
    if not quick:
        kw = consts(("c1", "c2"), ("r1", "r2"), maxconns=1, roomcap=1, qcap=1, strategy="drop_oldest")
        r = vf.tlc("ws", "WsHub", kw, invariants=INVS, properties=["ClosedQueuesOnlyShrink"], timeout=3000)
        ck.expect_model_ok("mc-2c-2r-max1", r)
        ck.add_model("mc-2c-2r-max1", r)
    # 2. serial behaviours replayed on the real hub
    gen_and_replay(ck, "serial-cover-2c-1r", consts(("c1", "c2"), ("r1",), maxconns=0, roomcap=1, qcap=1, serial=True, hist=True),
                   maxhist=4 if quick else 5)
    gen_and_replay(ck, "serial-cover-max1", consts(("c1", "c2"), ("r1",), maxconns=1, roomcap=0, qcap=1, strategy="drop_oldest", serial=True, hist=True),
                   maxhist=4)
    ck.cov["exhaustive"] = True
    gen_and_replay(ck, "serial-sim-3c-2r", consts(("c1", "c2", "c3"), ("r1", "r2"), maxconns=2, roomcap=2, qcap=2, serial=True, hist=True),
                   sim={"num": 150 if quick else 2500, "depth": 14}, seed=seed)
    # 3. free-running stress, trace validated
    record(ck, tier, seed)
    burst(ck, tier, seed)
    block(ck, tier, seed)
    ck.cov["rule"] = "serial behaviours: transition cover (bounded history) and random walks of WsHub, replayed op by op on a real Hub; concurrent runs: hook traces validated by TLC"
