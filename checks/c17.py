"""C17 - static file serving never escapes its root.  specs/staticfs/StaticFs.tla"""
import json, os, random
import vf

TARGETS = [["root", "f.txt"], ["root", "d"], ["out", "secret.txt"], ["out"], ["rootx", "s.txt"], ["ROOT", "c.txt"], [], ["root"], ["nowhere"]]
ALPHA_Q = ["f.txt", "d", "index.html", "l", "m", "..", "", "out", "secret.txt"]
ALPHA_T = ["f.txt", "d", "g.txt", "index.html", "l", "m", "..", ".", "", "out", "secret.txt", "rootx", "s.txt", "ROOT", "c.txt", "bs", "nul"]
INVS = ["Confined", "NoOutsideContent", "DenyIsQuiet"]


def defs(alpha, maxlen, lay_filter):
    tg = "{" + ", ".join(vf.tla(t) for t in TARGETS) + "}"
    return r'''
Targets == %s
SelfL == <<"root", "l">>
Ab == [k |-> "absent"]
Lk(S) == {[k |-> "link", tg |-> t] : t \in S}
AllLayouts == {lay \in [idx : {Ab, [k |-> "file"]} \cup Lk(Targets), l : {Ab} \cup Lk(Targets \cup {SelfL}), m : {Ab} \cup Lk(Targets), ti : {Ab, [k |-> "file"]}] : %s}
Alpha == %s
AllReqs == [mode : {"static", "list", "sendfile"}, segs : UNION {[1..j -> Alpha] : j \in 0..%d}]
EmitInv == (req.mode = "none") =>
    PrintT(<<"CASE", ToJson([layout |-> layout,
        served |-> {[mode |-> rq.mode, segs |-> rq.segs, content |-> Serve(layout, rq).content] :
                     rq \in {x \in AllReqs : Serve(layout, x).served}}])>>)
''' % (tg, lay_filter, vf.tla(set(alpha)), maxlen)


def model(ck, name, alpha, maxlen, lay_filter, dev=(), sink=None, invs=INVS, timeout=3000):
    kw = {"Layouts": vf.TlaRaw("AllLayouts"), "Requests": vf.TlaRaw("AllReqs"), "Deviations": set(dev)}
    r = vf.tlc("staticfs", "StaticFs", kw, invariants=invs + (["EmitInv"] if sink is not None else []),
               defs=defs(alpha, maxlen, lay_filter), case_sink=sink, timeout=timeout)
    return r


def run(ck, tier, seed):
    quick = tier == "quick"
    rnd = random.Random(seed)
    ck.assumptions += [
        "file system universe: root/{f.txt,d/{g.txt,index.html?,m?},l?}, siblings rootx/ and ROOT/ (the root's name in another letter case), out/, parent index.html; three names vary over absent/file/link-to-any-of-10-targets",
        "request = decoded segment sequence; '..' and '.' are sent in several percent-encoded spellings; 'bs' is a literal '..\\..' name, 'nul' a name with a NUL byte",
        "403 vs 404 is not distinguished: the property only separates 'file bytes returned' from 'refused'; a 301 from http.ServeMux is 'refused'",
        "Linux only; no FIFOs/devices",
    ]
    # quick: 9 names, paths up to 2 segments, layouts with l or m absent.  thorough: (a) all 2420 layouts x the full
    # 15-name alphabet up to 2 segments, (b) the quick layouts x 9 names up to 3 segments (the full product of both
    # would be 26 million states)
    plans = [(ALPHA_Q, 2, 'lay.m = Ab \\/ lay.l = Ab')] if quick else [(ALPHA_T, 2, "TRUE"), (ALPHA_Q, 3, 'lay.m = Ab \\/ lay.l = Ab')]
    keep = []
    for pi_, (alpha, maxlen, lay_filter) in enumerate(plans):
        cases = []
        name = "layouts-x-requests-%d" % pi_
        r = model(ck, name, alpha, maxlen, lay_filter, sink=cases.append, timeout=5000)
        ck.expect_model_ok(name, r)
        ck.add_model(name, r)
        if not cases:
            raise vf.InfraError("no layouts emitted")
        rnd.shuffle(cases)
        # replay: quick = a sample of the layouts; thorough = all
        part = cases if not quick else cases[:120]
        for c in part:
            c["alpha"] = alpha
            c["maxlen"] = maxlen
            c["modes"] = ["static", "list", "sendfile"]
        keep += part
    for i, c in enumerate(keep):
        c["id"] = i
    work = vf.scratch("verif-c17-")
    path = os.path.join(work, "cases.ndjson")
    vf.write_ndjson(path, keep)
    out = path + ".out"
    rc, txt = vf.go_test("pkg/web", ["static_test.go"], run="TestVerifStaticReplay$",
                         env={"VERIF_CASES": path, "VERIF_OUT": out}, timeout=6000)
    res = vf.read_ndjson(out)
    summ = [x for x in res if x.get("summary")]
    if not summ or summ[0]["cases"] != len(keep):
        raise vf.InfraError("C17 driver failed rc=%s\n%s" % (rc, txt[-3000:]))
    ck.cov["traces_validated_against_impl"] += len(keep)
    ck.cov["evaluations"] += summ[0]["requests"]
    ck.cov["distinct_nontrivial"] += len(keep)
    ck.cov["exhaustive"] = not quick
    ck.sample({"layout": keep[0]["layout"], "served": keep[0]["served"][:5]})
    seen = set()
    for m in res:
        if m.get("summary"):
            continue
        lay = keep[m["case"]]["layout"]
        kind = "leak" if ("must be denied" in m["what"] or "leaks" in m["what"]) else "refused-or-wrong"
        via = "index" if (m["segs"] and m["segs"][-1] in ("d", "", "l", "m", ".")) or not m["segs"] else "path"
        sig = "%s/%s/%s" % (m["mode"], kind, via)
        if sig in seen:
            continue
        seen.add(sig)
        ck.mismatch(sig, {"layout": lay, "request": m}, replay={"kind": "static", "layout": lay, "request": m})
    ck.cov["rule"] = "case = one layout materialised on disk; every request (3 modes x all segment sequences up to the bound, 3 serving variants) is sent; distinct layouts counted"


def selftest(seed):
    r = model(None, "dev", ALPHA_Q, 2, 'lay.m = Ab /\\ lay.l = Ab', dev=("STATIC_IndexNotRechecked",), invs=["Confined"])
    ok = r.violation is not None
    print("selftest C17: deviation STATIC_IndexNotRechecked %s" % ("violates Confined (good)" if ok else "NOT detected"))
    return 0 if ok else 2
