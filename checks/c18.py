"""C18 - source rewriting tools preserve the program.  specs/fmt/SourceLayout.tla (+ binfmt/SourceMut.tla for byte strings)"""
import glob, json, os, re
import vf
import c10

KW = ["type", "return", "let", "route", "use", "func", "middleware", "expects", "validate", "handle", "cron", "command", "queue"]
HOLES = ["c1", "c2", "f1", "f2", "pp", "v1", "v2", "s1", "s2", "s3"]
IDENTS = ["x", "total", "type", "return", "let", "route", "use", "func", "middleware", "expects", "validate", "handle", "name_1"]
CLASS = {"f1": "field", "f2": "field", "pp": "path-param", "v1": "variable", "v2": "variable"}


EXTRA_SOURCES = [
    '@ GET /p {\n  $ dir = "C:\\\\data\\\\"\n  $ msg = "please return the file; we validate it and let you know"\n  $ sym = "> not a return, $ not a let, ? not a validate"\n  > {dir: dir, msg: msg, sym: sym}\n}\n',
    "@ GET /q {\n  $ a = 'ends with a backslash \\\\'\n  $ b = 'let return validate route'\n  $ c = \"quote \\\" then \\\\\"\n  $ d = \"let return validate\"\n  > [a, b, c, d]\n}\n",
    '@ GET /r {\n  $ a = "\\\\"\n  if a == "\\\\" {\n    > "return"\n  }\n  > "let"\n}\n',
    # sigils written without the following space, before each kind of character that can start what follows
    '@ GET /n {\n  $_tmp = 1\n  $b=2\n  $c9 = [1]\n  if b == 2 {\n    >_tmp\n  }\n  >0\n}\n',
    '@ GET /m {\n  $x = 5\n  if x > 4 {\n    >(x)\n  }\n  if x > 3 {\n    >"s"\n  }\n  if x > 2 {\n    >[1, 2]\n  }\n  if x > 1 {\n    >-1\n  }\n  if x > 0 {\n    >!true\n  }\n  >{a: 1}\n}\n',
    ':T9 {\n  a: int!\n}\n@GET /z/:id {\n  $_ = 1\n  >_\n}\n',
    '@ GET /k {\n  $__a1 = 7\n  $r = __a1 + 1\n  >9.5\n}\n',
]


def kw_classes(choices):
    out = []
    for i, h in enumerate(HOLES):
        if h in CLASS and IDENTS[choices[i] - 1] in KW and CLASS[h] not in out:
            out.append(CLASS[h])
    return out


def kw_in_text(text):
    """keyword-spelled identifiers in a real source file, by position"""
    body = re.sub(r'"(\\.|[^"\\])*"|\'(\\.|[^\'\\])*\'|#[^\n]*|//[^\n]*', '""', text)
    out = []
    alt = "|".join(KW)
    if re.search(r"(?m)^\s*(%s)\s*:" % alt, body) or re.search(r"[{,]\s*(%s)\s*:" % alt, body) or re.search(r"\.(%s)\b" % alt, body):
        out.append("field")
    if re.search(r"/:(%s)\b" % alt, body):
        out.append("path-param")
    if re.search(r"(?m)^\s*[$]\s*(%s)\b" % alt, body) or re.search(r"(?<![.\w])(%s)\b(?!\s*[:(])" % alt, re.sub(r"(?m)^\s*(%s)\b" % alt, "", body)):
        out.append("variable")
    return out


def feed(cases):
    work = vf.scratch("verif-c18-")
    p = os.path.join(work, "cases.ndjson")
    vf.write_ndjson(p, cases)
    rc, txt = vf.go_test("cmd/glyph", ["harness_test.go", "fmt_test.go"], run="TestVerifFmt$", env={"VERIF_CASES": p, "VERIF_OUT": p + ".out"}, timeout=3000)
    res = vf.read_ndjson(p + ".out")
    summ = [x for x in res if x.get("summary")]
    if not summ or summ[0]["cases"] != len(cases):
        raise vf.InfraError("C18 driver failed rc=%s\n%s" % (rc, txt[-2500:]))
    return {x["id"]: x for x in res if "id" in x}


def judge(ck, c, o, seen, label, classes):
    rep = {"kind": "fmt-case", "text": c.get("text"), "bytes": c.get("bytes")}
    show = (c.get("text") or "")[:1200]
    def mm(sig, detail):
        if sig not in seen:
            seen.add(sig)
            ck.mismatch(sig, detail, replay=rep)
    if "panic" in o:
        mm("%s/panic/%s" % (label, o["panic"][:50]), {"source": show, "panic": o["panic"]})
        return
    if not o.get("idempotent", True):
        mm("%s/fmt-not-idempotent" % label, {"source": show, "fmt1": o.get("fmt1", "")[:800], "fmt2": o.get("fmt2", "")[:800]})
    if o.get("canon_ok") is False:
        mm("%s/fmt-differs-from-canonical-layout" % label, {"source": show, "fmt": o.get("fmt1", "")[:1200], "canonical": c.get("canon", "")[:1200]})
    if not o.get("accepted"):
        return
    if "fmt_tokens" in o:
        mm("%s/fmt-changes-tokens" % label, {"source": show, "what": o["fmt_tokens"]})
    bad = [k for k in ("expanded_tree", "roundtrip_tree") if k in o]
    if bad:
        if classes:
            for cl in classes[:1]:
                mm("expand/keyword-spelled-identifier/" + cl, {"source": show, "expanded": (o.get("expanded") or o.get("roundtrip") or "")[:1200], "what": o[bad[0]]})
        else:
            mm("%s/%s" % (label, "+".join(bad)), {"source": show, "what": {k: o[k] for k in bad}, "expanded": (o.get("expanded") or "")[:1200], "roundtrip": (o.get("roundtrip") or "")[:1200]})


def run(ck, tier, seed):
    quick = tier == "quick"
    ck.assumptions += [
        "SourceLayout.tla writes one program skeleton (type definition, route with path parameter, declarations, object/array literals over several lines, if/else, match with string patterns, comments) with identifiers, string literals and comments drawn from alphabets of lexical corner cases and with free layout (indentation, trailing blanks, blank-line runs, LF/CRLF, byte order mark, final newlines), and defines its canonical layout; `glyph fmt` must produce exactly that text",
        "sweep: every single choice varied over its whole alphabet from a plain base (exhaustive); random: TLC simulation draws all choices at once",
        "token sequences are compared with runs of NEWLINE tokens collapsed (blank lines are layout); syntax trees are compared without positions",
        "idempotence on arbitrary byte strings uses the malformation catalogue of binfmt/SourceMut.tla applied to these texts; the repository's own examples/*.glyph are put through the same checks",
    ]
    sweep, rnd = [], []
    r = vf.tlc("fmt", "SourceLayout", {"Mode": "sweep"}, invariants=["Balanced", "EmitInv"], case_sink=sweep.append, timeout=1800)
    ck.expect_model_ok("layout-sweep", r)
    ck.add_model("layout-sweep", r)
    ck.cov["exhaustive"] = True
    r = vf.tlc("fmt", "SourceLayout", {"Mode": "random"}, invariants=["EmitInv"], simulate={"num": 150 if quick else 3000, "depth": 100}, seed=seed, workers=1,
               case_sink=rnd.append, timeout=2400)
    ck.expect_model_ok("layout-random", r)
    uniq = {}
    for c in rnd:
        uniq.setdefault(c["text"], c)
    rnd = list(uniq.values())
    ck.cov["models"].append({"name": "layout-random", "mode": "simulate", "programs": len(rnd)})
    cases = [{"id": i, "text": c["text"], "canon": c["canon"], "choices": c["choices"]} for i, c in enumerate(sweep + rnd)]
    obs = feed(cases)
    seen = set()
    acc = 0
    for c in cases:
        o = obs[c["id"]]
        acc += 1 if o.get("accepted") else 0
        ck.cov["evaluations"] += 5
        judge(ck, c, o, seen, "sweep" if c["id"] < len(sweep) else "random", kw_classes(c["choices"]))
    ck.cov["traces_validated_against_impl"] += len(cases)
    ck.cov["distinct_nontrivial"] += len(cases)
    ck.cov["accepted_by_parser"] = acc
    if acc < len(cases) * 0.9:
        ck.mismatch("layout/parser-rejects-generated-programs", {"accepted": acc, "of": len(cases), "example": next((obs[c["id"]].get("reject") for c in cases if not obs[c["id"]].get("accepted")), None)})
    ck.sample({"text": cases[len(sweep) + 1]["text"][:600], "canonical": cases[len(sweep) + 1]["canon"][:600]})
    # the repository's own sources
    ex = []
    for f in sorted(glob.glob(os.path.join(vf.REPO, "examples", "**", "*.glyph"), recursive=True)):
        try:
            ex.append({"id": len(ex), "text": open(f, encoding="utf-8").read(), "file": os.path.relpath(f, vf.REPO)})
        except UnicodeDecodeError:
            pass
    # hand-written sources where one literal's ending decides how the following ones are read
    for t in EXTRA_SOURCES:
        ex.append({"id": len(ex), "text": t, "file": "(hand-written)"})
    obs = feed(ex)
    for c in ex:
        judge(ck, c, obs[c["id"]], seen, "examples", kw_in_text(c["text"]))
    ck.cov["traces_validated_against_impl"] += len(ex)
    ck.cov["examples"] = {"files": len(ex), "accepted": sum(1 for c in ex if obs[c["id"]].get("accepted"))}
    # idempotence on arbitrary byte strings
    bases = [cases[0]["text"].encode(), cases[len(sweep) + 2]["text"].encode()[:260], c10.HAND_SOURCES[1].encode()]
    work = vf.scratch("verif-c18-")
    lens = os.path.join(work, "lens.ndjson")
    vf.write_ndjson(lens, [{"id": i, "len": len(b)} for i, b in enumerate(bases)])
    muts = []
    r = vf.tlc("binfmt", "SourceMut", {}, invariants=["EmitInv"], extra_files={"lens.ndjson": lens}, case_sink=muts.append, timeout=1800, workers=8)
    ck.expect_model_ok("byte-strings", r)
    step = 1 if not quick else 3
    bcases = [{"id": i, "bytes": list(c10.apply_mut(bases[m["id"]], m["m"]))} for i, m in enumerate(muts[::step])]
    # byte strings in which a BOM is not the first thing in the file (fixed 0708b2f: removing what precedes it moved it to the start)
    for hb in HAND_BYTES:
        bcases.append({"id": len(bcases), "bytes": list(hb)})
    obs = feed(bcases)
    for c in bcases:
        o = obs[c["id"]]
        ck.cov["evaluations"] += 1
        if "panic" in o:
            judge(ck, c, o, seen, "bytes", [])
        elif not o.get("idempotent", True):
            if "bytes/fmt-not-idempotent" not in seen:
                seen.add("bytes/fmt-not-idempotent")
                ck.mismatch("bytes/fmt-not-idempotent", {"input": bytes(c["bytes"]).decode("utf-8", "replace")[:600], "fmt1": o.get("fmt1", "")[:600], "fmt2": o.get("fmt2", "")[:600]},
                            replay={"kind": "fmt-case", "bytes": c["bytes"]})
        elif o.get("accepted"):
            judge(ck, c, o, seen, "bytes", ["field", "variable", "path-param"] if any(k in o for k in ("expanded_tree", "roundtrip_tree")) and kw_in_text(bytes(c["bytes"]).decode("utf-8", "replace")) else [])
    ck.cov["traces_validated_against_impl"] += len(bcases)
    ck.cov["rule"] = "fmt output == the specification's canonical layout, idempotent, token-preserving; expand / compact round trip on syntax trees; generated programs, repository examples and mutated byte strings"


BOM = b"\xef\xbb\xbf"
HAND_BYTES = [
    b"\n" + BOM + b"\n\n$ x = 1\n",
    b"\n\n  \n" + BOM + b"@ GET /a {\n> 1\n}\n",
    BOM + BOM + b"> 1\n",
    b"  \t" + BOM + b"> 1\n",
    b"\r\n" + BOM + BOM + b"\n" + BOM + b"\n: T {\n a: int\n}\n",
    BOM + b"\n" + BOM + b"\n",
    b"\n" + BOM,
]


def replay(ck, data):
    run(ck, "quick", 1)
