"""C19 - a failed reload never takes the dev server down.  specs/reload/DevReload.tla"""
import json, os, random
import vf

INVS = ["ServesLastGood", "NeverDownAtRest", "LaterValidWins"]
DEFS = r'''
MaxEdits == %d
Bnd == nextId <= MaxEdits + 1 /\ Len(hist) <= 3 * MaxEdits
Emit == (hist' # hist) => PrintT(<<"CASE", ToJson(hist')>>)
\* replay configs: a reload is requested only right after an edit or another reload (serial), polls anywhere at rest
PollNext == (rel = <<>> /\ (Poll \/ Request \/ \E f \in FileStates : Edit(f)))
            \/ (\E i \in 1..Len(rel) : Acquire(i) \/ StopFirst(i) \/ Prepare(i) \/ StopOld(i) \/ ListenNew(i) \/ ListenRefused(i))
PollSpec == Init /\ [][PollNext]_vars
'''
FILES = {"v1", "v2", "parse", "sem", "empty", "missing"}


def consts(files=FILES, maxrel=1, dev=(), hist=True, refuse=False):
    return {"FileStates": set(files), "MaxReloads": maxrel, "Deviations": set(dev), "RecordHist": hist, "RefuseSwitch": refuse}


def gen(ck, name, files, maxedits, seed, limit, refuse=False):
    cases = []
    r = vf.tlc("reload", "DevReload", consts(files, refuse=refuse), spec="PollSpec", invariants=INVS, constraint="Bnd", view="View",
               action_constraint="Emit", defs=DEFS % maxedits, case_sink=cases.append, timeout=900)
    ck.expect_model_ok(name, r)
    ck.add_model(name, r)
    # keep behaviours that end in a completed reload or a poll, drop prefixes of kept ones
    uniq = {}
    for h in cases:
        if h[-1]["op"] in ("Reload", "Poll") and any(s["op"] == "Reload" for s in h):
            uniq.setdefault(json.dumps(h, sort_keys=True), h)
    cases = list(uniq.values())
    rnd = random.Random(seed)
    rnd.shuffle(cases)
    # longest first so that every edit kind after every state is exercised with few servers
    cases.sort(key=lambda h: -len(h))
    return cases[:limit]


def run(ck, tier, seed):
    quick = tier == "quick"
    ck.assumptions += [
        "file classes: valid v1/v2, parse error, semantic (redeclaration) error, empty (a valid program without routes: 404), deleted",
        "glyph dev: reload() is invoked synchronously in place of the 100 ms debounce timer; the fsnotify watcher itself is not exercised",
        "library manager: fake compiler/server at the CompilerInterface/ServerInterface boundary",
    ]
    # design: all interleavings of 2 concurrent reloads and edits, liveness
    r = vf.tlc("reload", "DevReload", consts(maxrel=2, hist=False), invariants=INVS, properties=["Completes"],
               constraint="Bnd", defs=DEFS % 3, timeout=900)
    ck.expect_model_ok("mc-2-reloads", r)
    ck.add_model("mc-2-reloads", r)
    cases = gen(ck, "serial-cover", FILES, 3 if quick else 4, seed, 40 if quick else 400)
    if not cases:
        raise vf.InfraError("no behaviours")
    ck.cov["distinct_nontrivial"] += len(cases)
    ck.sample({"behaviour": cases[0]})
    work = vf.scratch("verif-c19-")
    path = os.path.join(work, "cases.ndjson")
    vf.write_ndjson(path, [{"id": i, "hist": h} for i, h in enumerate(cases)])
    # (a) glyph dev
    out = path + ".out"
    rc, txt = vf.go_test("cmd/glyph", ["harness_test.go", "devreload_test.go"], run="TestVerifDevReload$",
                         env={"VERIF_CASES": path, "VERIF_OUT": out}, timeout=2400)
    res = vf.read_ndjson(out)
    summ = [x for x in res if x.get("summary")]
    if not summ or summ[0]["cases"] != len(cases):
        raise vf.InfraError("C19 dev driver failed rc=%s\n%s" % (rc, txt[-3000:]))
    ck.cov["traces_validated_against_impl"] += len(cases)
    ck.cov["evaluations"] += summ[0]["steps"]
    seen = set()
    for m in res:
        if m.get("summary"):
            continue
        h = cases[m["case"]]
        sig = "dev/%s/%s" % (m["what"].replace(" ", "-"), "failed-reload" if m.get("reloadOk") is False else "ok-reload")
        if sig in seen:
            continue
        seen.add(sig)
        ck.mismatch(sig, {"mismatch": m, "hist": h}, replay={"kind": "dev", "hist": h})
    # (b) library manager: serial replay + overlapping reloads as a trace.  Its server is a fake, so here the server may
    # also refuse a version (Reload returns an error): behaviours with refused switches are added for it
    refused = [h for h in gen(ck, "serial-cover-refused-switch", {"v1", "v2", "parse"}, 3 if quick else 4, seed, 60 if quick else 400, refuse=True)
               if any(s.get("refused") for s in h)]
    ck.cov["distinct_nontrivial"] += len(refused)
    cases = cases + refused
    vf.write_ndjson(path, [{"id": i, "hist": h} for i, h in enumerate(cases)])
    rmout = os.path.join(work, "rm.out")
    trace = os.path.join(work, "rm.trace")
    rc, txt = vf.go_test("pkg/hotreload", ["reload_test.go"], run="TestVerifReloadManager(Replay|Overlap)$", race=True,
                         env={"VERIF_CASES": path, "VERIF_RM_OUT": rmout, "VERIF_RM_TRACE": trace}, timeout=1200)
    if "DATA RACE" in txt:
        ck.mismatch("race/hotreload", {"output": txt[-3000:]})
    res = vf.read_ndjson(rmout)
    summ = [x for x in res if x.get("summary")]
    if not summ or summ[0]["cases"] != len(cases):
        raise vf.InfraError("C19 library driver failed rc=%s\n%s" % (rc, txt[-3000:]))
    ck.cov["traces_validated_against_impl"] += len(cases)
    for m in res:
        if m.get("summary"):
            continue
        ck.mismatch("library/%s" % m["op"], {"mismatch": m, "hist": cases[m["case"]]}, replay={"kind": "rm", "hist": cases[m["case"]]})
        break
    lines = vf.read_ndjson(trace)
    if not lines:
        raise vf.InfraError("no overlap trace")
    v = vf.validate_trace("reload", "DevReloadTrace", consts(maxrel=2, hist=False), trace, invariants=INVS)
    ck.cov["traces_validated_against_impl"] += sum(1 for ln in lines if ln["ev"] == "Reset")
    ck.cov["models"].append({"name": "trace-overlap", "mode": "trace-validation", "events": len(lines), "accepted": v["accepted"]})
    if not v["accepted"]:
        at = v["reject_at"]
        ck.mismatch("library/overlapping-reloads", {"reject_at": at, "line": lines[at - 1] if at and at <= len(lines) else None,
                                                   "before": lines[max(0, (at or 1) - 6):(at or 1) - 1], "violation": v["violation"]},
                    replay={"kind": "rm-overlap"})
    else:
        ck.sample({"overlap_trace": lines[:8]})
    ck.cov["rule"] = "serial edit/reload/poll behaviours (transition cover, bounded edits) replayed on a listening hotReloadManager with a background poller and on ReloadManager with fakes; overlapping reloads validated as traces"
