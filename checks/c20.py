"""C20 - the cache behaves as a bounded LRU map.  specs/cache/LruCache.tla"""
import json, os, random
import vf

INVS = ["TypeOK", "NoDup", "IndexMatchesList", "SizeAccounting", "CountBound", "BytesBound",
        "ValuesCarryKey"]
DEFS = r'''
MaxNowC == %d
SimDepth == %d
Bound == now <= MaxNowC
Emit == (hist' # hist) => PrintT(<<"CASE", ToJson(hist')>>)
SimEmit == (Len(hist) >= SimDepth) => PrintT(<<"CASE", ToJson(hist)>>)
'''

KEYS3 = {"a1", "a2", "b1"}
PK3 = {"a": {"a1", "a2"}, "b1": {"b1"}}
KEYS2 = {"a1", "b1"}
PK2 = {"a": {"a1"}, "b1": {"b1"}}


def consts(cap, maxsize, defttl, keys=KEYS3, pk=PK3, vals=(1, 2), sizes=(1, 2, 4), ttls=(-1, 0, 2),
           tagsets=(("t1",), ("t1", "t2")), dev=(), hist=True, ops=None):
    allops = {"Get", "Delete", "Set", "SetTags", "DelTag", "InvPrefix", "Clear", "Tick"}
    if ops is None:
        ops = allops if hist else allops | {"Cleanup"}
    return {"Keys": set(keys), "Vals": set(vals), "Sizes": set(sizes), "Cap": cap, "MaxSize": maxsize,
            "DefTTL": defttl, "TTLs": set(ttls), "TagSets": {frozenset(t) for t in tagsets},
            "KeyPrefixes": set(pk), "PrefixKeys": {k: set(v) for k, v in pk.items()},
            "Deviations": set(dev), "RecordHist": hist, "ApiOps": set(ops)}


# (name, consts kwargs, maxnow)  -- cover configs: complete transition cover is replayed
COVER_QUICK = [
    ("cap2-max3", dict(cap=2, maxsize=3, defttl=0, keys=KEYS2, pk=PK2, vals=(1,), ttls=(-1, 2), tagsets=(("t1",),)), 3),
    ("cap0", dict(cap=0, maxsize=3, defttl=0, keys=KEYS2, pk=PK2, vals=(1,), ttls=(-1,), tagsets=(("t1",),)), 0),
    ("cap1-nomax-defttl", dict(cap=1, maxsize=0, defttl=1, keys=KEYS2, pk=PK2, vals=(1, 2), ttls=(0, -1), tagsets=(("t1",),)), 2),
]
COVER_THOROUGH = COVER_QUICK + [
    ("k3-cap2-max3", dict(cap=2, maxsize=3, defttl=0, vals=(1,), ttls=(-1, 2), tagsets=(("t1",), ("t1", "t2"))), 3),
    ("k3-cap3-max6-defttl2", dict(cap=3, maxsize=6, defttl=2, vals=(1,), ttls=(0, -1), tagsets=(("t1",), ("t2",))), 3),
    ("k3-capneg", dict(cap=-1, maxsize=0, defttl=0, vals=(1,), ttls=(-1,), tagsets=(("t1",),)), 0),
]
# simulate configs: random walks
SIM = [
    ("sim-cap2-max3", dict(cap=2, maxsize=3, defttl=0), 6),
    ("sim-cap3-max5-ttl2", dict(cap=3, maxsize=5, defttl=2), 6),
    ("sim-cap1-max4", dict(cap=1, maxsize=4, defttl=0), 6),
    ("sim-cap2-nomax", dict(cap=2, maxsize=0, defttl=1), 6),
]
LIVE = [
    ("live-cap2-max3", dict(cap=2, maxsize=3, defttl=0, keys=KEYS2, pk=PK2, vals=(1,), ttls=(-1,), tagsets=(("t1",),), hist=False), 0),
    ("live-cap0", dict(cap=0, maxsize=3, defttl=0, keys=KEYS2, pk=PK2, vals=(1,), ttls=(-1,), tagsets=(("t1",),), hist=False), 0),
    ("live-cap1-max2", dict(cap=1, maxsize=2, defttl=0, keys=KEYS2, pk=PK2, vals=(1,), ttls=(-1,), tagsets=(("t1",),), hist=False), 0),
]


def cfg_of(kw):
    return {"Cap": kw["cap"], "MaxSize": kw["maxsize"], "DefTTL": kw["defttl"]}


def signature(m, case):
    st = case["hist"][m["step"]]
    cfg = case["cfg"]
    a = st.get("args", {})
    cls = []
    if st["op"] in ("Set", "SetTags"):
        if cfg["Cap"] <= 0:
            cls.append("cap<=0")
        if cfg["MaxSize"] > 0 and a.get("size", 0) > cfg["MaxSize"]:
            cls.append("size>max")
        prev = case["hist"][m["step"] - 1]["order"] if m["step"] > 0 else []
        cls.append("update" if a.get("k") in prev else "insert")
    return "%s/%s/%s" % (st["op"], m["field"], ",".join(cls))


def replay_cases(ck, name, path, ncases, idx):
    out = path + ".out"
    rc, txt = vf.go_test("pkg/cache", ["lru_test.go"], run="TestVerifLruReplay$", clock=["cache.go"],
                         env={"VERIF_CASES": path, "VERIF_OUT": out}, timeout=1800)
    res = vf.read_ndjson(out)
    summ = [r for r in res if r.get("summary")]
    if not summ or (summ[0]["cases"] != ncases and not summ[0].get("hangs")):
        raise vf.InfraError("replay driver did not finish (%s): rc=%s\n%s" % (name, rc, txt[-3000:]))
    ck.cov["traces_validated_against_impl"] += summ[0]["cases"]
    ck.cov["evaluations"] += summ[0]["steps"]
    seen_cases = set()
    for m in res:
        if m.get("summary") or m["case"] in seen_cases:
            continue
        seen_cases.add(m["case"])
        if len(seen_cases) > 50:
            break
        case = idx(m["case"])
        ck.mismatch(signature(m, case), {"model": name, "mismatch": m, "case": case},
                    replay={"kind": "lru-replay", "case": case})
    return summ[0]


def run(ck, tier, seed):
    rnd = random.Random(seed)
    work = vf.scratch("verif-c20-")
    ck.assumptions += [
        "virtual clock: time.Now()/time.Since() of pkg/cache/cache.go textually redirected (overlay, regenerated from the working tree on every run)",
        "value = string '<key>:<v>' padded to size*8 bytes; sizes are in units of 8 bytes",
        "reference choice: a Set whose value can never fit (size > MaxSize, or capacity <= 0) returns an error and leaves no entry for that key",
        "the 60 s janitor goroutine (Cleanup action) is model-checked only; its sweep cannot be triggered from outside",
    ]
    # 1. design model: exhaustive + liveness
    for name, kw, maxnow in LIVE:
        r = vf.tlc("cache", "LruCache", consts(**kw), invariants=INVS, properties=["EvictsLRU", "SetTerminates"],
                   constraint="Bound", defs=DEFS % (maxnow, 0), timeout=600)
        ck.expect_model_ok(name, r)
        ck.add_model(name, r)
    # 2. transition cover -> replay
    covers = COVER_QUICK if tier == "quick" else COVER_THOROUGH
    total_cases = 0
    for name, kw, maxnow in covers:
        path = os.path.join(work, name + ".ndjson")
        f = open(path, "w")
        n = [0]
        cfg = cfg_of(kw)
        offs = []

        def sink(h, f=f, n=n, cfg=cfg, offs=offs):
            offs.append(f.tell())
            f.write(json.dumps({"id": n[0], "cfg": cfg, "hist": h}, separators=(",", ":")) + "\n")
            n[0] += 1
        r = vf.tlc("cache", "LruCache", consts(**kw), invariants=INVS, properties=["EvictsLRU"],
                   constraint="Bound", view="View", action_constraint="Emit", defs=DEFS % (maxnow, 0),
                   case_sink=sink, timeout=1800, coverage=(tier == "thorough" and name == "cap2-max3"))
        f.close()
        ck.expect_model_ok(name, r)
        ck.add_model(name, r)
        if n[0] == 0:
            raise vf.InfraError("no behaviours emitted for " + name)

        def idx(i, path=path, offs=offs):
            with open(path) as fh:
                fh.seek(offs[i])
                return json.loads(fh.readline())
        s = replay_cases(ck, name, path, n[0], idx)
        total_cases += n[0]
        ck.sample({"model": name, "behaviour": idx(n[0] // 2)})
        ck.cov["distinct_nontrivial"] += n[0]
        os.unlink(path)
    ck.cov["exhaustive"] = True
    # 3. random walks on the larger configurations
    nsim = 300 if tier == "quick" else 5000
    depth = 12 if tier == "quick" else 16
    for name, kw, maxnow in SIM:
        path = os.path.join(work, name + ".ndjson")
        f = open(path, "w")
        n = [0]
        cfg = cfg_of(kw)
        offs = []
        seen = set()

        def sink(h, f=f, n=n, cfg=cfg, offs=offs, seen=seen):
            key = json.dumps(h, sort_keys=True)
            if key in seen:
                return
            seen.add(key)
            offs.append(f.tell())
            f.write(json.dumps({"id": n[0], "cfg": cfg, "hist": h}, separators=(",", ":")) + "\n")
            n[0] += 1
        r = vf.tlc("cache", "LruCache", consts(**kw), invariants=INVS + ["SimEmitInv"],
                   constraint="SimBound", defs=(DEFS % (maxnow, depth)) +
                   "SimEmitInv == SimEmit\nSimBound == Bound /\\ Len(hist) < SimDepth\n",
                   simulate={"num": nsim, "depth": depth * 4}, seed=seed + 17, workers=1,
                   case_sink=sink, timeout=900)
        f.close()
        ck.expect_model_ok(name, r)
        ck.cov["models"].append({"name": name, "mode": "simulate", "walks": n[0], "wall_s": round(r.wall, 1)})

        def idx(i, path=path, offs=offs):
            with open(path) as fh:
                fh.seek(offs[i])
                return json.loads(fh.readline())
        if n[0]:
            replay_cases(ck, name, path, n[0], idx)
            ck.cov["distinct_nontrivial"] += n[0]
            ck.sample({"model": name, "behaviour": idx(0)})
        os.unlink(path)
    record_and_validate(ck, tier, seed, work)
    ck.cov["rule"] = ("behaviours = one per transition of the bounded state graph (cover configs) plus de-duplicated random walks; "
                      "distinct_nontrivial counts distinct behaviours replayed on the real LRUCache")


REC_CFGS = [dict(cap=2, maxsize=3, defttl=0), dict(cap=3, maxsize=5, defttl=2), dict(cap=1, maxsize=4, defttl=0),
            dict(cap=2, maxsize=0, defttl=1)]


def record_and_validate(ck, tier, seed, work, corrupt=None):
    """I->M: concurrent stress with hooks under c.mu; TLC validates each recorded trace."""
    ntr = 6 if tier == "quick" else 40
    nops = 30 if tier == "quick" else 60
    total = 0
    for ci, kw in enumerate(REC_CFGS):
        out = os.path.join(work, "rec%d.ndjson" % ci)
        rc, txt = vf.go_test("pkg/cache", ["lru_test.go"], run="TestVerifLruRecord$", clock=["cache.go"], race=True,
                             env={"VERIF_OUT": out, "VERIF_SEED": str(seed * 7 + ci), "VERIF_NTRACES": str(ntr),
                                  "VERIF_NOPS": str(nops), "VERIF_NG": "4",
                                  "VERIF_CFGS": json.dumps([cfg_of(kw)])}, timeout=900)
        if "DATA RACE" in txt:
            ck.mismatch("race/pkg/cache", {"output": txt[-3000:]}, replay={"kind": "lru-record", "cfg": kw})
            continue
        lines = vf.read_ndjson(out)
        if rc != 0 or not lines:
            raise vf.InfraError("recorder failed rc=%s\n%s" % (rc, txt[-3000:]))
        for ln in lines:
            if ln["ev"] == "Reset" and ln.get("status") != "ok":
                ck.mismatch("concurrent/" + ("hang" if ln["status"] == "hang" else "fault"),
                            {"status": ln["status"], "cfg": kw}, replay={"kind": "lru-record", "cfg": kw})
        lines = [ln for ln in lines]
        if corrupt:
            corrupt(lines)
        vf.write_ndjson(out, lines)
        v = vf.validate_trace("cache", "LruCacheTrace", consts(**kw), out, invariants=INVS)
        ntraces = sum(1 for ln in lines if ln["ev"] == "Reset")
        total += ntraces
        ck.cov["models"].append({"name": "trace-cap%d-max%d" % (kw["cap"], kw["maxsize"]), "mode": "trace-validation",
                                 "traces": ntraces, "events": len(lines), "states": v["states"], "accepted": v["accepted"]})
        if not v["accepted"]:
            at = v["reject_at"]
            bad = lines[at - 1] if at and at <= len(lines) else None
            keep = os.path.join(vf.out_dir(), "replay", "C20-trace-%d-%d.ndjson" % (seed, ci))
            os.makedirs(os.path.dirname(keep), exist_ok=True)
            vf.write_ndjson(keep, lines[:at] if at else lines)
            ck.mismatch("trace/%s" % (bad["ev"] if bad else v["violation"]),
                        {"cfg": kw, "reject_at": at, "line": bad, "violation": v["violation"], "trace": keep},
                        replay={"kind": "lru-trace", "cfg": kw, "trace": keep})
        else:
            ck.sample({"trace_events": lines[1:6]}, limit=7)
    ck.cov["traces_validated_against_impl"] += total
    return total


def selftest(seed):
    """Binding demonstration: a recorded trace with one corrupted field must be rejected."""
    ck = vf.Check("C20", "quick", seed)
    work = vf.scratch("verif-c20-")

    def corrupt(lines):
        for ln in lines:
            if ln["ev"] == "Get" and ln.get("hit"):
                ln["hit"] = False
                return
    record_and_validate(ck, "quick", seed, work, corrupt=corrupt)
    ok = any(sig.startswith("trace/") for sig, _, _ in ck.violations)
    print("selftest C20: corrupted trace %s" % ("rejected (good)" if ok else "ACCEPTED (binding broken)"))
    return 0 if ok else 2


def replay(path, seed):
    rp = json.load(open(path))
    rep = rp.get("replay") or {}
    ck = vf.Check("C20", "quick", seed)
    work = vf.scratch("verif-c20-")
    if rep.get("kind") == "lru-replay":
        p = os.path.join(work, "one.ndjson")
        case = dict(rep["case"], id=0)
        vf.write_ndjson(p, [case])
        replay_cases(ck, "replay", p, 1, lambda i: case)
    elif rep.get("kind") == "lru-trace":
        v = vf.validate_trace("cache", "LruCacheTrace", consts(**rep["cfg"]), rep["trace"], invariants=INVS)
        if not v["accepted"]:
            ck.mismatch("trace/replayed", {"reject_at": v["reject_at"]})
    else:
        record_and_validate(ck, "quick", seed, work)
    return ck.finish()
