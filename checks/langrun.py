"""Shared runner for C01-C04: programs -> TLC (GlyphCore) -> Go observations."""
import json, os, re, sys
sys.path.insert(0, os.path.join(os.path.dirname(os.path.abspath(__file__)), "..", "tools"))
import vf, langgen

MAXITER = 40
MAXFUEL = 4000


VM_KNOWN = ["VM_StringOrdering", "VM_MissingFieldError", "VM_MissingKeyNull", "VM_DupKeyFirst", "VM_ForVarFlat", "VM_LenObjError", "VM_IgnoresValidation"]


def evaluate(progs, timeout=3000, dev=()):
    """returns {id: {"src":..., "out":...}} computed by TLC from specs/lang/GlyphCore.tla"""
    work = vf.scratch("verif-lang-")
    path = os.path.join(work, "progs.ndjson")
    vf.write_ndjson(path, [{"id": p["id"], "body": p["body"], "vars": p["vars"], "funcs": p.get("funcs", []), "consts": p.get("consts", [])} for p in progs])
    cases = {}

    def sink(c):
        cases[c["id"]] = c
    r = vf.tlc("lang", "GlyphCore", {"MaxIter": MAXITER, "MaxFuel": MAXFUEL, "KeyOrder": list(langgen.KEYS), "Deviations": set(dev)},
               invariants=["Total", "EmitInv"], extra_files={"progs.ndjson": path}, case_sink=sink, timeout=timeout, heap="24g")
    if not r.ok:
        raise vf.InfraError("GlyphCore evaluation failed: %s %s\n%s" % (r.violation, r.error, r.out[-3000:]))
    if len(cases) != len(progs):
        raise vf.InfraError("GlyphCore evaluated %d of %d programs\n%s" % (len(cases), len(progs), r.out[-2000:]))
    return cases, r


def observe(progs, cases, timeout=3000, hang=False, race=False, env=None):
    """run every program on every engine; returns {id: observation record}"""
    work = vf.scratch("verif-lang-")
    path = os.path.join(work, "cases.ndjson")
    items = []
    skipped = {}
    for p in progs:
        c = cases[p["id"]]
        if c["out"]["kind"] == "toobig":
            # grows a value beyond any bound (doubling in a loop): not run - the engines put no bound on the memory of
            # an evaluation and the machine would be the one to find out (see the C04 memory probe)
            skipped[p["id"]] = {"id": p["id"], "skipped": "toobig"}
            continue
        kind = c["out"]["kind"] + ("-" + c["out"]["class"] if c["out"].get("class") == "limit" else "")
        if c["out"]["kind"] == "unrep":
            kind = "error-limit"     # outcome unknown to the model: may not terminate either
        items.append({"id": p["id"], "src": c["src"], "pre": c.get("pre", ""), "vars": p["vars"], "tags": p["tags"], "kind": kind})
    out = path + ".out"
    hout = path + ".hang"
    run = "TestVerifLangRun$" if not hang else "TestVerifLang(Run|Hang)$"
    obs, crashed, remaining, txt = {}, {}, items, ""
    for attempt in range(9):
        vf.write_ndjson(path, remaining)
        for f in (out, hout):
            if os.path.exists(f):
                os.remove(f)
        rc, txt = vf.go_test("cmd/glyph", ["harness_test.go", "lang_test.go"], run=run,
                             env=dict({"VERIF_CASES": path, "VERIF_OUT": out, "VERIF_HANG_OUT": hout}, **(env or {})), timeout=timeout, race=race)
        observe.last_output = txt
        res = vf.read_ndjson(out)
        summ = [x for x in res if x.get("summary")]
        obs.update({x["id"]: x for x in res if not x.get("summary")})
        if summ and summ[0]["cases"] == len(remaining):
            break
        # the test binary died.  If the Go runtime says why (fatal error: stack overflow, an unrecovered panic, out of
        # memory) the program it was running took the process down: that is an observation about the code under test.
        # The results are written one by one, so the program is the first one without a record.
        m = re.search(r"^(fatal error: [^\n]*|panic: (?!test timed out)[^\n]*|runtime: goroutine stack exceeds[^\n]*)", txt, re.M)
        done = {x["id"] for x in res if not x.get("summary")}
        rest = [it for it in remaining if it["id"] not in done]
        if not m or not rest:
            raise vf.InfraError("language driver failed rc=%s\n%s" % (rc, txt[-3000:]))
        i = txt.find(m.group(1))
        crashed[rest[0]["id"]] = {"id": rest[0]["id"], "crash": m.group(1)[:160], "excerpt": txt[max(0, i - 300):i + 2500]}
        remaining = rest[1:]
        if attempt == 8:
            # eight programs took the process down: enough said; the rest of the corpus is not run
            skipped.update({it["id"]: {"id": it["id"], "skipped": "after-crashes"} for it in remaining})
            break
    obs.update(crashed)
    obs.update(skipped)
    return obs, (vf.read_ndjson(hout) if hang else [])


def norm(v):
    """tagged value -> comparable python value (object fields order-insensitive)"""
    k = v.get("k")
    if k == "arr":
        return ("arr", tuple(norm(e) for e in v["e"]))
    if k == "obj":
        return ("obj", tuple(sorted((f["name"], norm(f["v"])) for f in v["f"])))
    if k == "float":
        if v.get("sp") == "nan":
            return ("float", "NaN")
        return ("float", v.get("q", v.get("x")))
    if k == "int" and v.get("sp") == "big":
        return ("int", int(v["s"]))
    if k == "null":
        return ("null",)
    return (k, v.get("v"))


def show(v):
    k = v.get("k")
    if k == "arr":
        return "[" + ", ".join(show(e) for e in v["e"]) + "]"
    if k == "obj":
        return "{" + ", ".join("%s: %s" % (f["name"], show(f["v"])) for f in v["f"]) + "}"
    if k == "float":
        return ("%g" % (v["q"] / 4.0) + ("" if (v["q"] % 4) else ".0")) if "q" in v else v.get("x", "?")
    if k == "null":
        return "null"
    if k == "str":
        return json.dumps(v["v"])
    if k == "bool":
        return "true" if v["v"] else "false"
    return str(v.get("v"))


def compare(spec, o):
    """spec outcome vs one engine observation -> None if they agree, else a short description"""
    if o is None:
        return "no observation"
    kind = o.get("kind")
    if kind == "hang" and (spec["kind"] == "unrep" or spec.get("class") == "limit"):
        return None      # bound only by the iteration limit: slow is not wrong (non-termination is judged by C04's probes)
    if kind in ("panic", "hang"):
        return "%s: %s" % (kind, o.get("msg", "")[:160])
    if spec["kind"] == "unrep":
        return None
    if spec["kind"] == "value":
        if kind != "value":
            return "want value %s, got %s (%s)" % (show(spec["v"]), kind, o.get("msg", "")[:140])
        if norm(o["v"]) != norm(spec["v"]):
            return "want %s, got %s" % (show(spec["v"]), show(o["v"]))
        got_st = 200
        if str(o.get("msg", "")).startswith("status "):
            got_st = int(o["msg"].split()[1])
        if spec.get("st", 200) != got_st:
            return "want status %s, got status %s" % (spec.get("st", 200), got_st)
        return None
    # spec says error
    if kind == "value":
        return "want an error (%s), got value %s" % (spec.get("class"), show(o["v"]))
    return None


# ---- structural predicates used to keep known-finding classes narrow ---------------------------------
def walk_stmts(stmts, depth=0):
    for s in stmts:
        yield s, depth
        k = s["s"]
        if k == "if":
            yield from walk_stmts(s["t"], depth + 1)
            yield from walk_stmts(s["f"], depth + 1)
        elif k in ("while", "for"):
            yield from walk_stmts(s["b"], depth + 1)
        elif k == "switch":
            for c in s["cases"]:
                yield from walk_stmts(c["b"], depth + 1)
            yield from walk_stmts(s["d"], depth + 1)


def walk_exprs(e):
    yield e
    k = e["e"]
    if k == "un":
        yield from walk_exprs(e["a"])
    elif k == "bin":
        yield from walk_exprs(e["a"])
        yield from walk_exprs(e["b"])
    elif k == "arr":
        for x in e["es"]:
            yield from walk_exprs(x)
    elif k == "obj":
        for f in e["fs"]:
            yield from walk_exprs(f["v"])
    elif k == "field":
        yield from walk_exprs(e["o"])
    elif k == "idx":
        yield from walk_exprs(e["o"])
        yield from walk_exprs(e["i"])
    elif k == "call":
        yield from walk_exprs(e["a"])
    elif k == "calln":
        for x in e["as"]:
            yield from walk_exprs(x)
    elif k in ("callh", "fcall"):
        for x in e["as"]:
            yield from walk_exprs(x)
    elif k == "pipe":
        yield from walk_exprs(e["x"])
        for x in e["as"]:
            yield from walk_exprs(x)
    elif k == "await":
        yield from walk_exprs(e["a"])
    elif k == "match":
        yield from walk_exprs(e["x"])
        for c in e["cases"]:
            if c["hasg"]:
                yield from walk_exprs(c["g"])
            yield from walk_exprs(c["b"])


def stmt_exprs(s):
    k = s["s"]
    if k in ("decl", "set", "expr", "ret", "check"):
        yield s["x"]
    elif k == "pset":
        yield s["x"]
        for a in s["path"]:
            if a["k"] == "i":
                yield a["x"]
    elif k in ("if", "while"):
        yield s["c"]
    elif k == "for":
        yield s["it"]
    elif k == "switch":
        yield s["x"]
        for c in s["cases"]:
            yield c["v"]


def all_exprs(p):
    for s, _ in walk_stmts(p["body"]):
        for x in stmt_exprs(s):
            yield from walk_exprs(x)


def static_redeclare(p):
    """two `$` declarations of one name in the same block: the compiler rejects the program"""
    def block(stmts, outer):
        seen = set()
        for s in stmts:
            if s["s"] == "decl":
                if s["n"] in seen or s["n"] in outer:
                    return True
                seen.add(s["n"])
            k = s["s"]
            subs = []
            if k == "if":
                subs = [s["t"], s["f"]]
            elif k in ("while",):
                subs = [s["b"]]
            elif k == "for":
                subs = [s["b"]]
            elif k == "switch":
                subs = [c["b"] for c in s["cases"]] + [s["d"]]
            for b in subs:
                if block(b, set()):
                    return True
        return False
    return block(p["body"], {v["n"] for v in p["vars"]})


def leak_prone(p):
    """a variable is assigned inside a nested block (so flow-insensitive facts about it can be wrong)"""
    return any(d > 0 and s["s"] in ("decl", "set") for s, d in walk_stmts(p["body"]))


def identity_prone(p):
    """the program contains a binary operator and a literal that is an identity / absorbing element
    (0, 1, 0.0, 1.0, true, false) - directly or through a variable the optimizer propagates - or an
    operator applied to two identical operands: the patterns rewritten without looking at types"""
    has_bin = False
    has_lit = False
    for e in all_exprs(p):
        if e["e"] == "bin":
            has_bin = True
            if e["op"] in ("-", "/", "%", "==", "!=", "<", "<=", ">", ">=") and json.dumps(e["a"], sort_keys=True) == json.dumps(e["b"], sort_keys=True):
                return True
        if e["e"] == "lit":
            v = e["v"]
            if (v["k"] == "int" and v["v"] in (0, 1)) or (v["k"] == "float" and v["q"] in (0, 4)) or v["k"] == "bool":
                has_lit = True
    return has_bin and has_lit


def stale_prone(p, aggressive):
    """a copy `t = s` (or, with CSE, an expression over s remembered as a variable) followed anywhere
    by an assignment to s: the optimizer keeps the remembered fact after its source changed"""
    assigned = set()
    for st, _ in walk_stmts(p["body"]):
        if st["s"] == "set":
            assigned.add(st["n"])
        if st["s"] == "for":
            assigned.add(st["v"])
            if st.get("k"):
                assigned.add(st["k"])
    for st, _ in walk_stmts(p["body"]):
        if st["s"] in ("decl", "set"):
            x = st["x"]
            if x["e"] == "var" and x["n"] in assigned:
                return True
            if aggressive and x["e"] != "var" and any(e["e"] == "var" and e["n"] in assigned for e in walk_exprs(x)):
                return True
    return False


def unreached_semantic(p):
    """the program contains a construct the compiler rejects up front although execution may never
    reach it: an assignment to a name declared nowhere, or break/continue outside any loop"""
    declared = {v["n"] for v in p.get("vars", [])} | {"query", "input", "headers"}
    for st, _ in walk_stmts(p["body"]):
        if st["s"] == "decl":
            declared.add(st["n"])
        if st["s"] == "for":
            declared.add(st["v"])
            if st.get("k"):
                declared.add(st["k"])
    if any(st["s"] == "set" and st["n"] not in declared for st, _ in walk_stmts(p["body"])):
        return True

    def outside(stmts, in_loop):
        for st in stmts:
            k = st["s"]
            if k in ("break", "continue") and not in_loop:
                return True
            if k == "if" and (outside(st["t"], in_loop) or outside(st["f"], in_loop)):
                return True
            if k in ("while", "for") and outside(st["b"], True):
                return True
            if k == "switch" and (any(outside(c["b"], in_loop) for c in st["cases"]) or outside(st["d"], in_loop)):
                return True
        return False
    return outside(p["body"], False)


def decl_in_branch(p):
    return any(d > 0 and s["s"] == "decl" for s, d in walk_stmts(p["body"]))


def same_obs(a, b):
    if a is None or b is None:
        return a is b
    if a["kind"] != b["kind"]:
        return False
    if a["kind"] == "value":
        return norm(a["v"]) == norm(b["v"])
    return True


def number_type_only(a, b):
    """two tagged values equal except that some number is int in one and float in the other"""
    def strip(v):
        k = v.get("k")
        if k == "arr":
            return ("arr", tuple(strip(e) for e in v["e"]))
        if k == "obj":
            return ("obj", tuple(sorted((f["name"], strip(f["v"])) for f in v["f"])))
        if k == "int":
            return ("num", v["v"] * 4)
        if k == "float":
            return ("num", v.get("q", v.get("x")))
        if k == "null":
            return ("null",)
        return (k, v.get("v"))
    return strip(a) == strip(b)


_CACHE = {}


class _R:
    """what Check.add_model needs of a TLC result, restorable from the disk cache"""
    def __init__(self, d):
        self.__dict__.update(d)


def _r_dict(r):
    return {"distinct": r.distinct, "generated": r.generated, "depth": r.depth, "wall": r.wall, "coverage": getattr(r, "coverage", None), "ok": True,
            "violation": None, "error": None}


def _state_key(tier, seed, hang):
    """identifies everything the pipeline's result depends on: the Go sources of /repo's working tree, the machinery
    under /verif that produces it, tier and seed"""
    import hashlib
    h = hashlib.sha256()
    h.update(repr((tier, seed, hang)).encode())
    for root in (os.path.join(vf.REPO, "pkg"), os.path.join(vf.REPO, "cmd")):
        for dp, dn, fn in sorted(os.walk(root)):
            dn.sort()
            for f in sorted(fn):
                if f.endswith(".go"):
                    fp = os.path.join(dp, f)
                    h.update(fp.encode())
                    h.update(open(fp, "rb").read())
    for f in ("go.mod", "go.sum"):
        fp = os.path.join(vf.REPO, f)
        if os.path.exists(fp):
            h.update(open(fp, "rb").read())
    for rel in ("specs/lang/GlyphCore.tla", "tools/langgen.py", "tools/vf.py", "checks/langrun.py", "inject/cmd/glyph/lang_test.go", "inject/cmd/glyph/harness_test.go"):
        h.update(open(os.path.join(vf.ROOT, rel), "rb").read())
    return h.hexdigest()[:32]


def pipeline(tier, seed, hang=False):
    """programs, design outcomes, VM-as-is outcomes, observations.  The four language checks (C01-C04) evaluate the same
    corpus on the same engines; the result is kept per process and, keyed by the exact state of /repo's sources and of
    this machinery, for a few hours on disk (under /verif/.scratch, never needed: a miss recomputes)"""
    import gzip, time
    key = (tier, seed, hang)
    if key in _CACHE:
        return _CACHE[key]
    cdir = os.path.join(vf.ROOT, ".scratch", "langcache")
    os.makedirs(cdir, exist_ok=True)
    use_disk = os.environ.get("VERIF_NO_CACHE") != "1"
    for want_hang in ((hang, True) if not hang else (True,)):
        path = os.path.join(cdir, _state_key(tier, seed, want_hang) + ".json.gz")
        if use_disk and os.path.exists(path) and time.time() - os.path.getmtime(path) < 6 * 3600:
            try:
                d = json.load(gzip.open(path, "rt"))
                conv = lambda m: {int(k): v for k, v in m.items()}
                _CACHE[key] = (d["progs"], conv(d["cases"]), conv(d["casesA"]), conv(d["obs"]), d["hangobs"], _R(d["r1"]), _R(d["r2"]))
                return _CACHE[key]
            except Exception:
                pass
    progs = langgen.all_programs(tier, seed)
    cases, r1 = evaluate(progs)
    casesA, r2 = evaluate(progs, dev=VM_KNOWN)
    obs, hangobs = observe(progs, cases, hang=hang)
    _CACHE[key] = (progs, cases, casesA, obs, hangobs, r1, r2)
    if use_disk:
        path = os.path.join(cdir, _state_key(tier, seed, hang) + ".json.gz")
        tmp = path + ".%d.tmp" % os.getpid()
        try:
            json.dump({"progs": progs, "cases": cases, "casesA": casesA, "obs": obs, "hangobs": hangobs, "r1": _r_dict(r1), "r2": _r_dict(r2)}, gzip.open(tmp, "wt"))
            os.replace(tmp, path)
            for f in os.listdir(cdir):       # keep the directory small
                fp = os.path.join(cdir, f)
                if time.time() - os.path.getmtime(fp) > 6 * 3600:
                    os.remove(fp)
        except Exception:
            pass
    return _CACHE[key]


def blame(progs_subset, design):
    """for programs whose VM outcome is explained by the pinned departures: which single departures
    change the outcome of each program (one TLC evaluation per departure over the subset)"""
    out = {p["id"]: [] for p in progs_subset}
    if not progs_subset:
        return out
    for d in VM_KNOWN:
        cs, _ = evaluate(progs_subset, dev=(d,))
        for p in progs_subset:
            a, b = cs[p["id"]]["out"], design[p["id"]]["out"]
            if json.dumps(a, sort_keys=True) != json.dumps(b, sort_keys=True):
                out[p["id"]].append(d)
    return out
