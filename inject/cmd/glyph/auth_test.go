//go:build verif

package main

// C06 driver: specs/auth/AuthGate.tla behaviours replayed through the real route wiring
// (directive -> middleware -> dispatcher) in both execution modes, plus a concurrent
// recorder for trace validation of the lockout state machine.

import (
	"encoding/json"
	"fmt"
	"net"
	"os"
	"strconv"
	"strings"
	"sync"
	"sync/atomic"
	"testing"
	"time"

	"github.com/glyphlang/glyph/pkg/server"
)

type auLine struct {
	Scheme string `json:"scheme"`
	Tok    string `json:"tok"`
}
type auShape struct {
	Authz []auLine `json:"authz"`
	Xkey  string   `json:"xkey"`
}
type auStep struct {
	Op     string  `json:"op"`
	C      string  `json:"c"`
	Shape  auShape `json:"shape"`
	Fwd    string  `json:"fwd"`
	Status int     `json:"status"`
	Ran    bool    `json:"ran"`
	Now    int     `json:"now"`
	D      int     `json:"d"`
}
type auCfg struct {
	AuthType string `json:"AuthType"`
	EnvClass string `json:"EnvClass"`
	Interp   bool   `json:"interp"`
	TickSec  int    `json:"tickSec"`
}
type auCase struct {
	ID   int      `json:"id"`
	Cfg  auCfg    `json:"cfg"`
	Hist []auStep `json:"hist"`
}

const auSecret = "s3cr3t-Tok"
const auKey1, auKey2 = "k1-AAA", "k2-BBB"

func auEnv(cfg auCfg) (secret string) {
	os.Unsetenv(envJWTSecret)
	os.Unsetenv(envAPIKeys)
	secret = auSecret
	if cfg.AuthType == "apikey" {
		secret = auKey1
		switch cfg.EnvClass {
		case "blank":
			os.Setenv(envAPIKeys, "   ")
		case "value":
			os.Setenv(envAPIKeys, auKey1+","+auKey2)
		case "padded":
			os.Setenv(envAPIKeys, " "+auKey1+" , ,"+auKey2+" ")
		case "separators":
			os.Setenv(envAPIKeys, " , ,")
		}
		return
	}
	switch cfg.EnvClass {
	case "blank":
		os.Setenv(envJWTSecret, "  \t ")
	case "value":
		os.Setenv(envJWTSecret, auSecret)
	case "padded":
		os.Setenv(envJWTSecret, "  "+auSecret+" ")
	case "separators":
		os.Setenv(envJWTSecret, ",")
		secret = ","
	}
	return
}

func auTok(name, secret string) string {
	switch name {
	case "secret":
		return secret
	case "key2":
		return auKey2
	case "padded":
		return "  " + secret + " "
	case "upper":
		return strings.ToUpper(secret)
	case "prefix":
		return secret[:len(secret)-1]
	case "longer":
		return secret + "x"
	case "wrong":
		return "nope-nope"
	case "empty":
		return ""
	}
	return name
}

func auHeaders(sh auShape, secret string) map[string][]string {
	h := map[string][]string{}
	for _, ln := range sh.Authz {
		h["Authorization"] = append(h["Authorization"], ln.Scheme+auTok(ln.Tok, secret))
	}
	if sh.Xkey != "" && sh.Xkey != "absent" {
		h["X-Api-Key"] = []string{auTok(sh.Xkey, secret)}
	}
	return h
}

func auSource(authType string) string {
	dir := ""
	if authType != "none" {
		t := authType
		if t == "other" {
			t = "basic"
		}
		dir = "  + auth(" + t + ")\n"
	}
	return "@ GET /guarded {\n" + dir + "  > {ran: true}\n}\n\n@ GET /open {\n  > {ran: true, open: true}\n}\n"
}

var auHosts = map[string]string{"A": "10.0.0.1", "B": "2001:db8::b"}
var auPort int64 = 1000

func auRemote(c string) string {
	return net.JoinHostPort(auHosts[c], strconv.FormatInt(atomic.AddInt64(&auPort, 1)%50000+1024, 10))
}

func TestVerifAuthReplay(t *testing.T) {
	sc, enc, done := vOpenIO(t)
	defer done()
	defer vQuiet()()
	base := time.Unix(1700000000, 0)
	ncases, nsteps, nmis := 0, 0, 0
	for sc.Scan() {
		var cs auCase
		if err := json.Unmarshal(sc.Bytes(), &cs); err != nil {
			t.Fatalf("bad case %v", err)
		}
		ncases++
		secret := auEnv(cs.Cfg)
		server.VerifSetClock(base)
		srv, err := vServe(auSource(cs.Cfg.AuthType), cs.Cfg.Interp)
		if err != nil {
			t.Fatalf("serve: %v", err)
		}
		tick := time.Duration(cs.Cfg.TickSec) * time.Second
		k := 0
		for i, st := range cs.Hist {
			nsteps++
			if st.Op != "Req" {
				continue
			}
			k++
			server.VerifSetClock(base.Add(time.Duration(st.Now)*tick + time.Duration(k)*time.Millisecond))
			hd := auHeaders(st.Shape, secret)
			if st.Fwd != "" {
				hd["X-Forwarded-For"] = []string{auHosts[st.Fwd] + ", 198.51.100.7"}
				hd["X-Real-Ip"] = []string{auHosts[st.Fwd]}
			}
			r := srv.do("GET", "/guarded", hd, nil, auRemote(st.C))
			ran := r.Status == 200 && vHasKey(r.JSON, "ran")
			if r.Panic != nil || r.Status != st.Status || ran != st.Ran {
				nmis++
				enc.Encode(map[string]interface{}{"case": cs.ID, "step": i, "want": fmt.Sprint(st.Status, "/ran=", st.Ran),
					"got": fmt.Sprint(r.Status, "/ran=", ran, "/panic=", r.Panic), "body": r.Body})
				break
			}
			// the open route is never affected
			o := srv.do("GET", "/open", auHeaders(st.Shape, secret), nil, auRemote(st.C))
			if o.Status != 200 || !vHasKey(o.JSON, "open") {
				nmis++
				enc.Encode(map[string]interface{}{"case": cs.ID, "step": i, "want": "open route 200", "got": fmt.Sprint(o.Status), "body": o.Body, "open": true})
				break
			}
		}
	}
	enc.Encode(map[string]int{"summary": 1, "cases": ncases, "steps": nsteps, "mismatches": nmis})
}

// Stateless pass: every shape (including the ones whose outcome the property leaves open)
// on a fresh server; reports what the code did.
func TestVerifAuthShapes(t *testing.T) {
	sc, enc, done := vOpenIO(t)
	defer done()
	defer vQuiet()()
	for sc.Scan() {
		var q struct {
			Cfg    auCfg     `json:"cfg"`
			Shapes []auShape `json:"shapes"`
		}
		json.Unmarshal(sc.Bytes(), &q)
		secret := auEnv(q.Cfg)
		for i, sh := range q.Shapes {
			server.VerifSetClock(time.Unix(1700000000, 0))
			srv, err := vServe(auSource(q.Cfg.AuthType), q.Cfg.Interp)
			if err != nil {
				t.Fatal(err)
			}
			r := srv.do("GET", "/guarded", auHeaders(sh, secret), nil, auRemote("A"))
			ran := r.Status == 200 && vHasKey(r.JSON, "ran")
			enc.Encode(map[string]interface{}{"cfg": q.Cfg, "i": i, "status": r.Status, "ran": ran, "panic": fmt.Sprint(r.Panic)})
		}
	}
}

// I->M: concurrent requests of two clients at frozen instants; lockout events under the mutex.
func TestVerifAuthRecord(t *testing.T) {
	defer vQuiet()()
	outf, _ := os.Create(os.Getenv("VERIF_REC_OUT"))
	defer outf.Close()
	enc := json.NewEncoder(outf)
	seed, _ := strconv.Atoi(os.Getenv("VERIF_SEED"))
	ntr, _ := strconv.Atoi(os.Getenv("VERIF_NTRACES"))
	if ntr == 0 {
		ntr = 4
	}
	cfg := auCfg{AuthType: "jwt", EnvClass: "value", TickSec: 30}
	secret := auEnv(cfg)
	base := time.Unix(1700000000, 0)
	rev := map[string]string{}
	for k, v := range auHosts {
		rev[v] = k
	}
	defer func() { server.VerifHook = nil }()
	for tr := 0; tr < ntr; tr++ {
		server.VerifSetClock(base)
		cfg.Interp = tr%2 == 1
		srv, err := vServe(auSource("jwt"), cfg.Interp)
		if err != nil {
			t.Fatal(err)
		}
		var events []map[string]interface{}
		now := 0
		server.VerifHook = func(name string, a ...interface{}) {
			e := map[string]interface{}{"ev": name, "c": rev[a[0].(string)], "now": now}
			if _, known := rev[a[0].(string)]; !known {
				e["identity"] = a[0].(string) // not the address of any client of the driver: reported as it is
			}
			switch name {
			case "AuthCheck":
				e["locked"] = a[1].(bool)
				e["failures"] = a[2].(int)
			case "AuthFail":
				e["failures"] = a[1].(int)
				d := a[2].(time.Duration)
				if d < 0 {
					d = 0
				}
				e["lockTicks"] = int(d / (20 * time.Second))
			case "AuthOK":
			default:
				return
			}
			events = append(events, e)
		}
		enc.Encode(map[string]interface{}{"ev": "Reset"})
		var bad []string
		var bmu sync.Mutex
		for round := 0; round < 8; round++ {
			var wg sync.WaitGroup
			for g := 0; g < 6; g++ {
				wg.Add(1)
				go func(g int) {
					defer wg.Done()
					c := "A"
					if (g+tr)%4 == 3 {
						c = "B"
					}
					valid := (g*7+round*3+seed+tr)%3 == 0
					sh := auShape{Authz: []auLine{{"Bearer ", "wrong"}}, Xkey: "absent"}
					if valid {
						sh.Authz[0].Tok = "secret"
					}
					r := srv.do("GET", "/guarded", auHeaders(sh, secret), nil, auRemote(c))
					ran := r.Status == 200 && vHasKey(r.JSON, "ran")
					msg := ""
					if ran && !valid {
						msg = "body ran without a valid credential"
					} else if valid && !ran && r.Status != 429 {
						msg = fmt.Sprint("valid credential refused with ", r.Status)
					} else if r.Panic != nil {
						msg = fmt.Sprint("panic ", r.Panic)
					}
					if msg != "" {
						bmu.Lock()
						bad = append(bad, msg)
						bmu.Unlock()
					}
				}(g)
			}
			wg.Wait()
			adv := []int{0, 2, 4, 10, 46}[(round+seed+tr)%5]
			if adv > 0 {
				now += adv
				events = append(events, map[string]interface{}{"ev": "Advance", "now": now})
			}
			server.VerifSetClock(base.Add(time.Duration(now)*20*time.Second + time.Duration(round+1)*time.Millisecond))
		}
		for _, e := range events {
			enc.Encode(e)
		}
		for _, b := range bad {
			enc.Encode(map[string]interface{}{"ev": "BAD", "what": b})
		}
	}
}
