//go:build verif

package main

// C07 driver: jobs decided by specs/contract/TypeContract.tla are sent as HTTP requests to one
// module (every type definition, input route, query route and return route) served in both
// execution modes; the status class, whether the body ran and the echoed data are compared.

import (
	"encoding/json"
	"fmt"
	"math"
	"net/url"
	"os"
	"reflect"
	"strings"
	"testing"
)

type ctVal struct {
	K string      `json:"k"`
	V interface{} `json:"v"`
	E []ctVal     `json:"e"`
	F []struct {
		Name string `json:"name"`
		V    ctVal  `json:"v"`
	} `json:"f"`
}

func (v ctVal) goValue() interface{} {
	switch v.K {
	case "null":
		return nil
	case "int":
		return v.V
	case "frac":
		return 1.5
	case "str", "bool":
		return v.V
	case "arr":
		out := []interface{}{}
		for _, e := range v.E {
			out = append(out, e.goValue())
		}
		return out
	case "obj":
		out := map[string]interface{}{}
		for _, f := range v.F {
			out[f.Name] = f.V.goValue()
		}
		return out
	}
	return nil
}

type ctLex struct {
	Text string `json:"text"`
}
type ctCase struct {
	ID  int `json:"id"`
	Job struct {
		Kind string `json:"kind"`
		Type string `json:"type"`
		Body struct {
			Class string `json:"class"`
			V     ctVal  `json:"v"`
		} `json:"body"`
		Qi   int `json:"qi"`
		Decl struct {
			T   string `json:"t"`
			Def ctVal  `json:"def"`
			Arr bool   `json:"arr"`
		} `json:"decl"`
		Raw []ctLex `json:"raw"`
		Ri  int     `json:"ri"`
		St  int     `json:"st"`
		V   ctVal   `json:"v"`
	} `json:"job"`
	Decision struct {
		D     string `json:"d"`
		Input ctVal  `json:"input"`
		Alt   ctVal  `json:"alt"`
		Val   string `json:"val"`
	} `json:"decision"`
}

func ctNorm(x interface{}) interface{} {
	b, _ := json.Marshal(x)
	var out interface{}
	json.Unmarshal(b, &out)
	return out
}

func TestVerifContractReplay(t *testing.T) {
	sc, enc, done := vOpenIO(t)
	defer done()
	defer vQuiet()()
	srcb, err := os.ReadFile(os.Getenv("VERIF_SOURCE"))
	if err != nil {
		t.Fatal(err)
	}
	var servers [2]*vServer
	for mode := 0; mode < 2; mode++ {
		s, err := vServe(string(srcb), mode == 1)
		if err != nil {
			t.Fatalf("serve mode %d: %v", mode, err)
		}
		servers[mode] = s
	}
	ncases, nmis := 0, 0
	for sc.Scan() {
		var cs ctCase
		if err := json.Unmarshal(sc.Bytes(), &cs); err != nil {
			t.Fatalf("bad case %v", err)
		}
		for mode := 0; mode < 2; mode++ {
			ncases++
			modeName := []string{"compiled", "interpreted"}[mode]
			if mode == 0 && !servers[0].compiled {
				modeName = "compiled-fellback"
			}
			var r vResp
			j := cs.Job
			switch j.Kind {
			case "input":
				hdr := map[string][]string{"Content-Type": {"application/json"}}
				var body string
				switch j.Body.Class {
				case "object":
					b, _ := json.Marshal(j.Body.V.goValue())
					body = string(b)
				case "absent":
					hdr = nil
				case "empty":
					body = ""
				case "malformed":
					body = `{"a_int": 5,`
				case "array":
					body = `[1, 2]`
				case "scalar":
					body = `"just a string"`
				case "null":
					body = `null`
				case "notjson":
					hdr = map[string][]string{"Content-Type": {"text/plain"}}
					body = `{"a_int": 5}`
				}
				if j.Body.Class == "absent" {
					r = servers[mode].do("POST", "/t/"+j.Type, hdr, nil, "")
				} else {
					r = servers[mode].do("POST", "/t/"+j.Type, hdr, strings.NewReader(body), "")
				}
			case "query":
				q := url.Values{}
				for _, lx := range j.Raw {
					q.Add("p", lx.Text)
				}
				target := fmt.Sprintf("/q/q%d", j.Qi-1)
				if len(j.Raw) > 0 {
					target += "?" + q.Encode()
				}
				r = servers[mode].do("GET", target, nil, nil, "")
			case "return":
				r = servers[mode].do("GET", fmt.Sprintf("/ret/r%d", j.Ri-1), nil, nil, "")
			}
			m, _ := r.JSON.(map[string]interface{})
			ran := r.Status == 200 && m != nil && m["ran"] == true
			bad, kind := "", ""
			report := func(k, s string) {
				if bad == "" {
					kind, bad = k, s
				}
			}
			if r.Panic != nil {
				report("panic", fmt.Sprint("panic: ", r.Panic))
			}
			switch j.Kind {
			case "input":
				switch cs.Decision.D {
				case "run":
					if !ran {
						report("conforming-rejected", fmt.Sprintf("status %d body %s", r.Status, strings.TrimSpace(r.Body)))
					} else {
						want := ctNorm(cs.Decision.Input.goValue())
						if !reflect.DeepEqual(ctNorm(m["input"]), want) {
							wb, _ := json.Marshal(want)
							report("input-differs", fmt.Sprintf("body saw %s want %s", strings.TrimSpace(r.Body), wb))
						}
					}
				case "reject4xx":
					if ran {
						report("ran-on-violating-data", "body ran: "+strings.TrimSpace(r.Body))
					} else if r.Status < 400 || r.Status > 499 {
						report("wrong-status", fmt.Sprintf("status %d want 4xx; %s", r.Status, strings.TrimSpace(r.Body)))
					}
				case "run-nobody":
					in := ctNorm(m["input"])
					if !ran {
						report("conforming-rejected", fmt.Sprintf("status %d body %s", r.Status, strings.TrimSpace(r.Body)))
					} else if in != nil && !reflect.DeepEqual(in, map[string]interface{}{}) &&
						!(j.Body.Class == "null" && reflect.DeepEqual(in, ctNorm(cs.Decision.Alt.goValue()))) {
						report("input-differs", "body saw "+strings.TrimSpace(r.Body)+" want null")
					}
				case "either":
					if !ran && (r.Status < 400 || r.Status > 499) {
						report("wrong-status", fmt.Sprintf("status %d", r.Status))
					}
				}
			case "query":
				switch cs.Decision.D {
				case "run":
					if !ran {
						report("conforming-rejected", fmt.Sprintf("status %d body %s", r.Status, strings.TrimSpace(r.Body)))
						break
					}
					qobj, _ := m["q"].(map[string]interface{})
					p, present := qobj["p"]
					switch cs.Decision.Val {
					case "null":
						if present && p != nil {
							report("query-value", fmt.Sprint("p=", p, " want null"))
						}
					case "default":
						if !reflect.DeepEqual(ctNorm(p), ctNorm(j.Decl.Def.goValue())) {
							report("query-value", fmt.Sprint("p=", p, " want the default"))
						}
					case "parsed":
						el := p
						if j.Decl.Arr {
							arr, ok := p.([]interface{})
							if !ok || len(arr) != len(j.Raw) {
								report("query-value", fmt.Sprint("p=", p, " want a list of ", len(j.Raw)))
								break
							}
							el = arr[0]
						}
						okType := false
						switch j.Decl.T {
						case "int":
							f, ok := el.(float64)
							okType = ok && f == math.Trunc(f)
						case "float":
							_, okType = el.(float64)
						case "bool":
							_, okType = el.(bool)
						case "str":
							s, ok := el.(string)
							okType = ok && s == j.Raw[0].Text
						}
						if !okType {
							report("query-value", fmt.Sprintf("p=%v (%T) is not a %s", el, el, j.Decl.T))
						}
					}
				case "reject4xx":
					if ran {
						report("ran-on-violating-data", "body ran: "+strings.TrimSpace(r.Body))
					} else if r.Status < 400 || r.Status > 499 {
						report("wrong-status", fmt.Sprintf("status %d want 4xx", r.Status))
					}
				}
			case "return":
				switch cs.Decision.D {
				case "sendstatus":
					if r.Status != j.St || !reflect.DeepEqual(ctNorm(r.JSON), ctNorm(j.V.goValue())) {
						report("status-return-altered", fmt.Sprintf("status %d (want %d) body %s", r.Status, j.St, strings.TrimSpace(r.Body)))
					}
				case "send":
					if r.Status != 200 || !reflect.DeepEqual(ctNorm(r.JSON), ctNorm(j.V.goValue())) {
						report("conforming-return-refused", fmt.Sprintf("status %d body %s", r.Status, strings.TrimSpace(r.Body)))
					}
				case "reject5xx":
					if r.Status < 500 {
						report("violating-return-sent", fmt.Sprintf("status %d body %s", r.Status, strings.TrimSpace(r.Body)))
					}
				}
			}
			if bad != "" {
				nmis++
				enc.Encode(map[string]interface{}{"case": cs.ID, "mode": modeName, "kind": kind, "what": bad})
			}
		}
	}
	enc.Encode(map[string]int{"summary": 1, "cases": ncases, "mismatches": nmis})
}
