//go:build verif

package main

// C19 driver (glyph dev): serial behaviours of specs/reload/DevReload.tla replayed on a real
// hotReloadManager listening on a loopback port; reload() is invoked synchronously as the
// debounce timer would; a background poller keeps requesting while reloads run.

import (
	"context"
	"encoding/json"
	"fmt"
	"io"
	"net"
	"net/http"
	"os"
	"path/filepath"
	"strings"
	"sync"
	"testing"
	"time"
)

type drStep struct {
	Op      string `json:"op"`
	F       string `json:"f"`
	Ok      bool   `json:"ok"`
	Serving string `json:"serving"`
	Got     string `json:"got"`
}
type drCase struct {
	ID   int      `json:"id"`
	Hist []drStep `json:"hist"`
}

func drContent(f string) (string, bool) {
	switch f {
	case "v1":
		return "@ GET /v {\n  > {v: 1}\n}\n", true
	case "v2":
		return "@ GET /v {\n  > {v: 2}\n}\n", true
	case "parse":
		return "@ GET /v {\n  > {v: \n", true
	case "sem":
		return "@ GET /v {\n  $ x = 1\n  $ x = 2\n  > {v: x}\n}\n", true
	case "empty":
		return "", true
	}
	return "", false // missing
}

func drFreePort() int {
	l, err := net.Listen("tcp", "127.0.0.1:0")
	if err != nil {
		panic(err)
	}
	defer l.Close()
	return l.Addr().(*net.TCPAddr).Port
}

var drClient = &http.Client{Timeout: 2 * time.Second, Transport: &http.Transport{DisableKeepAlives: true}}

func drPoll(port int) string {
	resp, err := drClient.Get(fmt.Sprintf("http://127.0.0.1:%d/v", port))
	if err != nil {
		return "down"
	}
	defer resp.Body.Close()
	b, _ := io.ReadAll(resp.Body)
	if resp.StatusCode == 404 {
		return "none"
	}
	var m map[string]interface{}
	if resp.StatusCode == 200 && json.Unmarshal(b, &m) == nil {
		return fmt.Sprint("v", m["v"])
	}
	return fmt.Sprint("status", resp.StatusCode)
}

type drObs struct {
	at  time.Time
	got string
}

func drRunCase(cs drCase) (mis []map[string]interface{}, steps int) {
	dir, _ := os.MkdirTemp("", "verif-dev-")
	defer os.RemoveAll(dir)
	file := filepath.Join(dir, "main.glyph")
	c, _ := drContent("v1")
	os.WriteFile(file, []byte(c), 0o644)
	port := drFreePort()
	m := &hotReloadManager{filePath: file, port: port, liveReloadConns: make(map[*liveReloadConn]bool)}
	if err := m.startServer(); err != nil {
		return []map[string]interface{}{{"case": cs.ID, "step": -1, "what": "initial start failed: " + err.Error()}}, 0
	}
	defer func() {
		m.mu.Lock()
		if m.server != nil {
			m.server.Close()
		}
		m.mu.Unlock()
	}()
	// every fifth behaviour runs with a browser attached: a live-reload event stream held open for the whole
	// case (the model gives client connections no influence on a reload)
	if cs.ID%5 == 0 {
		hctx, hcancel := context.WithCancel(context.Background())
		defer hcancel()
		go func() {
			for hctx.Err() == nil {
				req, _ := http.NewRequestWithContext(hctx, "GET", fmt.Sprintf("http://127.0.0.1:%d/__livereload", port), nil)
				resp, err := (&http.Client{}).Do(req)
				if err != nil {
					time.Sleep(20 * time.Millisecond)
					continue
				}
				io.Copy(io.Discard, resp.Body) // until the server goes away; then reconnect like EventSource does
				resp.Body.Close()
			}
		}()
		time.Sleep(50 * time.Millisecond)
	}
	// background poller
	var omu sync.Mutex
	var obs []drObs
	stop := make(chan struct{})
	var wg sync.WaitGroup
	wg.Add(1)
	go func() {
		defer wg.Done()
		for {
			select {
			case <-stop:
				return
			default:
			}
			t0 := time.Now()
			g := drPoll(port)
			omu.Lock()
			obs = append(obs, drObs{t0, g})
			omu.Unlock()
			time.Sleep(3 * time.Millisecond)
		}
	}()
	type window struct {
		from, to time.Time
		ok       bool
		before   string
		after    string
	}
	var wins []window
	serving := "v1"
	for i, st := range cs.Hist {
		steps++
		switch st.Op {
		case "Edit":
			if c, ok := drContent(st.F); ok {
				os.WriteFile(file, []byte(c), 0o644)
			} else {
				os.Remove(file)
			}
		case "Reload":
			w := window{from: time.Now(), before: serving}
			m.reload()
			w.to = time.Now()
			w.ok = st.Ok
			w.after = st.Serving
			wins = append(wins, w)
			serving = st.Serving
			got := drPoll(port)
			if got != st.Serving {
				mis = append(mis, map[string]interface{}{"case": cs.ID, "step": i, "op": "Reload", "what": "after reload", "want": st.Serving, "got": got, "reloadOk": st.Ok})
				close(stop)
				wg.Wait()
				return
			}
		case "Poll":
			got := drPoll(port)
			if got != st.Got {
				mis = append(mis, map[string]interface{}{"case": cs.ID, "step": i, "op": "Poll", "what": "poll", "want": st.Got, "got": got})
				close(stop)
				wg.Wait()
				return
			}
		}
	}
	close(stop)
	wg.Wait()
	// polls that ran entirely inside a FAILED reload must have been answered by the last good version
	for _, o := range obs {
		for _, w := range wins {
			if !w.ok && o.at.After(w.from) && o.at.Add(50*time.Millisecond).Before(w.to) && o.got != w.before {
				mis = append(mis, map[string]interface{}{"case": cs.ID, "step": -2, "op": "Reload", "what": "request during a failed reload", "want": w.before, "got": o.got, "reloadOk": false})
				return
			}
		}
	}
	return
}

func TestVerifDevReload(t *testing.T) {
	sc, enc, done := vOpenIO(t)
	defer done()
	defer vQuiet()()
	var cases []drCase
	for sc.Scan() {
		var cs drCase
		if err := json.Unmarshal(sc.Bytes(), &cs); err != nil {
			t.Fatalf("bad case %v", err)
		}
		cases = append(cases, cs)
	}
	var mu sync.Mutex
	nsteps, nmis := 0, 0
	sem := make(chan struct{}, 8)
	var wg sync.WaitGroup
	for _, cs := range cases {
		wg.Add(1)
		sem <- struct{}{}
		go func(cs drCase) {
			defer wg.Done()
			defer func() { <-sem }()
			mis, st := drRunCase(cs)
			mu.Lock()
			nsteps += st
			for _, m := range mis {
				nmis++
				enc.Encode(m)
			}
			mu.Unlock()
		}(cs)
	}
	wg.Wait()
	enc.Encode(map[string]int{"summary": 1, "cases": len(cases), "steps": nsteps, "mismatches": nmis})
}

var _ = strings.TrimSpace
