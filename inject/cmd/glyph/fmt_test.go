//go:build verif

package main

// C18 driver: texts written by specs/fmt/SourceLayout.tla (and arbitrary byte strings for idempotence) go
// through the real fmt / expand / compact and are compared by token sequence and position-free syntax tree.

import (
	"encoding/json"
	"fmt"
	"reflect"
	"strings"
	"testing"

	"github.com/glyphlang/glyph/pkg/ast"
	"github.com/glyphlang/glyph/pkg/formatter"
	"github.com/glyphlang/glyph/pkg/parser"
)

var fmPosFields = map[string]bool{"Pos": true, "Position": true, "Line": true, "Column": true, "StartPos": true, "EndPos": true, "Span": true}

// fmDump: a syntax tree as text, node types included, positions left out.
func fmDump(sb *strings.Builder, v reflect.Value, depth int) {
	if depth > 200 {
		sb.WriteString("<deep>")
		return
	}
	switch v.Kind() {
	case reflect.Interface, reflect.Ptr:
		if v.IsNil() {
			sb.WriteString("nil")
			return
		}
		fmDump(sb, v.Elem(), depth+1)
	case reflect.Struct:
		sb.WriteString(v.Type().Name())
		sb.WriteString("{")
		for i := 0; i < v.NumField(); i++ {
			f := v.Type().Field(i)
			if fmPosFields[f.Name] || !f.IsExported() {
				continue
			}
			sb.WriteString(f.Name)
			sb.WriteString(":")
			fmDump(sb, v.Field(i), depth+1)
			sb.WriteString(";")
		}
		sb.WriteString("}")
	case reflect.Slice, reflect.Array:
		sb.WriteString("[")
		for i := 0; i < v.Len(); i++ {
			fmDump(sb, v.Index(i), depth+1)
			sb.WriteString(",")
		}
		sb.WriteString("]")
	case reflect.Map:
		sb.WriteString(fmt.Sprintf("map(%d)", v.Len()))
	case reflect.String:
		sb.WriteString(fmt.Sprintf("%q", v.String()))
	default:
		sb.WriteString(fmt.Sprint(v.Interface()))
	}
}

func fmTree(m *ast.Module) string {
	var sb strings.Builder
	fmDump(&sb, reflect.ValueOf(m), 0)
	return sb.String()
}

func fmTokens(toks []parser.Token) []string {
	out := []string{}
	for _, t := range toks {
		if t.Type == parser.NEWLINE {
			if len(out) == 0 || out[len(out)-1] == "NL" {
				continue
			}
			out = append(out, "NL")
			continue
		}
		if t.Type == parser.EOF {
			continue
		}
		out = append(out, fmt.Sprintf("%s:%s", t.Type.String(), t.Literal))
	}
	for len(out) > 0 && out[len(out)-1] == "NL" {
		out = out[:len(out)-1]
	}
	return out
}

func fmParse(src string, expanded bool) (toks []parser.Token, tree string, err error) {
	defer func() {
		if r := recover(); r != nil {
			err = fmt.Errorf("panic: %v", r)
		}
	}()
	if expanded {
		toks, err = parser.NewExpandedLexer(src).Tokenize()
	} else {
		toks, err = parser.NewLexer(src).Tokenize()
	}
	if err != nil {
		return nil, "", fmt.Errorf("lex: %v", err)
	}
	m, perr := parser.NewParser(toks).Parse()
	if perr != nil {
		return toks, "", fmt.Errorf("parse: %v", perr)
	}
	return toks, fmTree(m), nil
}

func fmDiff(a, b []string) string {
	for i := 0; i < len(a) && i < len(b); i++ {
		if a[i] != b[i] {
			return fmt.Sprintf("token %d: %s vs %s", i, a[i], b[i])
		}
	}
	if len(a) != len(b) {
		return fmt.Sprintf("%d tokens vs %d", len(a), len(b))
	}
	return ""
}

func fmFirstDiff(a, b string) string {
	i := 0
	for i < len(a) && i < len(b) && a[i] == b[i] {
		i++
	}
	lo := i - 120
	if lo < 0 {
		lo = 0
	}
	ha, hb := i+80, i+80
	if ha > len(a) {
		ha = len(a)
	}
	if hb > len(b) {
		hb = len(b)
	}
	return fmt.Sprintf("...%s <<<%s>>> vs <<<%s>>>", a[lo:i], a[i:ha], b[i:hb])
}

func fmSafe(f func(string) string, s string) (out string, pan string) {
	defer func() {
		if r := recover(); r != nil {
			pan = fmt.Sprint(r)
		}
	}()
	return f(s), ""
}

func TestVerifFmt(t *testing.T) {
	sc, enc, done := vOpenIO(t)
	defer done()
	n := 0
	for sc.Scan() {
		var c struct {
			ID    int     `json:"id"`
			Text  string  `json:"text"`
			Bytes []int   `json:"bytes"`
			Canon *string `json:"canon"`
		}
		if err := json.Unmarshal(sc.Bytes(), &c); err != nil {
			t.Fatal(err)
		}
		n++
		text := c.Text
		if c.Bytes != nil {
			b := make([]byte, len(c.Bytes))
			for i, x := range c.Bytes {
				b[i] = byte(x)
			}
			text = string(b)
		}
		out := map[string]interface{}{"id": c.ID}
		f1, pan := fmSafe(formatter.CanonicalizeSource, text)
		if pan != "" {
			out["panic"] = "fmt: " + pan
			enc.Encode(out)
			continue
		}
		f2, _ := fmSafe(formatter.CanonicalizeSource, f1)
		out["idempotent"] = f1 == f2
		if f1 != f2 {
			out["fmt1"], out["fmt2"] = f1, f2
		}
		if c.Canon != nil {
			out["canon_ok"] = f1 == *c.Canon
			if f1 != *c.Canon {
				out["fmt1"] = f1
			}
		}
		// for fmt the input may carry a BOM, which the lexer refuses: compare from the text without it
		plain := strings.TrimPrefix(text, "\ufeff")
		toks, tree, err := fmParse(plain, false)
		if err != nil {
			out["accepted"] = false
			out["reject"] = err.Error()
			enc.Encode(out)
			continue
		}
		out["accepted"] = true
		ftoks, _, ferr := fmParse(f1, false)
		if ferr != nil {
			out["fmt_tokens"] = "formatted text rejected: " + ferr.Error()
		} else if d := fmDiff(fmTokens(toks), fmTokens(ftoks)); d != "" {
			out["fmt_tokens"] = d
		}
		// expand, then the expanded text itself, then compact
		ex, pan := fmSafe(formatter.ExpandSource, plain)
		if pan != "" {
			out["panic"] = "expand: " + pan
			enc.Encode(out)
			continue
		}
		if _, xtree, xerr := fmParse(ex, true); xerr != nil {
			out["expanded_tree"] = "expanded text rejected: " + xerr.Error()
			out["expanded"] = ex
		} else if xtree != tree {
			out["expanded_tree"] = "tree differs: " + fmFirstDiff(tree, xtree)
			out["expanded"] = ex
		}
		cm, pan := fmSafe(formatter.CompactSource, ex)
		if pan != "" {
			out["panic"] = "compact: " + pan
			enc.Encode(out)
			continue
		}
		if _, ctree, cerr := fmParse(cm, false); cerr != nil {
			out["roundtrip_tree"] = "compact(expand(x)) rejected: " + cerr.Error()
			out["roundtrip"] = cm
		} else if ctree != tree {
			out["roundtrip_tree"] = "tree differs: " + fmFirstDiff(tree, ctree)
			out["roundtrip"] = cm
		}
		enc.Encode(out)
	}
	enc.Encode(map[string]int{"summary": 1, "cases": n})
}
