//go:build verif

package main

// Shared helpers of the /verif drivers that live in package main: serve a GlyphLang
// source through the real wiring (parseSource, setupRoutes, createHandler) in either
// execution mode, without a socket.

import (
	"bufio"
	"encoding/json"
	"io"
	"net/http"
	"net/http/httptest"
	"os"
	"strings"
	"testing"
)

type vServer struct {
	h        http.Handler
	compiled bool
	stop     func() // ends the WebSocket hub goroutine the product starts with every server
}

// close releases what the server started (drivers that build thousands of servers call it)
func (s *vServer) close() {
	if s != nil && s.stop != nil {
		s.stop()
		s.stop = nil
	}
}

// vServe builds the handler `glyph run` would serve. interpret=true is --interpret.
func vServe(src string, interpret bool) (*vServer, error) {
	module, err := parseSource(src)
	if err != nil {
		return nil, err
	}
	useCompiler, _, ws, router, err := setupRoutes(module, "/nonexistent/verif.glyph", interpret)
	if err != nil {
		if ws != nil {
			ws.GetHub().Shutdown()
		}
		return nil, err
	}
	mux := http.NewServeMux()
	mux.HandleFunc("/", createHandler(router))
	srv := &vServer{h: mux, compiled: useCompiler}
	if ws != nil {
		srv.stop = func() { ws.GetHub().Shutdown() }
	}
	return srv, nil
}

type vResp struct {
	Status  int
	Body    string
	JSON    interface{}
	Panic   interface{}
	Headers http.Header
}

func (s *vServer) do(method, target string, hdr map[string][]string, body io.Reader, remote string) (out vResp) {
	req := httptest.NewRequest(method, target, body)
	if remote != "" {
		req.RemoteAddr = remote
	}
	for k, vs := range hdr {
		for _, v := range vs {
			req.Header.Add(k, v)
		}
	}
	rec := httptest.NewRecorder()
	func() {
		defer func() {
			if r := recover(); r != nil {
				out.Panic = r
			}
		}()
		s.h.ServeHTTP(rec, req)
	}()
	out.Status = rec.Code
	out.Body = rec.Body.String()
	out.Headers = rec.Header()
	var j interface{}
	if json.Unmarshal(rec.Body.Bytes(), &j) == nil {
		out.JSON = j
	}
	return out
}

func vQuiet() func() {
	// the CLI helpers print progress to stdout; keep test output small
	old := os.Stdout
	devnull, _ := os.OpenFile(os.DevNull, os.O_WRONLY, 0)
	os.Stdout = devnull
	return func() { os.Stdout = old; devnull.Close() }
}

func vOpenIO(t *testing.T) (*bufio.Scanner, *json.Encoder, func()) {
	in, err := os.Open(os.Getenv("VERIF_CASES"))
	if err != nil {
		t.Fatal(err)
	}
	outf, err := os.Create(os.Getenv("VERIF_OUT"))
	if err != nil {
		t.Fatal(err)
	}
	// unbuffered: every record reaches the file when it is written, so that after a crash of the process the
	// records say which case was running
	sc := bufio.NewScanner(in)
	sc.Buffer(make([]byte, 1<<20), 1<<27)
	return sc, json.NewEncoder(outf), func() { outf.Close(); in.Close() }
}

func vHasKey(j interface{}, key string) bool {
	m, ok := j.(map[string]interface{})
	if !ok {
		return false
	}
	_, ok = m[key]
	return ok
}

var _ = strings.TrimSpace
