//go:build verif

package main

// C08 driver: many simultaneous requests against one long-lived server (the product path:
// parseSource + setupRoutes + createHandler), history recorded for specs/isolation/ReqIsolationTrace.tla.

import (
	"encoding/json"
	"fmt"
	"math/rand"
	"os"
	"runtime"
	"strconv"
	"strings"
	"sync"
	"sync/atomic"
	"testing"
)

const isoFuncs = `
! sum(n: int): int {
  if n <= 0 {
    > 0
  }
  > n + sum(n - 1)
}

! identity<T>(x: T): T {
  > x
}

! pick<T>(a: T, b: T): T {
  > identity(a)
}

@ GET /sum {
  ? n: int = 1
  > {r: sum(n)}
}

@ GET /gen {
  ? v: int = 1
  > {r: pick(v, v)}
}

@ GET /gens {
  ? s: str = "a"
  > {r: pick(s, s)}
}

@ POST /echo {
  $ acc = []
  for i in [1, 2, 3] {
    acc = acc + [input.v]
  }
  > {r: acc[2]}
}
`

// the same routes without declared functions, so that the module is served by the VM
const isoCompiledPure = `
@ GET /sum {
  ? n: int = 1
  $ i = 0
  $ s = 0
  while i < n {
    i = i + 1
    s = s + i
  }
  > {r: s}
}

@ GET /gen {
  ? v: int = 1
  $ o = {k: [v, v]}
  > {r: o.k[1]}
}

@ GET /gens {
  ? s: str = "a"
  $ o = {k: [s, s]}
  > {r: o.k[1]}
}

@ POST /echo {
  $ acc = []
  for i in [1, 2, 3] {
    acc = acc + [input.v]
  }
  > {r: acc[2]}
}
`

const isoProviders = `
@ POST /t {
  % db: Database
  > db.items.create({a: input.v, b: input.v})
}

@ GET /t/:id {
  % db: Database
  > db.items.get(id)
}

@ PUT /t/:id {
  % db: Database
  > db.items.update(id, {a: input.v, b: input.v})
}

@ DELETE /t/:id {
  % db: Database
  > {ok: db.items.delete(id)}
}

@ GET /tlen {
  % db: Database
  > {n: db.items.length()}
}

@ GET /tall {
  % db: Database
  > {l: db.items.all()}
}

@ POST /rmw/:id {
  % db: Database
  $ rec = db.items.get(id)
  if rec == null {
    > null
  }
  > db.items.update(id, {a: rec.a + 1, b: rec.a + 1})
}

@ POST /incr/:k {
  % redis: Redis
  > {n: redis.incr(k)}
}

@ PUT /kv/:k {
  % redis: Redis
  $ r = redis.set(k, input.v)
  > {ok: true}
}

@ GET /kv/:k {
  % redis: Redis
  > {v: redis.get(k)}
}

@ POST /list {
  % redis: Redis
  > {n: redis.rpush("l", input.v)}
}

@ GET /list {
  % redis: Redis
  > {n: redis.llen("l")}
}

@ POST /doc {
  % mongo: MongoDB
  $ coll = mongo.Collection("docs")
  $ r = coll.InsertOne({v: input.v})
  > {ok: true}
}

@ GET /doc {
  % mongo: MongoDB
  $ coll = mongo.Collection("docs")
  $ c = coll.CountDocuments({})
  > {n: c}
}
`

// isoColdRoutes: routes that read untouched keys through provider methods spelled in ways no earlier request
// used (case variants of multi-word method names: each spelling is resolved against the allow-list on first use).
// Wave w of a fresh process calls routes 8w..8w+7 at once.
var isoColdMethods = []struct{ name, args, want string }{
	{"hgetall", `"ch"`, `{"r":{}}`}, {"smembers", `"cs"`, `{"r":[]}`}, {"llen", `"cl"`, `{"r":0}`},
	{"hexists", `"ch", "f"`, `{"r":false}`}, {"lrange", `"cl", 0, 1`, `{"r":[]}`}, {"sismember", `"cs", 1`, `{"r":false}`},
}

const isoColdVariants = 8

func isoColdSpelling(name string, k int) string {
	b := []byte(name)
	for i := range b {
		if k&(1<<uint(i%6)) != 0 && i > 0 {
			b[i] = b[i] - 'a' + 'A'
		}
	}
	return string(b)
}

func isoColdModule() (string, []string) {
	var sb strings.Builder
	var want []string
	n := 0
	for v := 0; v < isoColdVariants; v++ {
		for _, m := range isoColdMethods {
			fmt.Fprintf(&sb, "\n@ GET /cold/c%d {\n  %% redis: Redis\n  $ r = redis.%s(%s)\n  > {r: r}\n}\n", n, isoColdSpelling(m.name, v*5+1), m.args)
			want = append(want, m.want)
			n++
		}
	}
	return sb.String(), want
}

type isoRes struct {
	K string  `json:"k"`
	I int64   `json:"i"`
	A int64   `json:"a"`
	B int64   `json:"b"`
	L [][]int64 `json:"l"`
}

type isoJob struct {
	Route string      `json:"route"`
	X     interface{} `json:"x"`
	Y     int64       `json:"y"`
}

type isoEvent struct {
	E     string      `json:"e"`
	R     int64       `json:"r"`
	Route string      `json:"route"`
	X     interface{} `json:"x"`
	Y     int64       `json:"y"`
	Res   *isoRes     `json:"res"`
	Raw   string      `json:"raw,omitempty"`
	seq   int64
}

func isoNum(v interface{}) (int64, bool) {
	switch n := v.(type) {
	case float64:
		if n == float64(int64(n)) {
			return int64(n), true
		}
	case json.Number:
		i, err := n.Int64()
		return i, err == nil
	}
	return 0, false
}

func isoRec(m map[string]interface{}) (isoRes, bool) {
	id, ok1 := isoNum(m["id"])
	a, ok2 := isoNum(m["a"])
	b, ok3 := isoNum(m["b"])
	if !ok1 || !ok2 || !ok3 || len(m) != 3 {
		return isoRes{}, false
	}
	return isoRes{K: "rec", I: id, A: a, B: b, L: [][]int64{}}, true
}

// isoClassify turns the HTTP answer of a route into the specification's result record.
func isoClassify(j isoJob, resp vResp) isoRes {
	fail := isoRes{K: "fail", L: [][]int64{}}
	if resp.Panic != nil {
		return isoRes{K: "panic", L: [][]int64{}}
	}
	body := strings.TrimSpace(resp.Body)
	if resp.Status != 200 {
		if resp.Status >= 500 && j.Route == "sum" && resp.Status == 500 {
			return isoRes{K: "depth", L: [][]int64{}} // the only failure sum() has alone; the log line is checked by the caller
		}
		return fail
	}
	if body == "null" {
		return isoRes{K: "null", L: [][]int64{}}
	}
	var v interface{}
	if err := json.Unmarshal([]byte(body), &v); err != nil {
		return fail
	}
	m, isObj := v.(map[string]interface{})
	if !isObj {
		return fail
	}
	intRes := func(key string) isoRes {
		if n, ok := isoNum(m[key]); ok && len(m) == 1 {
			return isoRes{K: "int", I: n, L: [][]int64{}}
		}
		return fail
	}
	switch j.Route {
	case "cold":
		xi, _ := j.X.(int64)
		if int(xi) < len(isoColdWant) && body == isoColdWant[xi] {
			return isoRes{K: "int", I: xi, L: [][]int64{}}
		}
		return fail
	case "sum", "echo":
		return intRes("r")
	case "gen":
		if s, ok := m["r"].(string); ok && len(m) == 1 && strings.HasPrefix(s, "s") {
			if n, err := strconv.ParseInt(s[1:], 10, 64); err == nil {
				return isoRes{K: "int", I: n, L: [][]int64{}}
			}
			return fail
		}
		return intRes("r")
	case "create", "get", "update", "rmw":
		if r, ok := isoRec(m); ok {
			return r
		}
		return fail
	case "delete", "kvset", "insert":
		if b, ok := m["ok"].(bool); ok && len(m) == 1 {
			if b {
				return isoRes{K: "bool", I: 1, L: [][]int64{}}
			}
			return isoRes{K: "bool", I: 0, L: [][]int64{}}
		}
		return fail
	case "length", "incr", "push", "llen", "count":
		return intRes("n")
	case "kvget":
		if m["v"] == nil && len(m) == 1 {
			return isoRes{K: "null", L: [][]int64{}}
		}
		if str, ok := m["v"].(string); ok && len(m) == 1 { // the store keeps values as strings
			if n, err := strconv.ParseInt(str, 10, 64); err == nil {
				return isoRes{K: "int", I: n, L: [][]int64{}}
			}
		}
		return intRes("v")
	case "all":
		arr, ok := m["l"].([]interface{})
		if !ok {
			return fail
		}
		out := isoRes{K: "list", L: [][]int64{}}
		for _, e := range arr {
			em, ok := e.(map[string]interface{})
			if !ok {
				return fail
			}
			r, ok := isoRec(em)
			if !ok {
				return fail
			}
			out.L = append(out.L, []int64{r.I, r.A, r.B})
		}
		return out
	}
	return fail
}

var isoColdWant []string

func isoSend(s *vServer, j isoJob) vResp {
	js := map[string][]string{"Content-Type": {"application/json"}}
	body := func(v int64) *strings.Reader { return strings.NewReader(fmt.Sprintf(`{"v":%d}`, v)) }
	xi, _ := j.X.(int64)
	xs, _ := j.X.(string)
	switch j.Route {
	case "cold":
		return s.do("GET", fmt.Sprintf("/cold/c%d", xi), nil, nil, "")
	case "sum":
		return s.do("GET", fmt.Sprintf("/sum?n=%d", xi), nil, nil, "")
	case "gen":
		if xi%2 == 0 {
			return s.do("GET", fmt.Sprintf("/gens?s=s%d", xi), nil, nil, "")
		}
		return s.do("GET", fmt.Sprintf("/gen?v=%d", xi), nil, nil, "")
	case "echo":
		return s.do("POST", "/echo", js, body(xi), "")
	case "create":
		return s.do("POST", "/t", js, body(xi), "")
	case "get":
		return s.do("GET", fmt.Sprintf("/t/%d", xi), nil, nil, "")
	case "update":
		return s.do("PUT", fmt.Sprintf("/t/%d", xi), js, body(j.Y), "")
	case "delete":
		return s.do("DELETE", fmt.Sprintf("/t/%d", xi), nil, nil, "")
	case "length":
		return s.do("GET", "/tlen", nil, nil, "")
	case "all":
		return s.do("GET", "/tall", nil, nil, "")
	case "rmw":
		return s.do("POST", fmt.Sprintf("/rmw/%d", xi), js, strings.NewReader("{}"), "")
	case "incr":
		return s.do("POST", "/incr/"+xs, js, strings.NewReader("{}"), "")
	case "kvset":
		return s.do("PUT", "/kv/"+xs, js, body(j.Y), "")
	case "kvget":
		return s.do("GET", "/kv/"+xs, nil, nil, "")
	case "push":
		return s.do("POST", "/list", js, body(xi), "")
	case "llen":
		return s.do("GET", "/list", nil, nil, "")
	case "insert":
		return s.do("POST", "/doc", js, body(xi), "")
	case "count":
		return s.do("GET", "/doc", nil, nil, "")
	}
	panic("route " + j.Route)
}

func isoRandomJob(rnd *rand.Rand, pureOnly bool, maxSum int64) isoJob {
	pure := []string{"sum", "sum", "gen", "gen", "echo"}
	store := []string{"create", "create", "get", "get", "update", "update", "delete", "length", "all", "rmw", "rmw", "incr", "incr", "kvset", "kvget", "push", "llen", "insert", "count"}
	var route string
	if pureOnly || rnd.Intn(4) == 0 {
		route = pure[rnd.Intn(len(pure))]
	} else {
		route = store[rnd.Intn(len(store))]
	}
	j := isoJob{Route: route, X: int64(0)}
	switch route {
	case "sum":
		j.X = []int64{maxSum / 3, maxSum / 2, maxSum - 1, maxSum, 3, maxSum + 5}[rnd.Intn(6)]
	case "gen", "echo":
		j.X = int64(1 + rnd.Intn(40))
	case "create", "push", "insert":
		j.X = int64(rnd.Intn(50))
	case "get", "delete", "rmw":
		j.X = int64(1 + rnd.Intn(4))
	case "update":
		j.X = int64(1 + rnd.Intn(4))
		j.Y = int64(100 + rnd.Intn(800))
	case "incr":
		j.X = []string{"c1", "c2"}[rnd.Intn(2)]
	case "kvset":
		j.X = []string{"k1", "k2"}[rnd.Intn(2)]
		j.Y = int64(rnd.Intn(90))
	case "kvget":
		j.X = []string{"k1", "k2"}[rnd.Intn(2)]
	}
	return j
}

// isoSession: one fresh server, `rounds` bursts of `width` simultaneous requests.
func isoSession(t *testing.T, out *[]isoEvent, rnd *rand.Rand, src string, interpret, pureOnly, cold bool, rounds, width int, maxSum int64, nextID *int64) {
	s, err := vServe(src, interpret)
	if err != nil {
		t.Fatalf("setup: %v", err)
	}
	if s.compiled == interpret {
		t.Fatalf("the server runs compiled=%v but the session wants interpret=%v", s.compiled, interpret)
	}
	*out = append(*out, isoEvent{E: "reset"})
	var seq int64
	for round := 0; round < rounds; round++ {
		jobs := make([]isoJob, width)
		coldWave := cold && round*width+width <= len(isoColdWant)
		// bursts with a theme make the rare collisions likely: all creates, all sums, all generic calls ...
		theme := rnd.Intn(6)
		// the first provider burst of a fresh server is all creates: every request touches the table for the first
		// time at once (lazily created structures are a classic place for a lost update)
		coldRounds := 0
		if cold {
			coldRounds = len(isoColdWant) / width
		}
		if !pureOnly && round == coldRounds {
			theme = 0
		}
		for i := range jobs {
			jobs[i] = isoRandomJob(rnd, pureOnly, maxSum)
			switch {
			case theme == 0 && !pureOnly:
				jobs[i] = isoJob{Route: "create", X: int64(rnd.Intn(50))}
			case theme == 1:
				jobs[i] = isoJob{Route: "sum", X: maxSum - int64(rnd.Intn(3))}
			case theme == 2:
				jobs[i] = isoJob{Route: "gen", X: int64(1 + rnd.Intn(40))}
			case theme == 3 && !pureOnly && i%2 == 0:
				jobs[i] = isoJob{Route: "update", X: int64(1 + rnd.Intn(2)), Y: int64(100 + rnd.Intn(800))}
			case theme == 3 && !pureOnly:
				jobs[i] = isoJob{Route: []string{"get", "all"}[rnd.Intn(2)], X: int64(1 + rnd.Intn(2))}
			}
			if coldWave {
				jobs[i] = isoJob{Route: "cold", X: int64(round*width + i)}
			}
		}
		evs := make([]isoEvent, 2*width)
		var wg sync.WaitGroup
		start := make(chan struct{})
		for i := range jobs {
			wg.Add(1)
			id := atomic.AddInt64(nextID, 1)
			go func(i int, id int64) {
				defer wg.Done()
				<-start
				j := jobs[i]
				c := atomic.AddInt64(&seq, 1)
				resp := isoSend(s, j)
				r := atomic.AddInt64(&seq, 1)
				res := isoClassify(j, resp)
				raw := ""
				if res.K == "fail" || res.K == "panic" {
					raw = fmt.Sprintf("%d %s %v", resp.Status, strings.TrimSpace(resp.Body), resp.Panic)
				}
				evs[2*i] = isoEvent{E: "call", R: id, Route: j.Route, X: j.X, Y: j.Y, Res: &res, seq: c}
				evs[2*i+1] = isoEvent{E: "ret", R: id, Route: j.Route, X: j.X, Y: j.Y, Res: &res, Raw: raw, seq: r}
			}(i, id)
		}
		close(start)
		wg.Wait()
		// order by the event counter
		for i := 1; i < len(evs); i++ {
			for k := i; k > 0 && evs[k-1].seq > evs[k].seq; k-- {
				evs[k-1], evs[k] = evs[k], evs[k-1]
			}
		}
		*out = append(*out, evs...)
	}
}

// isoMaxSum: the largest n for which /sum?n= succeeds when the request is alone.
func isoMaxSum(t *testing.T, src string, interpret bool) int64 {
	s, err := vServe(src, interpret)
	if err != nil {
		t.Fatalf("setup: %v", err)
	}
	lo, hi := int64(1), int64(4000)
	ok := func(n int64) bool {
		r := s.do("GET", fmt.Sprintf("/sum?n=%d", n), nil, nil, "")
		return r.Status == 200 && strings.Contains(r.Body, fmt.Sprint(n*(n+1)/2))
	}
	if !ok(lo) {
		t.Fatalf("sum(1) does not work alone")
	}
	for lo < hi {
		mid := (lo + hi + 1) / 2
		if ok(mid) {
			lo = mid
		} else {
			hi = mid - 1
		}
	}
	return lo
}

func TestVerifIsoRun(t *testing.T) {
	vQuiet()
	seed, _ := strconv.ParseInt(os.Getenv("VERIF_SEED"), 10, 64)
	sessions, _ := strconv.Atoi(os.Getenv("VERIF_ISO_SESSIONS"))
	rounds, _ := strconv.Atoi(os.Getenv("VERIF_ISO_ROUNDS"))
	width, _ := strconv.Atoi(os.Getenv("VERIF_ISO_WIDTH"))
	if sessions == 0 {
		sessions, rounds, width = 4, 30, 8
	}
	outPath := os.Getenv("VERIF_OUT")
	rnd := rand.New(rand.NewSource(seed))
	coldSrc, coldWant := isoColdModule()
	isoColdWant = coldWant
	full := isoFuncs + isoProviders + coldSrc
	maxI := isoMaxSum(t, full, true)
	maxC := isoMaxSum(t, isoCompiledPure, false)
	meta := map[string]interface{}{"maxSumInterpreted": maxI, "maxSumCompiled": maxC, "gomaxprocs": runtime.GOMAXPROCS(0)}
	var evI, evC []isoEvent
	var id int64
	for sidx := 0; sidx < sessions; sidx++ {
		procs := []int{16, 4, 2, 8}[sidx%4]
		old := runtime.GOMAXPROCS(procs)
		isoSession(t, &evI, rnd, full, true, false, sidx == 0, rounds, width, maxI, &id) // the first session of the process starts cold
		isoSession(t, &evC, rnd, isoCompiledPure, false, true, false, rounds, width, maxC, &id)
		runtime.GOMAXPROCS(old)
	}
	write := func(name string, evs []isoEvent) {
		f, err := os.Create(outPath + name)
		if err != nil {
			t.Fatal(err)
		}
		defer f.Close()
		enc := json.NewEncoder(f)
		for _, e := range evs {
			if e.E == "reset" {
				fmt.Fprintln(f, `{"e":"reset"}`)
				continue
			}
			if err := enc.Encode(e); err != nil {
				t.Fatal(err)
			}
		}
	}
	write(".interp.ndjson", evI)
	write(".compiled.ndjson", evC)
	mb, _ := json.Marshal(meta)
	os.WriteFile(outPath+".meta.json", mb, 0o644)
}
