//go:build verif

package main

// C01-C04 driver: programs whose text and outcome specs/lang/GlyphCore.tla computed are run
// on every engine: the tree-walking interpreter (API), the VM on bytecode compiled at each
// optimisation level from the parser's tree and from a library-style (pointer-form) copy of
// it, and over HTTP through the real wiring in both execution modes.  The driver only
// observes; verdicts are formed by the orchestrator against the specification.

import (
	"bytes"
	"encoding/json"
	"fmt"
	"io"
	"math"
	"net"
	"net/http"
	"net/url"
	"os"
	"runtime"
	"sort"
	"strconv"
	"strings"
	"testing"
	"time"

	"github.com/glyphlang/glyph/pkg/ast"
	"github.com/glyphlang/glyph/pkg/compiler"
	"github.com/glyphlang/glyph/pkg/interpreter"
	"github.com/glyphlang/glyph/pkg/vm"
)

type lgVar struct {
	N string                 `json:"n"`
	V map[string]interface{} `json:"v"`
}
type lgCase struct {
	ID   int      `json:"id"`
	Src  string   `json:"src"`
	Pre  string   `json:"pre"` // functions the module declares, written before the route
	Vars []lgVar  `json:"vars"`
	Tags []string `json:"tags"`
	Kind string   `json:"kind"` // expected kind, only to decide which programs may run without a step limit
}

type lgObs struct {
	Kind string      `json:"kind"` // value | error | panic | hang | compile-error
	V    interface{} `json:"v,omitempty"`
	Msg  string      `json:"msg,omitempty"`
}

func lgTag(x interface{}) interface{} {
	switch v := x.(type) {
	case nil:
		return map[string]interface{}{"k": "null"}
	case bool:
		return map[string]interface{}{"k": "bool", "v": v}
	case int64:
		return map[string]interface{}{"k": "int", "v": v}
	case int:
		return map[string]interface{}{"k": "int", "v": int64(v)}
	case float64:
		q := v * 4
		if q == math.Trunc(q) && math.Abs(q) < 1e15 {
			return map[string]interface{}{"k": "float", "q": int64(q)}
		}
		return map[string]interface{}{"k": "float", "x": fmt.Sprint(v)}
	case string:
		return map[string]interface{}{"k": "str", "v": v}
	case []interface{}:
		out := []interface{}{}
		for _, e := range v {
			out = append(out, lgTag(e))
		}
		return map[string]interface{}{"k": "arr", "e": out}
	case map[string]interface{}:
		keys := make([]string, 0, len(v))
		for k := range v {
			keys = append(keys, k)
		}
		sort.Strings(keys)
		fs := []interface{}{}
		for _, k := range keys {
			fs = append(fs, map[string]interface{}{"name": k, "v": lgTag(v[k])})
		}
		return map[string]interface{}{"k": "obj", "f": fs}
	}
	return map[string]interface{}{"k": "other", "t": fmt.Sprintf("%T", x)}
}

func lgFromVM(v vm.Value) interface{} {
	switch x := v.(type) {
	case nil:
		return nil
	case vm.NullValue:
		return nil
	case vm.IntValue:
		return x.Val
	case vm.FloatValue:
		return x.Val
	case vm.StringValue:
		return x.Val
	case vm.BoolValue:
		return x.Val
	case vm.ArrayValue:
		out := []interface{}{}
		for _, e := range x.Val {
			out = append(out, lgFromVM(e))
		}
		return out
	case vm.ObjectValue:
		out := map[string]interface{}{}
		for k, e := range x.Val {
			out[k] = lgFromVM(e)
		}
		return out
	}
	return fmt.Sprintf("<%T>", v)
}

func lgModule(cs lgCase) string {
	var b strings.Builder
	b.WriteString(cs.Pre)
	b.WriteString("@ POST /run {\n")
	for _, v := range cs.Vars {
		if v.N == "input" {
			continue // the request body, not a query parameter
		}
		t := map[string]string{"int": "int", "str": "str", "bool": "bool", "float": "float"}[v.V["k"].(string)]
		fmt.Fprintf(&b, "  ? %s: %s\n", v.N, t)
	}
	b.WriteString(cs.Src)
	b.WriteString("}\n")
	return b.String()
}

func lgQuery(cs lgCase) (string, map[string]interface{}) {
	q := url.Values{}
	vals := map[string]interface{}{}
	for _, v := range cs.Vars {
		if v.N == "input" {
			vals["input"] = lgUntag(v.V)
			continue
		}
		switch v.V["k"] {
		case "int":
			n := int64(v.V["v"].(float64))
			if v.V["sp"] == "big" { // beyond what the specification's integers hold: carried as decimal text
				n, _ = strconv.ParseInt(v.V["s"].(string), 10, 64)
			}
			q.Set(v.N, fmt.Sprint(n))
			vals[v.N] = n
		case "float":
			f := 0.0
			if v.V["sp"] == "nan" {
				f = math.NaN()
				q.Set(v.N, "NaN")
			} else {
				f = v.V["q"].(float64) / 4
				q.Set(v.N, strconv.FormatFloat(f, 'f', -1, 64))
			}
			vals[v.N] = f
		case "str":
			q.Set(v.N, v.V["v"].(string))
			vals[v.N] = v.V["v"].(string)
		case "bool":
			q.Set(v.N, fmt.Sprint(v.V["v"].(bool)))
			vals[v.N] = v.V["v"].(bool)
		}
	}
	return q.Encode(), vals
}

// lgUntag: a tagged value of the specification as the Go value a JSON body of that shape decodes to
func lgUntag(v map[string]interface{}) interface{} {
	switch v["k"] {
	case "null":
		return nil
	case "int":
		return v["v"].(float64) // numbers of a JSON body are floats
	case "float":
		return v["q"].(float64) / 4
	case "arr":
		out := []interface{}{}
		for _, e := range v["e"].([]interface{}) {
			out = append(out, lgUntag(e.(map[string]interface{})))
		}
		return out
	case "obj":
		out := map[string]interface{}{}
		for _, f := range v["f"].([]interface{}) {
			fm := f.(map[string]interface{})
			out[fm["name"].(string)] = lgUntag(fm["v"].(map[string]interface{}))
		}
		return out
	}
	return v["v"]
}

// lgCopy: a fresh copy of a JSON-shaped value (each run gets its own request body)
func lgCopy(x interface{}) interface{} {
	b, _ := json.Marshal(x)
	var out interface{}
	json.Unmarshal(b, &out)
	return out
}

// guarded runs f under recover and a watchdog
func lgGuard(wd time.Duration, f func() lgObs) lgObs {
	ch := make(chan lgObs, 1)
	go func() {
		defer func() {
			if r := recover(); r != nil {
				ch <- lgObs{Kind: "panic", Msg: fmt.Sprint(r)}
			}
		}()
		ch <- f()
	}()
	select {
	case o := <-ch:
		return o
	case <-time.After(wd):
		return lgObs{Kind: "hang", Msg: "no result after " + wd.String()}
	}
}

// ---- pointer-form copy of a parsed tree (what a library user builds)
func lgPtrExpr(e ast.Expr) ast.Expr {
	switch x := e.(type) {
	case ast.LiteralExpr:
		c := x
		return &c
	case ast.VariableExpr:
		c := x
		return &c
	case ast.BinaryOpExpr:
		return &ast.BinaryOpExpr{Op: x.Op, Left: lgPtrExpr(x.Left), Right: lgPtrExpr(x.Right), Pos: x.Pos}
	case ast.UnaryOpExpr:
		return &ast.UnaryOpExpr{Op: x.Op, Right: lgPtrExpr(x.Right), Pos: x.Pos}
	case ast.ArrayExpr:
		out := &ast.ArrayExpr{}
		for _, el := range x.Elements {
			out.Elements = append(out.Elements, lgPtrExpr(el))
		}
		return out
	case ast.ObjectExpr:
		out := &ast.ObjectExpr{}
		for _, f := range x.Fields {
			out.Fields = append(out.Fields, ast.ObjectField{Key: f.Key, Value: lgPtrExpr(f.Value)})
		}
		return out
	case ast.FieldAccessExpr:
		return &ast.FieldAccessExpr{Object: lgPtrExpr(x.Object), Field: x.Field, Pos: x.Pos}
	case ast.ArrayIndexExpr:
		return &ast.ArrayIndexExpr{Array: lgPtrExpr(x.Array), Index: lgPtrExpr(x.Index), Pos: x.Pos}
	case ast.AsyncExpr:
		return &ast.AsyncExpr{Body: lgPtrStmts(x.Body)}
	case ast.AwaitExpr:
		return &ast.AwaitExpr{Expr: lgPtrExpr(x.Expr)}
	case ast.FunctionCallExpr:
		out := &ast.FunctionCallExpr{Name: x.Name, Pos: x.Pos}
		for _, a := range x.Args {
			out.Args = append(out.Args, lgPtrExpr(a))
		}
		return out
	}
	return e
}

func lgPtrStmts(ss []ast.Statement) []ast.Statement {
	if ss == nil {
		return nil
	}
	out := make([]ast.Statement, 0, len(ss))
	for _, s := range ss {
		switch x := s.(type) {
		case ast.AssignStatement:
			out = append(out, &ast.AssignStatement{Target: x.Target, Value: lgPtrExpr(x.Value)})
		case ast.ReassignStatement:
			out = append(out, &ast.ReassignStatement{Target: x.Target, Value: lgPtrExpr(x.Value)})
		case ast.ReturnStatement:
			out = append(out, &ast.ReturnStatement{Value: lgPtrExpr(x.Value), Status: x.Status})
		case ast.ExpressionStatement:
			out = append(out, &ast.ExpressionStatement{Expr: lgPtrExpr(x.Expr)})
		case ast.IfStatement:
			out = append(out, &ast.IfStatement{Condition: lgPtrExpr(x.Condition), ThenBlock: lgPtrStmts(x.ThenBlock), ElseBlock: lgPtrStmts(x.ElseBlock)})
		case ast.WhileStatement:
			out = append(out, &ast.WhileStatement{Condition: lgPtrExpr(x.Condition), Body: lgPtrStmts(x.Body)})
		case ast.ForStatement:
			out = append(out, &ast.ForStatement{KeyVar: x.KeyVar, ValueVar: x.ValueVar, Iterable: lgPtrExpr(x.Iterable), Body: lgPtrStmts(x.Body)})
		case ast.SwitchStatement:
			sw := &ast.SwitchStatement{Value: lgPtrExpr(x.Value), Default: lgPtrStmts(x.Default)}
			for _, c := range x.Cases {
				sw.Cases = append(sw.Cases, ast.SwitchCase{Value: lgPtrExpr(c.Value), Body: lgPtrStmts(c.Body)})
			}
			out = append(out, sw)
		case ast.BreakStatement:
			out = append(out, &ast.BreakStatement{})
		case ast.ContinueStatement:
			out = append(out, &ast.ContinueStatement{})
		default:
			out = append(out, s)
		}
	}
	return out
}

func lgRunVM(route *ast.Route, level compiler.OptimizationLevel, qvals map[string]interface{}, limited bool) lgObs {
	bc, err := compiler.NewCompilerWithOptLevel(level).CompileRoute(route)
	if err != nil {
		return lgObs{Kind: "compile-error", Msg: err.Error()}
	}
	m := vm.NewVM()
	if limited {
		m.SetMaxSteps(3_000_000)
	}
	qobj := map[string]vm.Value{}
	var body interface{}
	for k, v := range qvals {
		if k == "input" {
			body = lgCopy(v)
			continue
		}
		qobj[k] = interfaceToValue(v)
		m.SetLocal(k, interfaceToValue(v))
	}
	m.SetLocal("query", vm.ObjectValue{Val: qobj})
	if body != nil {
		m.SetLocal("input", interfaceToValue(body))
	} else {
		m.SetLocal("input", vm.NullValue{})
	}
	m.SetLocal("headers", vm.ObjectValue{Val: map[string]vm.Value{}})
	res, xerr := m.Execute(bc)
	if xerr != nil {
		return lgObs{Kind: "error", Msg: xerr.Error()}
	}
	if body, status, ok := unwrapStatusResult(res); ok {
		return lgObs{Kind: "value", V: lgTag(lgFromVM(body)), Msg: fmt.Sprint("status ", status)}
	}
	return lgObs{Kind: "value", V: lgTag(lgFromVM(res))}
}

func TestVerifLangRun(t *testing.T) {
	sc, enc, done := vOpenIO(t)
	defer done()
	defer vQuiet()()
	wd := 6 * time.Second
	n := 0
	repeat, _ := strconv.Atoi(os.Getenv("VERIF_LANG_REPEAT"))
	for sc.Scan() {
		var cs lgCase
		if err := json.Unmarshal(sc.Bytes(), &cs); err != nil {
			t.Fatalf("bad case %v", err)
		}
		n++
		out := map[string]interface{}{"id": cs.ID}
		baseG := runtime.NumGoroutine()
		src := lgModule(cs)
		qs, qvals := lgQuery(cs)
		module, perr := parseSource(src)
		if perr != nil {
			out["parse"] = perr.Error()
			enc.Encode(out)
			continue
		}
		var route *ast.Route
		for _, it := range module.Items {
			if r, ok := it.(*ast.Route); ok {
				route = r
			}
		}
		// interpreter, twice on one instance and once on a fresh one: a function of the program and its inputs only
		interp := interpreter.NewInterpreter()
		lerr := interp.LoadModule(*module)
		runInterp := func(ip *interpreter.Interpreter) lgObs {
			return lgGuard(wd, func() lgObs {
				path := "/run"
				if qs != "" {
					path += "?" + qs
				}
				req := &interpreter.Request{Path: path, Method: "POST", Params: map[string]string{}, Headers: map[string]string{}}
				if in, ok := qvals["input"]; ok {
					req.Body = lgCopy(in)
				}
				resp, err := ip.ExecuteRoute(route, req)
				if err != nil {
					return lgObs{Kind: "error", Msg: err.Error()}
				}
				if resp == nil {
					return lgObs{Kind: "error", Msg: "nil response"}
				}
				return lgObs{Kind: "value", V: lgTag(resp.Body), Msg: fmt.Sprint("status ", resp.StatusCode)}
			})
		}
		if lerr != nil {
			out["interp"] = lgObs{Kind: "error", Msg: "load: " + lerr.Error()}
		} else {
			o1 := runInterp(interp)
			out["interp"] = o1
			if o1.Kind != "hang" {
				out["interp2"] = runInterp(interp)
				fresh := interpreter.NewInterpreter()
				fresh.LoadModule(*module)
				out["interp3"] = runInterp(fresh)
			}
		}
		// VM at each optimisation level, parser tree and pointer-form tree
		proute := *route
		proute.Body = lgPtrStmts(route.Body)
		for _, lv := range []struct {
			name  string
			level compiler.OptimizationLevel
		}{{"vm0", compiler.OptNone}, {"vm1", compiler.OptBasic}, {"vm2", compiler.OptAggressive}} {
			lv := lv
			out[lv.name] = lgGuard(wd, func() lgObs { return lgRunVM(route, lv.level, qvals, true) })
			pr := proute
			out[lv.name+"p"] = lgGuard(wd, func() lgObs { return lgRunVM(&pr, lv.level, qvals, true) })
		}
		// extra interpreter runs (scheduling perturbation for programs with async blocks)
		if lerr == nil && repeat > 0 {
			var extra []lgObs
			for k := 0; k < repeat; k++ {
				old := runtime.GOMAXPROCS([]int{1, 2, 4, 16}[k%4])
				extra = append(extra, runInterp(interp))
				runtime.GOMAXPROCS(old)
			}
			out["interpN"] = extra
		}
		// every goroutine a run started has ended once the run is over
		leaked := 0
		for w := 0; w < 1000; w++ {
			leaked = runtime.NumGoroutine() - baseG
			if leaked <= 0 {
				break
			}
			time.Sleep(2 * time.Millisecond)
		}
		out["goroutines_left"] = leaked
		// HTTP, both modes
		nonterm := cs.Kind == "error-limit"
		for mode := 0; mode < 2; mode++ {
			name := []string{"httpC", "httpI"}[mode]
			if nonterm && mode == 0 {
				continue // run without a step limit only in TestVerifLangHang
			}
			srv, err := vServe(src, mode == 1)
			if err != nil {
				out[name] = map[string]interface{}{"setup": err.Error()}
				continue
			}
			target := "/run"
			if qs != "" {
				target += "?" + qs
			}
			res := lgGuard(wd, func() lgObs {
				var hdr map[string][]string
				var payload io.Reader
				if in, ok := qvals["input"]; ok {
					b, _ := json.Marshal(in)
					hdr, payload = map[string][]string{"Content-Type": {"application/json"}}, bytes.NewReader(b)
				}
				r := srv.do("POST", target, hdr, payload, "")
				if r.Panic != nil {
					return lgObs{Kind: "panic", Msg: fmt.Sprint(r.Panic)}
				}
				return lgObs{Kind: "value", V: map[string]interface{}{"status": r.Status, "body": r.Body, "compiled": srv.compiled}}
			})
			out[name] = res
			srv.close()
		}
		enc.Encode(out)
	}
	enc.Encode(map[string]int{"summary": 1, "cases": n})
}

// TestVerifLangHang: a non-terminating program through the real server in compiled mode must be
// answered (with an error) in bounded time.  Run last: a handler that never returns keeps spinning.
func TestVerifLangHang(t *testing.T) {
	outf, _ := os.Create(os.Getenv("VERIF_HANG_OUT"))
	defer outf.Close()
	enc := json.NewEncoder(outf)
	defer vQuiet()()
	src := "@ GET /spin {\n  $ i = 0\n  while true {\n    i = i + 1\n  }\n  > i\n}\n\n@ GET /ok {\n  > {ok: true}\n}\n"
	for mode := 0; mode < 2; mode++ {
		module, err := parseSource(src)
		if err != nil {
			t.Fatal(err)
		}
		_, _, _, router, err := setupRoutes(module, "/nonexistent/x.glyph", mode == 1)
		if err != nil {
			t.Fatal(err)
		}
		mux := http.NewServeMux()
		mux.HandleFunc("/", createHandler(router))
		ln, err := net.Listen("tcp", "127.0.0.1:0")
		if err != nil {
			t.Fatal(err)
		}
		hs := &http.Server{Handler: mux}
		go hs.Serve(ln)
		cl := &http.Client{Timeout: 25 * time.Second}
		t0 := time.Now()
		resp, err := cl.Get("http://" + ln.Addr().String() + "/spin")
		rec := map[string]interface{}{"mode": []string{"compiled", "interpreted"}[mode], "secs": time.Since(t0).Seconds()}
		if err != nil {
			rec["result"] = "no response: " + err.Error()
		} else {
			b, _ := io.ReadAll(resp.Body)
			resp.Body.Close()
			rec["result"] = fmt.Sprint(resp.StatusCode)
			rec["body"] = string(b)
		}
		// the server must still answer other requests
		r2, err2 := cl.Get("http://" + ln.Addr().String() + "/ok")
		if err2 != nil {
			rec["after"] = "dead: " + err2.Error()
		} else {
			r2.Body.Close()
			rec["after"] = fmt.Sprint(r2.StatusCode)
		}
		enc.Encode(rec)
		hs.Close()
	}
	// memory probe: a route that doubles a 16-byte string 21 times. An engine that bounds the memory of an evaluation
	// refuses; one that does not answers with the 32 MiB length - and would go on to exhaust the machine at 40 doublings.
	grow := "@ GET /grow {\n  $ s = \"xxxxxxxxxxxxxxxx\"\n  $ i = 0\n  while i < 21 {\n    s = s + s\n    i = i + 1\n  }\n  > length(s)\n}\n"
	for mode := 0; mode < 2; mode++ {
		srv, err := vServe(grow, mode == 1)
		if err != nil {
			t.Fatal(err)
		}
		var m0, m1 runtime.MemStats
		runtime.ReadMemStats(&m0)
		r := srv.do("GET", "/grow", nil, nil, "")
		runtime.ReadMemStats(&m1)
		enc.Encode(map[string]interface{}{"probe": "grow", "mode": []string{"compiled", "interpreted"}[mode], "status": r.Status,
			"body": strings.TrimSpace(r.Body), "alloc": m1.TotalAlloc - m0.TotalAlloc})
		srv.close()
	}
}
