//go:build verif

package main

// C11 driver: replays TLC-generated timed request histories (specs/ratelimit/TokenBucket.tla)
// through the real middleware chain and records hook events for trace validation.

import (
	"bufio"
	"encoding/json"
	"fmt"
	"net"
	"net/http"
	"net/http/httptest"
	"os"
	"strconv"
	"sync"
	"sync/atomic"
	"testing"
	"time"

	"github.com/glyphlang/glyph/pkg/ast"
	"github.com/glyphlang/glyph/pkg/server"
)

type rlReq struct {
	Remote string `json:"remote"`
	Xff    string `json:"xff"`
	Xreal  string `json:"xreal"`
}

type rlStep struct {
	Op       string `json:"op"`
	Req      rlReq  `json:"req"`
	C        string `json:"c"`
	Admitted bool   `json:"admitted"`
	Now      int    `json:"now"`
	Tokens   int    `json:"tokens"`
}

type rlCfg struct {
	Mode    string   `json:"mode"` // "direct" | "declared"
	Burst   int      `json:"Burst"`
	Rate    int      `json:"Rate"`
	Win     int      `json:"Win"`
	Trust   bool     `json:"TrustProxy"`
	Trusted []string `json:"Trusted"`
	Unit    string   `json:"unit"`
}

type rlCase struct {
	ID   int      `json:"id"`
	Cfg  rlCfg    `json:"cfg"`
	Hist []rlStep `json:"hist"`
}

// clients: IPv4 and IPv6 hosts (two IPv6 hosts sharing their leading groups)
var rlAddr = map[string]string{"A": "10.0.0.1", "B": "2001:db8::b", "C": "2001:db8::c", "P": "10.0.0.9", "X": "172.16.5.5"}

func rlBuild(cfg rlCfg, ran *int64) server.RouteHandler {
	handler := server.RouteHandler(func(ctx *server.Context) error {
		atomic.AddInt64(ran, 1)
		return server.SendJSON(ctx, http.StatusOK, map[string]interface{}{"ok": true})
	})
	var mws []server.Middleware
	if cfg.Mode == "declared" {
		mws = routeMiddlewares(&ast.Route{RateLimit: &ast.RateLimit{Requests: uint32(cfg.Rate), Window: cfg.Unit}})
	} else {
		tp := []string{}
		for _, t := range cfg.Trusted {
			tp = append(tp, rlAddr[t])
		}
		server.SetTrustedProxies(tp)
		mws = []server.Middleware{server.RateLimitMiddleware(server.RateLimiterConfig{
			RequestsPerMinute: cfg.Rate, BurstSize: cfg.Burst, TrustProxy: cfg.Trust})}
	}
	for i := len(mws) - 1; i >= 0; i-- {
		handler = mws[i](handler)
	}
	return handler
}

var rlPort int64 = 20000

func rlSend(h server.RouteHandler, r rlReq) (int, error) {
	req := httptest.NewRequest("GET", "/guarded", nil)
	req.RemoteAddr = net.JoinHostPort(rlAddr[r.Remote], strconv.FormatInt(atomic.AddInt64(&rlPort, 1)%40000+1024, 10))
	if r.Xff != "" {
		req.Header.Set("X-Forwarded-For", rlAddr[r.Xff]+", 198.51.100.77")
	}
	if r.Xreal != "" {
		req.Header.Set("X-Real-IP", rlAddr[r.Xreal])
	}
	rec := httptest.NewRecorder()
	ctx := &server.Context{Request: req, ResponseWriter: rec, PathParams: map[string]string{}, StatusCode: http.StatusOK}
	err := h(ctx)
	return rec.Code, err
}

func TestVerifRateReplay(t *testing.T) {
	in, err := os.Open(os.Getenv("VERIF_CASES"))
	if err != nil {
		t.Fatal(err)
	}
	defer in.Close()
	outf, _ := os.Create(os.Getenv("VERIF_OUT"))
	defer outf.Close()
	out := bufio.NewWriter(outf)
	defer out.Flush()
	enc := json.NewEncoder(out)
	sc := bufio.NewScanner(in)
	sc.Buffer(make([]byte, 1<<20), 1<<26)
	ncases, nsteps, nmis := 0, 0, 0
	base := time.Unix(1700000000, 0)
	for sc.Scan() {
		var cs rlCase
		if err := json.Unmarshal(sc.Bytes(), &cs); err != nil {
			t.Fatalf("bad case: %v", err)
		}
		ncases++
		var ran int64
		server.VerifSetClock(base)
		h := rlBuild(cs.Cfg, &ran)
		// Win ticks are one window; the middleware's window is one minute
		tick := time.Minute / time.Duration(cs.Cfg.Win)
		k := 0
		for i, st := range cs.Hist {
			nsteps++
			if st.Op != "Req" {
				continue
			}
			k++
			// strictly increasing micro-offsets keep elapsed times off exact float boundaries
			server.VerifSetClock(base.Add(time.Duration(st.Now)*tick + time.Duration(k)*time.Microsecond))
			before := atomic.LoadInt64(&ran)
			code, herr := rlSend(h, st.Req)
			bodyRan := atomic.LoadInt64(&ran) - before
			wantCode, wantRan := 200, int64(1)
			if !st.Admitted {
				wantCode, wantRan = 429, 0
			}
			if herr != nil || code != wantCode || bodyRan != wantRan {
				nmis++
				enc.Encode(map[string]interface{}{"case": cs.ID, "step": i, "field": "admit",
					"want": fmt.Sprint(wantCode, "/ran=", wantRan), "got": fmt.Sprint(code, "/ran=", bodyRan, "/err=", herr)})
				break
			}
		}
	}
	enc.Encode(map[string]int{"summary": 1, "cases": ncases, "steps": nsteps, "mismatches": nmis})
}

// Declared limits with any unit: a fixed timed pattern per (unit, n); the hook events are
// written as a trace that TLC validates against the bucket the declaration maps to.
func TestVerifRateDeclared(t *testing.T) {
	outf, _ := os.Create(os.Getenv("VERIF_DECL_OUT"))
	defer outf.Close()
	out := bufio.NewWriter(outf)
	defer out.Flush()
	enc := json.NewEncoder(out)
	base := time.Unix(1700000000, 0)
	rev := map[string]string{}
	for k, v := range rlAddr {
		rev[v] = k
	}
	var cases []struct {
		Unit string `json:"unit"`
		N    int    `json:"n"`
	}
	json.Unmarshal([]byte(os.Getenv("VERIF_DECL")), &cases)
	const tpm = 60 // ticks per minute
	tick := time.Minute / tpm
	defer func() { server.VerifHook = nil }()
	for _, c := range cases {
		var ran int64
		server.VerifSetClock(base)
		h := rlBuild(rlCfg{Mode: "declared", Rate: c.N, Unit: c.Unit}, &ran)
		now := 0
		k := 0
		server.VerifHook = func(name string, a ...interface{}) {
			if name != "RateReq" {
				return
			}
			enc.Encode(map[string]interface{}{"ev": "Req", "c": rev[a[0].(string)], "tokens": a[1].(int),
				"admitted": a[2].(bool), "now": now})
		}
		enc.Encode(map[string]interface{}{"ev": "Reset", "unit": c.Unit, "n": c.N})
		send := func(r rlReq) {
			k++
			server.VerifSetClock(base.Add(time.Duration(now)*tick + time.Duration(k)*time.Microsecond))
			before := atomic.LoadInt64(&ran)
			code, _ := rlSend(h, r)
			bodyRan := atomic.LoadInt64(&ran) - before
			if (code == 200) != (bodyRan == 1) || (code != 200 && code != 429) {
				enc.Encode(map[string]interface{}{"ev": "BAD", "what": fmt.Sprintf("%d/%s: code=%d bodyRan=%d", c.N, c.Unit, code, bodyRan)})
			}
		}
		advance := func(to int) {
			now = to
			enc.Encode(map[string]interface{}{"ev": "Advance", "now": now})
		}
		flood := func(n int) {
			for i := 0; i < n; i++ {
				send(rlReq{Remote: "A"})
			}
		}
		flood(61*c.N + 3)
		send(rlReq{Remote: "B"})                       // another client has its own budget
		send(rlReq{Remote: "C"})                       // so has an IPv6 neighbour
		send(rlReq{Remote: "A", Xff: "X", Xreal: "X"}) // forged headers give A no fresh bucket
		for i := 1; i <= 90; i++ { // one request per second for 90 s
			advance(i)
			send(rlReq{Remote: "A"})
		}
		advance(4 * tpm) // 4 minutes
		flood(c.N + 2)
		advance(11 * tpm) // idle until just before the sweeper's staleness threshold
		flood(c.N + 2)
		advance(80 * tpm) // more than an hour later
		flood(c.N + 2)
		advance(1600 * tpm) // more than a day later
		flood(61*c.N + 3)
	}
}

// I->M: concurrent flood at frozen instants; events emitted under the limiter's mutex.
func TestVerifRateRecord(t *testing.T) {
	var cfgs []rlCfg
	json.Unmarshal([]byte(os.Getenv("VERIF_CFGS")), &cfgs)
	for ci, cfg := range cfgs {
		rlRecordOne(t, cfg, fmt.Sprintf("%s.%d", os.Getenv("VERIF_REC_OUT"), ci), ci)
	}
}

func rlRecordOne(t *testing.T, cfg rlCfg, path string, ci int) {
	outf, _ := os.Create(path)
	defer outf.Close()
	out := bufio.NewWriter(outf)
	defer out.Flush()
	enc := json.NewEncoder(out)
	seed, _ := strconv.Atoi(os.Getenv("VERIF_SEED"))
	seed += ci
	ntr, _ := strconv.Atoi(os.Getenv("VERIF_NTRACES"))
	if ntr == 0 {
		ntr = 5
	}
	base := time.Unix(1700000000, 0)
	tick := time.Minute / time.Duration(cfg.Win)
	rev := map[string]string{}
	for k, v := range rlAddr {
		rev[v] = k
	}
	defer func() { server.VerifHook = nil }()
	for tr := 0; tr < ntr; tr++ {
		var ran int64
		server.VerifSetClock(base)
		h := rlBuild(cfg, &ran)
		var events []map[string]interface{}
		now := 0
		server.VerifHook = func(name string, a ...interface{}) {
			if name != "RateReq" {
				return
			}
			events = append(events, map[string]interface{}{"ev": "Req", "c": rev[a[0].(string)], "tokens": a[1].(int),
				"admitted": a[2].(bool), "now": now})
		}
		enc.Encode(map[string]interface{}{"ev": "Reset"})
		okCount := int64(0)
		for round := 0; round < 5; round++ {
			var wg sync.WaitGroup
			for g := 0; g < 16; g++ {
				wg.Add(1)
				go func(g int) {
					defer wg.Done()
					who := "A"
					if (g+seed+tr)%3 == 0 {
						who = "B"
					}
					code, _ := rlSend(h, rlReq{Remote: who, Xff: "X"})
					if code == 200 {
						atomic.AddInt64(&okCount, 1)
					}
				}(g)
			}
			wg.Wait()
			// time advances only while no request is in flight
			adv := 1 + (round+seed+tr)%3
			for i := 0; i < adv; i++ {
				now++
				events = append(events, map[string]interface{}{"ev": "Tick", "now": now})
			}
			server.VerifSetClock(base.Add(time.Duration(now)*tick + time.Duration(round+1)*time.Millisecond))
		}
		for _, e := range events {
			enc.Encode(e)
		}
		if atomic.LoadInt64(&ran) != okCount {
			enc.Encode(map[string]interface{}{"ev": "BAD", "what": fmt.Sprintf("bodies run %d != 200 responses %d", ran, okCount)})
		}
	}
}
