//go:build verif

package main

// C02 driver, request binding: requests decided by specs/lang/ReqBind.tla are sent to a compiled and an
// interpreted server built from the same module; the route reports what it sees as `input`.

import (
	"encoding/json"
	"strings"
	"testing"
)

const rbModule = `
@ POST /echo {
  if input == null {
    > {bound: false}
  }
  > {bound: true, input: input}
}

@ PUT /echo {
  if input == null {
    > {bound: false}
  }
  > {bound: true, input: input}
}

@ PATCH /echo {
  if input == null {
    > {bound: false}
  }
  > {bound: true, input: input}
}

@ DELETE /echo {
  if input == null {
    > {bound: false}
  }
  > {bound: true, input: input}
}

@ GET /echo {
  if input == null {
    > {bound: false}
  }
  > {bound: true, input: input}
}
`

var rbBodies = map[string]string{"object": `{"name":"ada"}`, "array": `[1,2]`, "scalar": `7`, "string": `"s"`, "malformed": `{"name":`, "empty": ``, "null": `null`}

func TestVerifReqBind(t *testing.T) {
	sc, enc, done := vOpenIO(t)
	defer done()
	defer vQuiet()()
	srv := map[string]*vServer{}
	for _, mode := range []string{"compiled", "interpreted"} {
		s, err := vServe(rbModule, mode == "interpreted")
		if err != nil {
			t.Fatalf("%s: %v", mode, err)
		}
		if s.compiled != (mode == "compiled") {
			t.Fatalf("%s server runs compiled=%v", mode, s.compiled)
		}
		srv[mode] = s
	}
	n := 0
	for sc.Scan() {
		var c struct {
			ID  int `json:"id"`
			Req struct {
				M  string `json:"m"`
				CT string `json:"ct"`
				B  string `json:"b"`
			} `json:"req"`
		}
		if err := json.Unmarshal(sc.Bytes(), &c); err != nil {
			t.Fatal(err)
		}
		n++
		out := map[string]interface{}{"id": c.ID}
		for mode, s := range srv {
			hdr := map[string][]string{}
			if c.Req.CT != "" {
				hdr["Content-Type"] = []string{c.Req.CT}
			}
			var r vResp
			if c.Req.B == "none" {
				r = s.do(c.Req.M, "/echo", hdr, nil, "")
			} else {
				r = s.do(c.Req.M, "/echo", hdr, strings.NewReader(rbBodies[c.Req.B]), "")
			}
			seen := "other"
			if r.Panic != nil {
				seen = "panic"
			} else if r.Status == 200 {
				var m map[string]interface{}
				if json.Unmarshal([]byte(r.Body), &m) == nil {
					in, _ := m["input"].(map[string]interface{})
					if m["bound"] == true && in != nil && len(in) == 1 && in["name"] == "ada" {
						seen = "object"
					} else if m["bound"] == true && in != nil && len(in) == 0 {
						seen = "emptyobject"
					} else if m["bound"] == false {
						seen = "null"
					}
				}
			}
			out[mode] = map[string]interface{}{"input": seen, "status": r.Status, "body": strings.TrimSpace(r.Body)}
		}
		enc.Encode(out)
	}
	enc.Encode(map[string]int{"summary": 1, "cases": n})
}
