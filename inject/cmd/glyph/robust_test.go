//go:build verif

package main

// C10 driver: byte strings chosen by specs/binfmt/Bytecode.tla (compiler output and its malformations) are
// given to the decompiler and the VM; mutated source bytes to the lexers and the parser.  Every run is
// observed for result / diagnostic / panic, wall time and bytes allocated.

import (
	"encoding/json"
	"fmt"
	"os"
	"runtime"
	"strconv"
	"testing"
	"time"

	"github.com/glyphlang/glyph/pkg/ast"
	"github.com/glyphlang/glyph/pkg/compiler"
	"github.com/glyphlang/glyph/pkg/decompiler"
	"github.com/glyphlang/glyph/pkg/parser"
	"github.com/glyphlang/glyph/pkg/vm"
)

type rbRun struct {
	Kind  string `json:"kind"` // ok | error | panic | hang
	Msg   string `json:"msg,omitempty"`
	Ms    int64  `json:"ms"`
	Alloc uint64 `json:"alloc"`
}

func rbMeasure(limit time.Duration, f func() (bool, string)) rbRun {
	var m0, m1 runtime.MemStats
	runtime.ReadMemStats(&m0)
	t0 := time.Now()
	done := make(chan rbRun, 1)
	go func() {
		defer func() {
			if r := recover(); r != nil {
				done <- rbRun{Kind: "panic", Msg: fmt.Sprint(r)}
			}
		}()
		ok, msg := f()
		if ok {
			done <- rbRun{Kind: "ok", Msg: msg}
		} else {
			done <- rbRun{Kind: "error", Msg: msg}
		}
	}()
	var out rbRun
	select {
	case out = <-done:
	case <-time.After(limit):
		out = rbRun{Kind: "hang", Msg: "no result after " + limit.String()}
	}
	out.Ms = time.Since(t0).Milliseconds()
	runtime.ReadMemStats(&m1)
	out.Alloc = m1.TotalAlloc - m0.TotalAlloc
	if len(out.Msg) > 300 {
		out.Msg = out.Msg[:300]
	}
	return out
}

func TestVerifRobustEmit(t *testing.T) {
	sc, enc, done := vOpenIO(t)
	defer done()
	for sc.Scan() {
		var c struct {
			ID  int    `json:"id"`
			Src string `json:"src"`
		}
		if err := json.Unmarshal(sc.Bytes(), &c); err != nil {
			t.Fatal(err)
		}
		module, err := parseSource(c.Src)
		if err != nil {
			enc.Encode(map[string]interface{}{"id": c.ID, "error": "parse: " + err.Error()})
			continue
		}
		for _, lv := range []compiler.OptimizationLevel{compiler.OptNone, compiler.OptBasic} {
			cc := compiler.NewCompilerWithOptLevel(lv)
			var bc []byte
			for _, item := range module.Items {
				if route, ok := item.(*ast.Route); ok {
					bc, err = cc.CompileRoute(route)
					break
				}
			}
			if err != nil || bc == nil {
				enc.Encode(map[string]interface{}{"id": c.ID, "level": int(lv), "error": fmt.Sprint("compile: ", err)})
				continue
			}
			ints := make([]int, len(bc))
			for i, b := range bc {
				ints[i] = int(b)
			}
			enc.Encode(map[string]interface{}{"id": c.ID, "level": int(lv), "bytes": ints})
		}
	}
}

type rbCase struct {
	CID   int   `json:"cid"`
	Bytes []int `json:"bytes"`
}

func rbBytes(c rbCase) []byte {
	b := make([]byte, len(c.Bytes))
	for i, x := range c.Bytes {
		b[i] = byte(x)
	}
	return b
}

func TestVerifRobustFeed(t *testing.T) {
	sc, enc, done := vOpenIO(t)
	defer done()
	steps, _ := strconv.Atoi(os.Getenv("VERIF_STEPS"))
	if steps == 0 {
		steps = 200000
	}
	n := 0
	for sc.Scan() {
		var c rbCase
		if err := json.Unmarshal(sc.Bytes(), &c); err != nil {
			t.Fatal(err)
		}
		n++
		bc := rbBytes(c)
		out := map[string]interface{}{"cid": c.CID}
		var dres *decompiler.DecompiledOutput
		out["dec"] = rbMeasure(5*time.Second, func() (bool, string) {
			res, err := decompiler.NewDecompiler().Decompile(append([]byte(nil), bc...))
			if err != nil {
				return false, err.Error()
			}
			dres = res
			_ = res.FormatDisassembly()
			return true, ""
		})
		if dres != nil {
			offs := make([]int, len(dres.Instructions))
			args := make([]int64, len(dres.Instructions))
			for i, in := range dres.Instructions {
				offs[i] = in.Offset
				args[i] = -1
				if in.Operand != "" {
					args[i], _ = strconv.ParseInt(in.Operand, 10, 64)
				}
			}
			ctypes := make([]string, len(dres.Constants))
			for i, k := range dres.Constants {
				ctypes[i] = k.Type
			}
			out["offs"], out["args"], out["ctypes"] = offs, args, ctypes
		}
		out["vm"] = rbMeasure(8*time.Second, func() (bool, string) {
			m := vm.NewVM()
			m.SetMaxSteps(steps)
			for _, name := range []string{"qi", "qs", "qb", "input", "query", "headers"} {
				m.SetLocal(name, vm.NullValue{})
			}
			res, err := m.Execute(append([]byte(nil), bc...))
			if err != nil {
				return false, err.Error()
			}
			return true, fmt.Sprint(res)
		})
		enc.Encode(out)
	}
	enc.Encode(map[string]int{"summary": 1, "cases": n})
}

func TestVerifRobustSource(t *testing.T) {
	sc, enc, done := vOpenIO(t)
	defer done()
	n := 0
	for sc.Scan() {
		var c rbCase
		if err := json.Unmarshal(sc.Bytes(), &c); err != nil {
			t.Fatal(err)
		}
		n++
		src := string(rbBytes(c))
		out := map[string]interface{}{"cid": c.CID}
		var parsed *ast.Module
		out["compact"] = rbMeasure(10*time.Second, func() (bool, string) {
			toks, err := parser.NewLexer(src).Tokenize()
			if err != nil {
				return false, "lex: " + err.Error()
			}
			m, err := parser.NewParser(toks).Parse()
			if err != nil {
				return false, "parse: " + err.Error()
			}
			parsed = m
			return true, ""
		})
		if parsed != nil {
			// what the product does next with an accepted source: every route is compiled
			out["compile"] = rbMeasure(10*time.Second, func() (bool, string) {
				c := compiler.NewCompilerWithOptLevel(compiler.OptBasic)
				for _, it := range parsed.Items {
					if route, ok := it.(*ast.Route); ok {
						if _, err := c.CompileRoute(route); err != nil {
							return false, "compile: " + err.Error()
						}
					}
				}
				return true, ""
			})
		}
		out["expanded"] = rbMeasure(10*time.Second, func() (bool, string) {
			toks, err := parser.NewExpandedLexer(src).Tokenize()
			if err != nil {
				return false, "lex: " + err.Error()
			}
			if _, err := parser.NewParser(toks).Parse(); err != nil {
				return false, "parse: " + err.Error()
			}
			return true, ""
		})
		enc.Encode(out)
	}
	enc.Encode(map[string]int{"summary": 1, "cases": n})
}


// TestVerifRobustLimit: programs whose async blocks never end are run under every step limit 1..N. Whatever the
// position of the limit relative to the block's start, Execute must return and the block's goroutine must end
// (it is bounded by the same limit), i.e. the goroutine count returns to where it was.
func TestVerifRobustLimit(t *testing.T) {
	sc, enc, done := vOpenIO(t)
	defer done()
	maxLimit, _ := strconv.Atoi(os.Getenv("VERIF_MAXLIMIT"))
	if maxLimit == 0 {
		maxLimit = 60
	}
	n := 0
	for sc.Scan() {
		var c rbCase
		if err := json.Unmarshal(sc.Bytes(), &c); err != nil {
			t.Fatal(err)
		}
		bc := rbBytes(c)
		for k := 1; k <= maxLimit; k++ {
			n++
			base := runtime.NumGoroutine()
			run := rbMeasure(3*time.Second, func() (bool, string) {
				m := vm.NewVM()
				m.SetMaxSteps(k)
				res, err := m.Execute(append([]byte(nil), bc...))
				if err != nil {
					return false, err.Error()
				}
				return true, fmt.Sprint(res)
			})
			left := 0
			for w := 0; w < 250; w++ {
				left = runtime.NumGoroutine() - base
				if left <= 0 {
					break
				}
				time.Sleep(2 * time.Millisecond)
			}
			if run.Kind == "hang" || run.Kind == "panic" || left > 0 {
				enc.Encode(map[string]interface{}{"cid": c.CID, "limit": k, "run": run, "goroutines_left": left})
				if left > 0 || run.Kind == "hang" {
					// a spinning goroutine stays for good: stop here rather than pile them up
					enc.Encode(map[string]int{"summary": 1, "cases": n, "stopped": 1})
					return
				}
			}
		}
	}
	enc.Encode(map[string]int{"summary": 1, "cases": n})
}
