//go:build verif

package main

// C05 driver: tables and requests enumerated by TLC (specs/router/Router.tla) are served
// through parseSource+setupRoutes+createHandler in both execution modes and through
// server.Router.Match directly; the marker of the body that ran and the bound parameters
// are compared with the specification.

import (
	"encoding/json"
	"fmt"
	"net/url"
	"sort"
	"strings"
	"testing"

	"github.com/glyphlang/glyph/pkg/server"
)

type rtSeg struct {
	K string `json:"k"`
	V string `json:"v"`
}
type rtDecl struct {
	M   string  `json:"m"`
	Pat []rtSeg `json:"pat"`
}
type rtExp struct {
	M      string     `json:"m"`
	Path   []string   `json:"path"`
	Route  int        `json:"route"`
	Params [][]string `json:"params"`
}
type rtCase struct {
	ID    int      `json:"id"`
	Table []rtDecl `json:"table"`
	Exp   []rtExp  `json:"exp"`
}

// concrete values for the abstract "other" segment value z
var rtOdd = []string{"z", "x y", "100%", "café", "q?x", "a.b", "~t", "1", "%41x"}

func rtPattern(d rtDecl) string {
	if len(d.Pat) == 0 {
		return "/"
	}
	var b strings.Builder
	for _, s := range d.Pat {
		b.WriteString("/")
		if s.K == "p" {
			b.WriteString(":")
		}
		b.WriteString(s.V)
	}
	return b.String()
}

func rtSource(tab []rtDecl) string {
	var b strings.Builder
	for i, d := range tab {
		fmt.Fprintf(&b, "@ %s %s {\n  > {route: %d", d.M, rtPattern(d), i+1)
		for _, s := range d.Pat {
			if s.K == "p" {
				fmt.Fprintf(&b, ", %s: %s", s.V, s.V)
			}
		}
		b.WriteString("}\n}\n\n")
	}
	return b.String()
}

func rtParamsString(m map[string]string) string {
	var ks []string
	for k, v := range m {
		ks = append(ks, k+"="+v)
	}
	sort.Strings(ks)
	return strings.Join(ks, "&")
}

func TestVerifRouterReplay(t *testing.T) {
	sc, enc, done := vOpenIO(t)
	defer done()
	defer vQuiet()()
	ncases, nreq, nmis := 0, 0, 0
	for sc.Scan() {
		var cs rtCase
		if err := json.Unmarshal(sc.Bytes(), &cs); err != nil {
			t.Fatalf("bad case %v", err)
		}
		ncases++
		src := rtSource(cs.Table)
		report := func(ri int, layer, want, got string) {
			nmis++
			enc.Encode(map[string]interface{}{"case": cs.ID, "req": ri, "layer": layer, "want": want, "got": got})
		}
		// layer 1: the router itself
		router := server.NewRouter()
		for i, d := range cs.Table {
			idx := i + 1
			_ = idx
			if err := router.RegisterRoute(&server.Route{Method: server.HTTPMethod(d.M), Path: rtPattern(d),
				Handler: func(*server.Context) error { return nil }}); err != nil {
				t.Fatalf("register: %v", err)
			}
		}
		all := router.GetAllRoutes()
		indexOf := func(r *server.Route) int {
			// identify the declaration by pointer position in registration order per method
			for _, rs := range all {
				for _, x := range rs {
					if x == r {
						// find its global index: n-th declaration with this method
						k := 0
						for gi, d := range cs.Table {
							if string(x.Method) == d.M {
								if rs[k] == r {
									return gi + 1
								}
								k++
							}
						}
					}
				}
			}
			return -1
		}
		var servers [2]*vServer
		var serr [2]error
		servers[0], serr[0] = vServe(src, false)
		servers[1], serr[1] = vServe(src, true)
		for ri, e := range cs.Exp {
			nreq++
			conc := make([]string, len(e.Path))
			subst := map[string]string{}
			for j, s := range e.Path {
				if s == "z" {
					conc[j] = rtOdd[(cs.ID+ri+j)%len(rtOdd)]
					subst["z"] = conc[j] // (bindings are compared position-wise below)
				} else {
					conc[j] = s
				}
			}
			wantParams := map[string]string{}
			if e.Route != 0 {
				// recompute expected bindings with concrete values: position-wise over the normalised path
				var norm []string
				for _, s := range conc {
					if s != "" {
						norm = append(norm, s)
					}
				}
				for j, s := range cs.Table[e.Route-1].Pat {
					if s.K == "p" {
						wantParams[s.V] = norm[j]
					}
				}
			}
			raw := "/" + strings.Join(conc, "/")
			// layer 1
			r, params, err := router.Match(server.HTTPMethod(e.M), raw)
			got := 0
			if err == nil && r != nil {
				got = indexOf(r)
			}
			if got != e.Route {
				report(ri, "router", fmt.Sprint("route ", e.Route), fmt.Sprint("route ", got, " path=", raw))
			} else if got != 0 && rtParamsString(params) != rtParamsString(wantParams) {
				report(ri, "router", rtParamsString(wantParams), rtParamsString(params)+" path="+raw)
			}
			// layer 2: HTTP in both modes
			esc := make([]string, len(conc))
			for j, s := range conc {
				esc[j] = url.PathEscape(s)
			}
			target := "/" + strings.Join(esc, "/")
			for mode := 0; mode < 2; mode++ {
				layer := []string{"http-compiled", "http-interpreted"}[mode]
				if serr[mode] != nil {
					if ri == 0 {
						report(ri, layer, "module served", "setup error: "+serr[mode].Error())
					}
					continue
				}
				resp := servers[mode].do(e.M, target, nil, nil, "")
				if resp.Panic != nil {
					report(ri, layer, "response", fmt.Sprint("panic ", resp.Panic))
					continue
				}
				if resp.Status == 301 || resp.Status == 308 || resp.Status == 307 {
					// the mux canonicalises unclean paths by redirect; nothing ran
					if strings.Contains(target, "//") || vHasKey(resp.JSON, "route") == false {
						continue
					}
				}
				gotRoute := 0
				gotParams := map[string]string{}
				if m, ok := resp.JSON.(map[string]interface{}); ok {
					if rv, ok := m["route"].(float64); ok {
						gotRoute = int(rv)
					}
					for k, v := range m {
						if k != "route" && k != "error" && k != "path" {
							gotParams[k] = fmt.Sprint(v)
						}
					}
				}
				if e.Route == 0 {
					if resp.Status != 404 || gotRoute != 0 {
						report(ri, layer, "404 and no body run", fmt.Sprint(resp.Status, " route ", gotRoute, " ", target))
					}
					continue
				}
				if resp.Status != 200 || gotRoute != e.Route {
					report(ri, layer, fmt.Sprint("200 route ", e.Route), fmt.Sprint(resp.Status, " route ", gotRoute, " ", e.M, " ", target, " body=", strings.TrimSpace(resp.Body)))
				} else if rtParamsString(gotParams) != rtParamsString(wantParams) {
					report(ri, layer, rtParamsString(wantParams), rtParamsString(gotParams)+" "+target)
				}
			}
		}
	}
	enc.Encode(map[string]int{"summary": 1, "cases": ncases, "requests": nreq, "mismatches": nmis})
}
