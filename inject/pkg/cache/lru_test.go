//go:build verif

package cache

// M->I replay driver for specs/cache/LruCache.tla: executes TLC-generated behaviours on a
// real LRUCache and compares every call's result and the projected state with the spec.
// I->M recorder: concurrent stress whose events (emitted under c.mu by the verif hooks)
// are written as a trace for LruCacheTrace.tla.

import (
	"bufio"
	"encoding/json"
	"fmt"
	"math/rand"
	"os"
	"sort"
	"strconv"
	"strings"
	"sync"
	"testing"
	"time"
)

const lruUnit = 8 // bytes per abstract size unit
const lruTick = time.Second

type lruCfg struct {
	Cap     int `json:"Cap"`
	MaxSize int `json:"MaxSize"`
	DefTTL  int `json:"DefTTL"`
}

type lruArgs struct {
	K      string   `json:"k"`
	V      int      `json:"v"`
	Size   int      `json:"size"`
	TTL    int      `json:"ttl"`
	Tags   []string `json:"tags"`
	Tag    string   `json:"tag"`
	Prefix string   `json:"prefix"`
}

type lruRet struct {
	Hit *bool           `json:"hit"`
	V   json.RawMessage `json:"v"`
	Err *bool           `json:"err"`
	N   *int            `json:"n"`
}

type lruStep struct {
	Op    string   `json:"op"`
	Args  lruArgs  `json:"args"`
	Ret   lruRet   `json:"ret"`
	Ev    []string `json:"ev"`
	Order []string `json:"order"`
	Cur   int      `json:"cur"`
	Now   int      `json:"now"`
	Exp   []int    `json:"exp"`
}

type lruCase struct {
	ID   int       `json:"id"`
	Cfg  lruCfg    `json:"cfg"`
	Hist []lruStep `json:"hist"`
}

type lruMismatch struct {
	Case  int    `json:"case"`
	Step  int    `json:"step"`
	Op    string `json:"op"`
	Field string `json:"field"`
	Want  string `json:"want"`
	Got   string `json:"got"`
}

func lruValue(k string, v, size int) string {
	s := k + ":" + strconv.Itoa(v)
	n := size * lruUnit
	for len(s) < n {
		s += "."
	}
	return s
}

func lruParseValue(x interface{}) (string, int, bool) {
	s, ok := x.(string)
	if !ok {
		return "", 0, false
	}
	s = strings.TrimRight(s, ".")
	i := strings.IndexByte(s, ':')
	if i < 0 {
		return "", 0, false
	}
	v, err := strconv.Atoi(s[i+1:])
	return s[:i], v, err == nil
}

func lruTTL(t int) time.Duration {
	if t < 0 {
		return -1
	}
	return time.Duration(t) * lruTick
}

// lruDeadlines: the deadline of every entry in recency order, in ticks of the virtual clock (0: none)
func lruDeadlines(c *LRUCache) []int {
	out := []int{}
	for e := c.evictList.Front(); e != nil; e = e.Next() {
		at := e.Value.(*Entry).ExpiresAt
		if at.IsZero() {
			out = append(out, 0)
		} else {
			out = append(out, int(at.Sub(time.Unix(1700000000, 0))/lruTick))
		}
	}
	return out
}

func lruOrder(c *LRUCache) []string {
	out := []string{}
	for e := c.evictList.Front(); e != nil; e = e.Next() {
		out = append(out, e.Value.(*Entry).Key)
	}
	return out
}

type lruHarness struct {
	c   *LRUCache
	hc  *HTTPCache
	mu  sync.Mutex
	evs []string
}

func newLruHarness(cfg lruCfg) *lruHarness {
	h := &lruHarness{}
	h.c = NewLRUCache(WithCapacity(cfg.Cap), WithMaxSize(int64(cfg.MaxSize*lruUnit)),
		WithDefaultTTL(time.Duration(cfg.DefTTL)*lruTick),
		WithOnEvict(func(k string, v interface{}) { h.evs = append(h.evs, k) }))
	h.hc = &HTTPCache{cache: h.c, config: DefaultHTTPCacheConfig()}
	return h
}

type lruObs struct {
	hit   bool
	vk    string
	vv    int
	err   bool
	n     int
	hang  bool
	panic string
}

// exec runs one call under a watchdog ("every operation returns").
func (h *lruHarness) exec(st lruStep, wd time.Duration) lruObs {
	done := make(chan lruObs, 1)
	go func() {
		var o lruObs
		defer func() {
			if r := recover(); r != nil {
				o.panic = fmt.Sprint(r)
			}
			done <- o
		}()
		a := st.Args
		switch st.Op {
		case "Get":
			x, ok := h.c.Get(a.K)
			o.hit = ok
			if ok {
				o.vk, o.vv, _ = lruParseValue(x)
			}
		case "Set":
			o.err = h.c.Set(a.K, lruValue(a.K, a.V, a.Size), lruTTL(a.TTL)) != nil
		case "SetTags":
			tags := append([]string{}, a.Tags...)
			sort.Strings(tags)
			o.err = h.c.SetWithTags(a.K, lruValue(a.K, a.V, a.Size), lruTTL(a.TTL), tags) != nil
		case "Delete":
			o.err = h.c.Delete(a.K) != nil
		case "DelTag":
			o.n = h.c.DeleteByTag(a.Tag)
		case "InvPrefix":
			o.n = h.hc.InvalidateByPrefix(a.Prefix)
		case "Clear":
			o.err = h.c.Clear() != nil
		case "Tick":
			verifAdvance(lruTick)
		default:
			o.panic = "unknown op " + st.Op
		}
	}()
	select {
	case o := <-done:
		return o
	case <-time.After(wd):
		return lruObs{hang: true}
	}
}

func sameSet(a, b []string) bool {
	x := append([]string{}, a...)
	y := append([]string{}, b...)
	sort.Strings(x)
	sort.Strings(y)
	return strings.Join(x, ",") == strings.Join(y, ",")
}

func TestVerifLruReplay(t *testing.T) {
	in, err := os.Open(os.Getenv("VERIF_CASES"))
	if err != nil {
		t.Fatal(err)
	}
	defer in.Close()
	outf, err := os.Create(os.Getenv("VERIF_OUT"))
	if err != nil {
		t.Fatal(err)
	}
	defer outf.Close()
	out := bufio.NewWriter(outf)
	defer out.Flush()
	enc := json.NewEncoder(out)
	wd := 2 * time.Second
	sc := bufio.NewScanner(in)
	sc.Buffer(make([]byte, 1<<20), 1<<26)
	ncases, nsteps, nmis, nhang := 0, 0, 0, 0
	for sc.Scan() {
		if nhang >= 3 {
			// every hung call leaves a goroutine spinning with the mutex held; stop here
			break
		}
		var cs lruCase
		if err := json.Unmarshal(sc.Bytes(), &cs); err != nil {
			t.Fatalf("bad case: %v", err)
		}
		ncases++
		verifSetClock(time.Unix(1700000000, 0))
		h := newLruHarness(cs.Cfg)
		report := func(i int, f, want, got string) {
			nmis++
			enc.Encode(lruMismatch{cs.ID, i, cs.Hist[i].Op, f, want, got})
		}
		for i, st := range cs.Hist {
			nsteps++
			h.evs = nil
			o := h.exec(st, wd)
			if o.hang {
				report(i, "hang", "returns", "blocked > "+wd.String())
				nhang++
				break
			}
			if o.panic != "" {
				report(i, "panic", "returns", o.panic)
				break
			}
			bad := false
			chk := func(f string, want, got interface{}) {
				w, g := fmt.Sprint(want), fmt.Sprint(got)
				if w != g {
					report(i, f, w, g)
					bad = true
				}
			}
			if st.Ret.Hit != nil {
				chk("hit", *st.Ret.Hit, o.hit)
				if *st.Ret.Hit && o.hit {
					var wv []interface{}
					json.Unmarshal(st.Ret.V, &wv)
					chk("value", fmt.Sprint(wv[0], ":", wv[1]), fmt.Sprint(o.vk, ":", o.vv))
				}
			}
			if st.Ret.Err != nil {
				chk("err", *st.Ret.Err, o.err)
			}
			if st.Ret.N != nil {
				chk("n", *st.Ret.N, o.n)
			}
			if st.Op == "DelTag" || st.Op == "InvPrefix" || st.Op == "Clear" {
				if !sameSet(st.Ev, h.evs) {
					chk("evicted", st.Ev, h.evs)
				}
			} else if st.Op != "Tick" {
				chk("evicted", st.Ev, append([]string{}, h.evs...))
			}
			// projected state; a call that hangs holds the mutex, so only read after return
			h.c.mu.Lock()
			ord := lruOrder(h.c)
			dls := lruDeadlines(h.c)
			cur := h.c.currentSize
			nitems := len(h.c.items)
			h.c.mu.Unlock()
			chk("order", st.Order, ord)
			if st.Exp != nil {
				chk("deadlines", st.Exp, dls)
			}
			chk("cur", st.Cur*lruUnit, cur)
			chk("index", len(st.Order), nitems)
			s := h.c.Stats()
			chk("stats.count", len(st.Order), s.EntryCount)
			chk("stats.size", st.Cur*lruUnit, s.Size)
			if bad {
				break
			}
		}
		if nhang == 0 {
			h.c.Close()
		}
	}
	enc.Encode(map[string]int{"summary": 1, "cases": ncases, "steps": nsteps, "mismatches": nmis, "hangs": nhang})
}

// ---------------------------------------------------------------- I->M recorder

type lruEvent struct {
	Ev    string   `json:"ev"`
	G     int      `json:"g"`
	K     string   `json:"k"`
	V     int      `json:"v"`
	Size  int      `json:"size"`
	TTL   int      `json:"ttl"`
	Tags  []string `json:"tags"`
	Tag   string   `json:"tag"`
	Pre   string   `json:"prefix"`
	Hit   bool     `json:"hit"`
	RK    string   `json:"rk"`
	RV    int      `json:"rv"`
	Err   bool     `json:"err"`
	N     int      `json:"n"`
	Order []string `json:"order"`
	Cur   int      `json:"cur"`
	Now   int      `json:"now"`
}

func TestVerifLruRecord(t *testing.T) {
	seed, _ := strconv.ParseInt(os.Getenv("VERIF_SEED"), 10, 64)
	ntraces, _ := strconv.Atoi(os.Getenv("VERIF_NTRACES"))
	nops, _ := strconv.Atoi(os.Getenv("VERIF_NOPS"))
	ng, _ := strconv.Atoi(os.Getenv("VERIF_NG"))
	if ntraces == 0 {
		ntraces = 20
	}
	if nops == 0 {
		nops = 40
	}
	if ng == 0 {
		ng = 4
	}
	var cfgs []lruCfg
	json.Unmarshal([]byte(os.Getenv("VERIF_CFGS")), &cfgs)
	outf, err := os.Create(os.Getenv("VERIF_OUT"))
	if err != nil {
		t.Fatal(err)
	}
	defer outf.Close()
	out := bufio.NewWriter(outf)
	defer out.Flush()
	enc := json.NewEncoder(out)
	keys := []string{"a1", "a2", "b1"}
	tagsets := [][]string{{"t1"}, {"t1", "t2"}}
	sizes := []int{1, 2, 4}
	ttls := []int{-1, 0, 2}
	defer func() { VerifHook = nil }()
	for tr := 0; tr < ntraces; tr++ {
		cfg := cfgs[tr%len(cfgs)]
		verifSetClock(time.Unix(1700000000, 0))
		h := newLruHarness(cfg)
		var events []lruEvent
		tick := 0 // guarded by h.c.mu (the driver ticks while holding it)
		returned := map[int]lruEvent{}
		var rmu sync.Mutex
		// hook: called with c.mu held, after the state change
		VerifHook = func(name string, c *LRUCache, a ...interface{}) {
			if c != h.c {
				return
			}
			e := lruEvent{Ev: name, Order: lruOrder(c), Cur: int(c.currentSize), Now: tick, Tags: []string{}}
			switch name {
			case "Get":
				e.K = a[0].(string)
				e.Hit = a[2].(bool)
				if e.Hit {
					e.RK, e.RV, _ = lruParseValue(a[1])
				}
			case "Set", "SetTags":
				e.K = a[0].(string)
				_, e.V, _ = lruParseValue(a[1])
				e.Size = len(a[1].(string)) / lruUnit
				d := a[2].(time.Duration)
				if d < 0 {
					e.TTL = -1
				} else {
					e.TTL = int(d / lruTick)
				}
				if name == "SetTags" {
					e.Tags = append([]string{}, a[3].([]string)...)
					e.Err = a[4].(bool)
				} else {
					e.Err = a[3].(bool)
				}
			case "Delete":
				e.K = a[0].(string)
			case "DelTag":
				e.Tag = a[0].(string)
				e.N = a[1].(int)
			case "InvPrefix":
				e.Pre = a[0].(string)
				e.N = a[1].(int)
			case "Evict":
				e.K = a[0].(string)
			case "Clear":
			}
			events = append(events, e)
		}
		var wg sync.WaitGroup
		bad := make(chan string, ng*2)
		for g := 0; g < ng; g++ {
			wg.Add(1)
			go func(g int) {
				defer wg.Done()
				defer func() {
					if r := recover(); r != nil {
						bad <- fmt.Sprint("panic: ", r)
					}
				}()
				rng := rand.New(rand.NewSource(seed*1000003 + int64(tr)*131 + int64(g)))
				for i := 0; i < nops; i++ {
					k := keys[rng.Intn(len(keys))]
					switch rng.Intn(12) {
					case 0, 1, 2, 3:
						x, ok := h.c.Get(k)
						if ok {
							rk, _, _ := lruParseValue(x)
							if rk != k {
								bad <- fmt.Sprintf("Get(%s) returned value of key %s", k, rk)
							}
						}
					case 4, 5, 6:
						sz := sizes[rng.Intn(len(sizes))]
						h.c.Set(k, lruValue(k, 1+rng.Intn(2), sz), lruTTL(ttls[rng.Intn(len(ttls))]))
					case 7:
						sz := sizes[rng.Intn(len(sizes))]
						h.c.SetWithTags(k, lruValue(k, 1+rng.Intn(2), sz), lruTTL(ttls[rng.Intn(len(ttls))]), tagsets[rng.Intn(2)])
					case 8:
						h.c.Delete(k)
					case 9:
						if rng.Intn(2) == 0 {
							h.c.DeleteByTag([]string{"t1", "t2"}[rng.Intn(2)])
						} else {
							h.hc.InvalidateByPrefix([]string{"a", "b1"}[rng.Intn(2)])
						}
					case 10:
						if rng.Intn(4) == 0 {
							h.c.Clear()
						}
					case 11:
						// Tick: advance the clock as one atomic step w.r.t. cache operations
						h.c.mu.Lock()
						if tick < 6 {
							tick++
							verifAdvance(lruTick)
							events = append(events, lruEvent{Ev: "Tick", Order: lruOrder(h.c), Cur: int(h.c.currentSize), Now: tick, Tags: []string{}})
						}
						h.c.mu.Unlock()
					}
				}
			}(g)
		}
		fin := make(chan struct{})
		go func() { wg.Wait(); close(fin) }()
		status := "ok"
		select {
		case <-fin:
		case <-time.After(20 * time.Second):
			status = "hang"
		}
		select {
		case m := <-bad:
			status = m
		default:
		}
		_ = returned
		_ = rmu
		if status == "hang" {
			// the blocked goroutines may still hold c.mu: do not touch events
			enc.Encode(map[string]interface{}{"ev": "Reset", "cfg": cfg, "status": status})
			continue
		}
		h.c.mu.Lock()
		evs := append([]lruEvent{}, events...)
		h.c.mu.Unlock()
		enc.Encode(map[string]interface{}{"ev": "Reset", "cfg": cfg, "status": status, "n": len(evs)})
		for _, e := range evs {
			e.Cur = e.Cur / lruUnit
			enc.Encode(e)
		}
		h.c.Close()
	}
}
