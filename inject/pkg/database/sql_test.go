//go:build verif

package database

// C13 driver: every job enumerated by TLC from specs/sql/SqlBuild.tla is run through the real
// builders; the generated statement (captured from Build, or from a recording database/sql
// driver underneath PostgresDB/MySQLDB/ORM) must be exactly the specification's template, be
// rejected exactly when the specification rejects, and - for SQLite, executed for real - leave
// a sentinel table and the schema untouched.

import (
	"bufio"
	"context"
	"database/sql"
	"database/sql/driver"
	"encoding/json"
	"errors"
	"fmt"
	"io"
	"os"
	"sort"
	"strings"
	"sync"
	"testing"
)

type sqCand struct {
	Text  string `json:"text"`
	Ok    bool   `json:"ok"`
	Canon string `json:"canon"`
}
type sqSel struct {
	Star bool     `json:"star"`
	ID   []string `json:"id"`
}
type sqCall struct {
	M     string   `json:"m"`
	Cols  []sqSel  `json:"cols"`
	Col   []string `json:"col"`
	Op    sqCand   `json:"op"`
	Dir   sqCand   `json:"dir"`
	Type  sqCand   `json:"type"`
	Table []string `json:"table"`
	On    []string `json:"on"`
	With  []string `json:"with"`
	N     int      `json:"n"`
}
type sqCond struct {
	Col []string `json:"col"`
	Op  sqCand   `json:"op"`
}
type sqJob struct {
	Ep      string     `json:"ep"`
	Dialect string     `json:"dialect"`
	Table   []string   `json:"table"`
	Col     []string   `json:"col"`
	Cols    [][]string `json:"cols"`
	Calls   []sqCall   `json:"calls"`
	Conds   []sqCond   `json:"conds"`
	Type    sqCand     `json:"type"`
	Nrows   int        `json:"nrows"`
}
type sqPart struct {
	T  *string  `json:"t"`
	ID []string `json:"id"`
}
type sqOut struct {
	Ok    bool     `json:"ok"`
	Slot  string   `json:"slot"`
	Parts []sqPart `json:"parts"`
	Nargs int      `json:"nargs"`
}
type sqCase struct {
	ID  int    `json:"id"`
	Job sqJob  `json:"job"`
	Out sqOut  `json:"out"`
}

var sqClass = map[string]string{"L": "a", "D": "7", "U": "_", "dq": `"`, "sq": "'", "bt": "`", "semi": ";", "sp": " ",
	"minus": "-", "slash": "/", "star": "*", "lp": "(", "rp": ")", "dot": ".", "nul": "\x00", "W": "а" /* Cyrillic a */, "nl": "\n",
	"comma": ",", "Llong": strings.Repeat("q", 300)}

func sqStr(classes []string) string {
	var b strings.Builder
	for _, c := range classes {
		b.WriteString(sqClass[c])
	}
	return b.String()
}

func sqRender(parts []sqPart) string {
	var b strings.Builder
	for _, p := range parts {
		if p.T != nil {
			b.WriteString(*p.T)
		} else {
			b.WriteString(sqStr(p.ID))
		}
	}
	return b.String()
}

// recording driver (captures statement text and argument count)
type sqRec struct {
	mu      sync.Mutex
	queries []string
	nargs   []int
}

var theSqRec = &sqRec{}

func init() { sql.Register("verifsqlrec", theSqRec) }

func (d *sqRec) Open(string) (driver.Conn, error) { return &sqRecConn{d}, nil }

type sqRecConn struct{ d *sqRec }

func (c *sqRecConn) Prepare(q string) (driver.Stmt, error) { return nil, errors.New("no prepare") }
func (c *sqRecConn) Close() error                          { return nil }
func (c *sqRecConn) Begin() (driver.Tx, error)             { return nil, errors.New("no tx") }
func (c *sqRecConn) note(q string, n int) {
	c.d.mu.Lock()
	c.d.queries = append(c.d.queries, q)
	c.d.nargs = append(c.d.nargs, n)
	c.d.mu.Unlock()
}
func (c *sqRecConn) ExecContext(ctx context.Context, q string, args []driver.NamedValue) (driver.Result, error) {
	c.note(q, len(args))
	return driver.RowsAffected(1), nil
}
func (c *sqRecConn) QueryContext(ctx context.Context, q string, args []driver.NamedValue) (driver.Rows, error) {
	c.note(q, len(args))
	return &sqRows{}, nil
}

type sqRows struct{ done bool }

func (r *sqRows) Columns() []string { return []string{"x"} }
func (r *sqRows) Close() error      { return nil }
func (r *sqRows) Next(dest []driver.Value) error {
	if r.done {
		return io.EOF
	}
	r.done = true
	dest[0] = int64(1)
	return nil
}

const sqValue = "v'; DROP TABLE sentinel; --\x00\"`"

func sqSchema(db *SQLiteDB) string {
	rows, err := db.Query(context.Background(), "SELECT type, name, COALESCE(sql,'') FROM sqlite_master ORDER BY name")
	if err != nil {
		return "ERR " + err.Error()
	}
	defer rows.Close()
	var out []string
	for rows.Next() {
		var a, b, c string
		rows.Scan(&a, &b, &c)
		out = append(out, a+"|"+b+"|"+c)
	}
	srows, err := db.Query(context.Background(), "SELECT id, secret FROM sentinel ORDER BY id")
	if err != nil {
		return "SENTINEL-ERR " + err.Error()
	}
	defer srows.Close()
	for srows.Next() {
		var id int
		var s string
		srows.Scan(&id, &s)
		out = append(out, fmt.Sprint("row|", id, "|", s))
	}
	return strings.Join(out, "\n")
}

func TestVerifSqlReplay(t *testing.T) {
	in, err := os.Open(os.Getenv("VERIF_CASES"))
	if err != nil {
		t.Fatal(err)
	}
	defer in.Close()
	outf, _ := os.Create(os.Getenv("VERIF_OUT"))
	defer outf.Close()
	out := bufio.NewWriter(outf)
	defer out.Flush()
	enc := json.NewEncoder(out)
	sc := bufio.NewScanner(in)
	sc.Buffer(make([]byte, 1<<20), 1<<27)
	recdb, err := sql.Open("verifsqlrec", "")
	if err != nil {
		t.Fatal(err)
	}
	pg := &PostgresDB{db: recdb}
	my := &MySQLDB{db: recdb}
	ctx := context.Background()
	ncases, nmis := 0, 0
	for sc.Scan() {
		var cs sqCase
		if err := json.Unmarshal(sc.Bytes(), &cs); err != nil {
			t.Fatalf("bad case %v: %s", err, sc.Text()[:200])
		}
		ncases++
		j := cs.Job
		want := cs.Out
		theSqRec.mu.Lock()
		theSqRec.queries, theSqRec.nargs = nil, nil
		theSqRec.mu.Unlock()
		var gotSQL string
		var gotArgs int
		var gotErr error
		var execErr error
		captured := true
		sqliteNote := ""
		func() {
			defer func() {
				if r := recover(); r != nil {
					gotErr = fmt.Errorf("panic: %v", r)
				}
			}()
			switch j.Ep {
			case "build":
				qb := NewORM(pg, sqStr(j.Table)).NewQueryBuilder()
				for _, c := range j.Calls {
					switch c.M {
					case "Select":
						cols := []string{}
						for _, s := range c.Cols {
							if s.Star {
								cols = append(cols, "*")
							} else {
								cols = append(cols, sqStr(s.ID))
							}
						}
						qb.Select(cols...)
					case "Where":
						qb.Where(sqStr(c.Col), c.Op.Text, sqValue)
					case "OrderBy":
						qb.OrderBy(sqStr(c.Col), c.Dir.Text)
					case "Join":
						qb.Join(c.Type.Text, sqStr(c.Table), sqStr(c.On), sqStr(c.With))
					case "Limit":
						qb.Limit(c.N)
					case "Offset":
						qb.Offset(c.N)
					}
				}
				var args []interface{}
				gotSQL, args, gotErr = qb.Build()
				gotArgs = len(args)
				captured = false
			case "create":
				_, execErr = NewORM(pg, sqStr(j.Table)).Create(ctx, map[string]interface{}{sqStr(j.Col): sqValue})
			case "update":
				_, execErr = NewORM(pg, sqStr(j.Table)).Update(ctx, sqValue, map[string]interface{}{sqStr(j.Col): sqValue})
			case "delete":
				execErr = NewORM(pg, sqStr(j.Table)).Delete(ctx, sqValue)
			case "count":
				conds := []WhereCondition{}
				for _, c := range j.Conds {
					conds = append(conds, WhereCondition{Column: sqStr(c.Col), Operator: c.Op.Text, Value: sqValue})
				}
				_, execErr = NewORM(pg, sqStr(j.Table)).Count(ctx, conds...)
			case "bulk", "createtable", "drop", "lastid":
				cols := []string{}
				for _, c := range j.Cols {
					cols = append(cols, sqStr(c))
				}
				rows := [][]interface{}{}
				for r := 0; r < j.Nrows; r++ {
					row := []interface{}{}
					for range cols {
						row = append(row, sqValue)
					}
					rows = append(rows, row)
				}
				type dialect interface {
					BulkInsert(context.Context, string, []string, [][]interface{}) error
					CreateTable(context.Context, string, map[string]string) error
					DropTable(context.Context, string) error
					GetLastInsertID(context.Context, string, string) (int64, error)
				}
				var d dialect
				var lite *SQLiteDB
				switch j.Dialect {
				case "postgres":
					d = pg
				case "mysql":
					d = my
				default:
					lite = NewSQLiteDB(&Config{Driver: "sqlite", Database: ":memory:"})
					if err := lite.Connect(ctx); err != nil {
						t.Fatal(err)
					}
					defer lite.Close()
					lite.Exec(ctx, "CREATE TABLE sentinel (id INTEGER PRIMARY KEY, secret TEXT)")
					lite.Exec(ctx, "INSERT INTO sentinel VALUES (1, 'TOPSECRET')")
					lite.Exec(ctx, `CREATE TABLE "zz_other" ("a" TEXT, "_a" TEXT)`)
					d = lite
					captured = false
				}
				before := ""
				if lite != nil {
					before = sqSchema(lite)
				}
				switch j.Ep {
				case "bulk":
					execErr = d.BulkInsert(ctx, sqStr(j.Table), cols, rows)
				case "createtable":
					execErr = d.CreateTable(ctx, sqStr(j.Table), map[string]string{sqStr(j.Col): j.Type.Text})
				case "drop":
					execErr = d.DropTable(ctx, sqStr(j.Table))
				case "lastid":
					_, execErr = d.GetLastInsertID(ctx, sqStr(j.Table), sqStr(j.Col))
				}
				if lite != nil {
					after := sqSchema(lite)
					// only the named table may differ
					strip := func(s string) string {
						var keep []string
						name := sqStr(j.Table)
						for _, ln := range strings.Split(s, "\n") {
							f := strings.SplitN(ln, "|", 3)
							if len(f) >= 2 && f[0] == "table" && f[1] == name {
								continue
							}
							keep = append(keep, ln)
						}
						sort.Strings(keep)
						return strings.Join(keep, "\n")
					}
					if strip(before) != strip(after) {
						sqliteNote = "database changed outside the named table: before=" + strip(before) + " after=" + strip(after)
					}
					if j.Ep == "createtable" && execErr == nil && want.Ok {
						// the created table has exactly the named column
						crows, qerr := lite.Query(ctx, fmt.Sprintf(`SELECT name FROM pragma_table_info('%s')`, sqStr(j.Table)))
						if qerr == nil {
							var names []string
							for crows.Next() {
								var n string
								crows.Scan(&n)
								names = append(names, n)
							}
							crows.Close()
							if len(names) != 1 || names[0] != sqStr(j.Col) {
								sqliteNote = fmt.Sprint("created table has columns ", names, " want [", sqStr(j.Col), "]")
							}
						}
					}
					if !want.Ok && execErr == nil {
						gotErr = nil
					} else if !want.Ok {
						gotErr = execErr
					}
				}
			}
		}()
		if captured {
			theSqRec.mu.Lock()
			if len(theSqRec.queries) > 0 {
				gotSQL = theSqRec.queries[0]
				gotArgs = theSqRec.nargs[0]
			} else {
				gotErr = execErr
				if gotErr == nil {
					gotErr = errors.New("(no statement reached the driver)")
				}
			}
			if len(theSqRec.queries) > 1 {
				sqliteNote = fmt.Sprint("more than one statement reached the driver: ", theSqRec.queries)
			}
			theSqRec.mu.Unlock()
		}
		bad := ""
		switch {
		case gotErr != nil && strings.HasPrefix(gotErr.Error(), "panic"):
			bad = gotErr.Error()
		case sqliteNote != "":
			bad = sqliteNote
		case j.Dialect == "sqlite" && j.Ep != "build":
			// executed for real: classification only
			if want.Ok && execErr != nil && !strings.Contains(execErr.Error(), "no such table") && !strings.Contains(execErr.Error(), "has no column") && !strings.Contains(execErr.Error(), "already exists") {
				if strings.Contains(execErr.Error(), "invalid") || strings.Contains(execErr.Error(), "unsupported") {
					bad = "rejected a conforming call: " + execErr.Error()
				}
			}
			if !want.Ok && execErr == nil {
				bad = "accepted; want rejection at " + want.Slot
			}
		case !want.Ok:
			if gotErr == nil {
				bad = "accepted: " + gotSQL + " ; want rejection at " + want.Slot
			}
		case j.Ep == "lastid":
			if gotErr != nil && (strings.Contains(gotErr.Error(), "invalid")) {
				bad = "rejected a conforming call: " + gotErr.Error()
			}
		default:
			exp := sqRender(want.Parts)
			if gotErr != nil {
				bad = "rejected a conforming call: " + gotErr.Error()
			} else if gotSQL != exp {
				bad = "statement differs: got " + gotSQL + " want " + exp
			} else if gotArgs != want.Nargs {
				bad = fmt.Sprint("bound arguments ", gotArgs, " want ", want.Nargs)
			} else if strings.Contains(gotSQL, "DROP TABLE sentinel") {
				bad = "a caller value occurs in the statement text"
			}
		}
		if bad != "" {
			nmis++
			enc.Encode(map[string]interface{}{"case": cs.ID, "what": bad})
		}
	}
	enc.Encode(map[string]int{"summary": 1, "cases": ncases, "mismatches": nmis})
}
