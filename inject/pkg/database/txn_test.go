//go:build verif

package database

// C14 driver: every plan enumerated by TLC (specs/txn/SqlTxn.tla) is executed on a real
// in-memory SQLiteDB (table contents compared after every job, connection must stay usable)
// and on the Postgres/MySQL Transaction code paths over a recording fake database/sql driver
// (the sequence of driver calls compared with the specification's).

import (
	"bufio"
	"context"
	"database/sql"
	"database/sql/driver"
	"encoding/json"
	"errors"
	"fmt"
	"os"
	"strings"
	"sync"
	"testing"
	"time"
)

type txFault struct {
	Kind string `json:"kind"`
	At   int    `json:"at"`
}
type txJob struct {
	K     string  `json:"k"`
	Ins   []int   `json:"ins"`
	Fault txFault `json:"fault"`
	Onerr string  `json:"onerr"`
	Pad   int     `json:"pad"`
}

const txPadRows = 1200
type txResult struct {
	Res   string   `json:"res"`
	Table []int    `json:"table"`
	Calls []string `json:"calls"`
}
type txCase struct {
	ID      int        `json:"id"`
	Plan    []txJob    `json:"plan"`
	Results []txResult `json:"results"`
}

var errScript = errors.New("callback failed")

// runJob executes one job through `transact` (a Database.Transaction method).
func txRunJob(job txJob, transact func(context.Context, func(*sql.Tx) error) error, onExec func(i int)) (res string) {
	ctx, cancel := context.WithCancel(context.Background())
	defer cancel()
	returnedNil := false
	cbErr := false
	defer func() {
		if r := recover(); r != nil {
			res = "panicked"
		}
	}()
	err := transact(ctx, func(tx *sql.Tx) error {
		for pos := 1; pos <= len(job.Ins)+1; pos++ {
			if job.Fault.Kind != "none" && job.Fault.At == pos {
				switch job.Fault.Kind {
				case "err":
					cbErr = true
					return errScript
				case "ctxerr":
					cbErr = true
					return fmt.Errorf("remote call failed: %w", context.DeadlineExceeded)
				case "txdone":
					// wraps sql.ErrTxDone of another, already finished transaction handle: this one is as open as ever
					cbErr = true
					return fmt.Errorf("stale handle of an earlier transaction: %w", sql.ErrTxDone)
				case "panic":
					panic("boom")
				case "cancel":
					cancel()
				}
			}
			if pos <= len(job.Ins) {
				if onExec != nil {
					onExec(pos)
				}
				_, err := tx.ExecContext(ctx, "INSERT INTO t (id) VALUES (?)", job.Ins[pos-1])
				if err != nil {
					if job.Onerr == "ignore" && ctx.Err() == nil {
						continue
					}
					cbErr = true
					return err
				}
			}
		}
		returnedNil = true
		return nil
	})
	switch {
	case err == nil:
		return "committed"
	case returnedNil:
		return "commit-failed"
	case cbErr:
		return "rolledback"
	default:
		return "begin-failed"
	}
}

func TestVerifTxnSQLite(t *testing.T) {
	in, err := os.Open(os.Getenv("VERIF_CASES"))
	if err != nil {
		t.Fatal(err)
	}
	defer in.Close()
	outf, _ := os.Create(os.Getenv("VERIF_OUT"))
	defer outf.Close()
	out := bufio.NewWriter(outf)
	defer out.Flush()
	enc := json.NewEncoder(out)
	sc := bufio.NewScanner(in)
	sc.Buffer(make([]byte, 1<<20), 1<<26)
	ncases, njobs, nmis := 0, 0, 0
	for sc.Scan() {
		var cs txCase
		if err := json.Unmarshal(sc.Bytes(), &cs); err != nil {
			t.Fatalf("bad case %v", err)
		}
		ncases++
		db := NewSQLiteDB(&Config{Driver: "sqlite", Database: ":memory:"})
		if err := db.Connect(context.Background()); err != nil {
			t.Fatal(err)
		}
		if _, err := db.Exec(context.Background(), "CREATE TABLE t (id INTEGER PRIMARY KEY)"); err != nil {
			t.Fatal(err)
		}
		for ji, job := range cs.Plan {
			njobs++
			res := ""
			done := make(chan struct{})
			go func() {
				defer close(done)
				if job.K == "bulk" {
					rows := [][]interface{}{}
					if job.Pad == 1 {
						for i := 0; i < txPadRows; i++ {
							rows = append(rows, []interface{}{1000 + i})
						}
					}
					for _, r := range job.Ins {
						rows = append(rows, []interface{}{r})
					}
					ctx, cancel := context.WithTimeout(context.Background(), 2*time.Second)
					defer cancel()
					if err := db.BulkInsert(ctx, "t", []string{"id"}, rows); err == nil {
						res = "committed"
					} else {
						res = "failed"
					}
					return
				}
				res = txRunJob(job, db.Transaction, nil)
			}()
			select {
			case <-done:
			case <-time.After(5 * time.Second):
				res = "hang"
			}
			want := cs.Results[ji]
			bad := ""
			if res != want.Res {
				bad = fmt.Sprintf("result %s want %s", res, want.Res)
			}
			// table contents + connection usable
			table := []int{}
			ctx, cancel := context.WithTimeout(context.Background(), 2*time.Second)
			rows, qerr := db.Query(ctx, "SELECT id FROM t ORDER BY id")
			if qerr != nil {
				if bad == "" {
					bad = "connection unusable after the job: " + qerr.Error()
				}
			} else {
				npad := 0
				for rows.Next() {
					var id int
					rows.Scan(&id)
					if id >= 1000 {
						npad++
						continue
					}
					table = append(table, id)
				}
				rows.Close()
				if npad == txPadRows {
					table = append(table, 1000)
				} else if npad != 0 && bad == "" {
					bad = fmt.Sprintf("partial bulk insert: %d of %d block rows present", npad, txPadRows)
				}
			}
			cancel()
			if bad == "" && fmt.Sprint(table) != fmt.Sprint(want.Table) {
				bad = fmt.Sprintf("table %v want %v", table, want.Table)
			}
			if bad != "" {
				nmis++
				enc.Encode(map[string]interface{}{"case": cs.ID, "job": ji, "what": bad, "driver": "sqlite"})
				break
			}
		}
		db.Close()
	}
	enc.Encode(map[string]int{"summary": 1, "cases": ncases, "jobs": njobs, "mismatches": nmis})
}

// ------------------------------------------------------------------ recording fake driver
type fakeDrv struct {
	mu       sync.Mutex
	calls    []string
	failExec map[int]bool // 1-based index of Exec calls (per job) that fail
	nexec    int
}

var theFake = &fakeDrv{}

func init() { sql.Register("veriffake", theFake) }

func (d *fakeDrv) Open(string) (driver.Conn, error) { return &fakeConn{d}, nil }
func (d *fakeDrv) log(s string)                     { d.mu.Lock(); d.calls = append(d.calls, s); d.mu.Unlock() }

type fakeConn struct{ d *fakeDrv }

func (c *fakeConn) Prepare(q string) (driver.Stmt, error) { return nil, errors.New("not supported") }
func (c *fakeConn) Close() error                          { return nil }
func (c *fakeConn) Begin() (driver.Tx, error)             { c.d.log("Begin"); return &fakeTx{c.d}, nil }
func (c *fakeConn) ExecContext(ctx context.Context, q string, args []driver.NamedValue) (driver.Result, error) {
	if err := ctx.Err(); err != nil {
		return nil, err
	}
	c.d.mu.Lock()
	c.d.nexec++
	fail := c.d.failExec[c.d.nexec]
	c.d.mu.Unlock()
	if fail {
		c.d.log("ExecFail")
		return nil, errors.New("constraint violation")
	}
	c.d.log("ExecOk")
	return driver.RowsAffected(1), nil
}

type fakeTx struct{ d *fakeDrv }

func (t *fakeTx) Commit() error   { t.d.log("Commit"); return nil }
func (t *fakeTx) Rollback() error { t.d.log("Rollback"); return nil }

func TestVerifTxnFakeDriver(t *testing.T) {
	in, err := os.Open(os.Getenv("VERIF_CASES"))
	if err != nil {
		t.Fatal(err)
	}
	defer in.Close()
	outf, _ := os.Create(os.Getenv("VERIF_FAKE_OUT"))
	defer outf.Close()
	out := bufio.NewWriter(outf)
	defer out.Flush()
	enc := json.NewEncoder(out)
	sc := bufio.NewScanner(in)
	sc.Buffer(make([]byte, 1<<20), 1<<26)
	ncases, njobs, nmis := 0, 0, 0
	sqldb, err := sql.Open("veriffake", "")
	if err != nil {
		t.Fatal(err)
	}
	pg := &PostgresDB{db: sqldb}
	my := &MySQLDB{db: sqldb}
	for sc.Scan() {
		var cs txCase
		json.Unmarshal(sc.Bytes(), &cs)
		ncases++
		for ji, job := range cs.Plan {
			if job.K != "tx" {
				continue
			}
			want := cs.Results[ji]
			if want.Res == "begin-failed" {
				continue
			}
			for di, transact := range []func(context.Context, func(*sql.Tx) error) error{pg.Transaction, my.Transaction} {
				njobs++
				// which Exec calls fail is dictated by the specification's call sequence
				theFake.mu.Lock()
				theFake.calls = nil
				theFake.nexec = 0
				theFake.failExec = map[int]bool{}
				n := 0
				for _, c := range want.Calls {
					if c == "ExecOk" || c == "ExecFail" {
						n++
						if c == "ExecFail" {
							theFake.failExec[n] = true
						}
					}
				}
				theFake.mu.Unlock()
				res := txRunJob(job, transact, nil)
				theFake.mu.Lock()
				got := append([]string{}, theFake.calls...)
				theFake.mu.Unlock()
				// the cancellation itself is not a driver call; after it database/sql rolls back on its own
				wantCalls := []string{}
				cancelled := false
				for _, c := range want.Calls {
					if c == "CtxCancel" {
						cancelled = true
						continue
					}
					wantCalls = append(wantCalls, c)
				}
				bad := ""
				if cancelled {
					// exactly one terminator, and it is a Rollback; no Commit reaches the driver
					nterm := 0
					for _, c := range got {
						if c == "Commit" {
							bad = "Commit reached the driver after cancellation"
						}
						if c == "Rollback" {
							nterm++
						}
					}
					if bad == "" && nterm != 1 {
						// database/sql performs the rollback from a goroutine: give it a moment
						time.Sleep(20 * time.Millisecond)
						theFake.mu.Lock()
						nterm = strings.Count(strings.Join(theFake.calls, ","), "Rollback")
						theFake.mu.Unlock()
						if nterm != 1 {
							bad = fmt.Sprintf("%d rollbacks after cancellation: %v", nterm, got)
						}
					}
				} else if strings.Join(got, ",") != strings.Join(wantCalls, ",") {
					bad = fmt.Sprintf("driver calls %v want %v", got, wantCalls)
				}
				if bad == "" && res != want.Res && !(cancelled) {
					bad = fmt.Sprintf("result %s want %s", res, want.Res)
				}
				if bad != "" {
					nmis++
					enc.Encode(map[string]interface{}{"case": cs.ID, "job": ji, "what": bad, "driver": []string{"postgres", "mysql"}[di]})
				}
			}
		}
	}
	enc.Encode(map[string]int{"summary": 1, "cases": ncases, "jobs": njobs, "mismatches": nmis})
}
