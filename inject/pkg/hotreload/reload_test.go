//go:build verif

package hotreload

// C19 driver (library ReloadManager): fake compiler and server; serial behaviours replayed by
// calling handleChanges, and overlapping reloads recorded as a trace for DevReloadTrace.tla.

import (
	"bufio"
	"encoding/json"
	"errors"
	"fmt"
	"os"
	"sync"
	"testing"
	"time"
)

type rmStep struct {
	Op      string `json:"op"`
	F       string `json:"f"`
	Ok      bool   `json:"ok"`
	Serving string `json:"serving"`
	Got     string `json:"got"`
	Refused bool   `json:"refused"`
}
type rmCase struct {
	ID   int      `json:"id"`
	Hist []rmStep `json:"hist"`
}

type fakeWorld struct {
	mu      sync.Mutex
	file    string // content class
	serving string
	state   map[string]interface{}
	events  []map[string]interface{}
	slow    map[string]chan struct{} // version -> gate the compile of that version waits on
	refuse  bool                     // the server's next Reload returns an error (and changes nothing)
}

func (w *fakeWorld) log(ev string, v string) {
	w.events = append(w.events, map[string]interface{}{"ev": ev, "v": v})
}

type fakeCompiler struct{ w *fakeWorld }

func (c fakeCompiler) CompileFile(path string) ([]byte, error) {
	c.w.mu.Lock()
	f := c.w.file
	c.w.log("Read", f)
	gate := c.w.slow[f]
	c.w.mu.Unlock()
	if gate != nil {
		select {
		case <-gate:
		case <-time.After(300 * time.Millisecond):
		}
	}
	switch f {
	case "v1", "v2":
		return []byte(f), nil
	case "empty":
		return []byte("none"), nil
	case "missing":
		return nil, errors.New("no such file")
	}
	return nil, errors.New("compile error in " + f)
}

type fakeServer struct{ w *fakeWorld }

func (s fakeServer) Reload(b []byte) error {
	s.w.mu.Lock()
	defer s.w.mu.Unlock()
	if s.w.refuse {
		s.w.refuse = false
		return errors.New("server refuses this version")
	}
	s.w.serving = string(b)
	s.w.log("Switch", string(b))
	return nil
}
func (s fakeServer) GetState() map[string]interface{} {
	s.w.mu.Lock()
	defer s.w.mu.Unlock()
	out := map[string]interface{}{}
	for k, v := range s.w.state {
		out[k] = v
	}
	return out
}
func (s fakeServer) SetState(st map[string]interface{}) error {
	s.w.mu.Lock()
	defer s.w.mu.Unlock()
	s.w.state = st
	return nil
}

func newRM(w *fakeWorld, onReload func(ReloadEvent)) *ReloadManager {
	return NewReloadManager([]string{os.TempDir()}, fakeCompiler{w}, fakeServer{w}, WithOnReload(onReload), WithErrorHandler(func(error) {}))
}

func TestVerifReloadManagerReplay(t *testing.T) {
	in, err := os.Open(os.Getenv("VERIF_CASES"))
	if err != nil {
		t.Fatal(err)
	}
	defer in.Close()
	outf, _ := os.Create(os.Getenv("VERIF_RM_OUT"))
	defer outf.Close()
	enc := json.NewEncoder(outf)
	sc := bufio.NewScanner(in)
	sc.Buffer(make([]byte, 1<<20), 1<<26)
	ncases, nsteps, nmis := 0, 0, 0
	for sc.Scan() {
		var cs rmCase
		json.Unmarshal(sc.Bytes(), &cs)
		ncases++
		w := &fakeWorld{file: "v1", serving: "v1", state: map[string]interface{}{"session": "keep"}, slow: map[string]chan struct{}{}}
		var last *ReloadEvent
		rm := newRM(w, func(e ReloadEvent) { last = &e })
		for i, st := range cs.Hist {
			nsteps++
			bad := ""
			switch st.Op {
			case "Edit":
				w.mu.Lock()
				w.file = st.F
				w.mu.Unlock()
			case "Reload":
				last = nil
				w.mu.Lock()
				w.refuse = st.Refused
				w.mu.Unlock()
				rm.handleChanges([]FileChange{{Path: "/x/main.glyph", Type: ChangeTypeModified, Timestamp: time.Now()}})
				w.mu.Lock()
				got := w.serving
				keep := w.state["session"]
				w.mu.Unlock()
				switch {
				case last == nil:
					bad = "no reload event"
				case last.Success != st.Ok:
					bad = fmt.Sprint("event success=", last.Success, " want ", st.Ok)
				case got != st.Serving:
					bad = "serving " + got + " want " + st.Serving
				case keep != "keep":
					bad = "application state lost"
				}
			case "Poll":
				w.mu.Lock()
				got := w.serving
				w.mu.Unlock()
				if got != st.Got {
					bad = "serving " + got + " want " + st.Got
				}
			}
			if bad != "" {
				nmis++
				enc.Encode(map[string]interface{}{"case": cs.ID, "step": i, "op": st.Op, "what": bad})
				break
			}
		}
	}
	enc.Encode(map[string]int{"summary": 1, "cases": ncases, "steps": nsteps, "mismatches": nmis})
}

// Overlapping reloads: the build of an older edit is slow, a newer edit arrives meanwhile.
func TestVerifReloadManagerOverlap(t *testing.T) {
	outf, _ := os.Create(os.Getenv("VERIF_RM_TRACE"))
	defer outf.Close()
	enc := json.NewEncoder(outf)
	for round := 0; round < 6; round++ {
		first, second := "v1", "v2"
		if round%2 == 1 {
			first, second = "v2", "v1"
		}
		w := &fakeWorld{file: first, serving: "v1", state: map[string]interface{}{}, slow: map[string]chan struct{}{}}
		gate := make(chan struct{})
		w.slow[first] = gate
		rm := newRM(w, func(ReloadEvent) {})
		change := []FileChange{{Path: "/x/main.glyph", Type: ChangeTypeModified, Timestamp: time.Now()}}
		var wg sync.WaitGroup
		wg.Add(2)
		go func() { defer wg.Done(); rm.handleChanges(change) }() // slow build of the older content
		time.Sleep(30 * time.Millisecond)
		w.mu.Lock()
		w.file = second
		w.log("Edit", second)
		w.mu.Unlock()
		go func() {
			defer wg.Done()
			rm.handleChanges(change) // the newer edit
			close(gate)              // only now does the older build finish (if it was allowed to overlap)
		}()
		wg.Wait()
		w.mu.Lock()
		enc.Encode(map[string]interface{}{"ev": "Reset", "v": first})
		for _, e := range w.events {
			enc.Encode(e)
		}
		enc.Encode(map[string]interface{}{"ev": "Final", "v": w.serving})
		w.mu.Unlock()
	}
}
