//go:build verif

package interpreter

// C09 driver, library level: behaviours of specs/async/Futures.tla replayed step by step on real
// Futures and the real All/Race/Any, and free-running settles whose final observation goes back
// to the specification's contracts.

import (
	"bufio"
	"encoding/json"
	"fmt"
	"math/rand"
	"os"
	"runtime"
	"strconv"
	"strings"
	"sync"
	"testing"
	"time"
)

type fuOut struct {
	S string `json:"s"`
	V int64  `json:"v"`
}

type fuStep struct {
	Op     string  `json:"op"`
	F      int     `json:"f"`
	V      int64   `json:"v"`
	St     []fuOut `json:"st"`
	Res    []fuOut `json:"res"`
	Called bool    `json:"called"`
}

type fuCase struct {
	ID   int      `json:"id"`
	Kind string   `json:"kind"`
	NF   int      `json:"nf"`
	Hist []fuStep `json:"hist"`
}

func fuErr(v int64) error { return fmt.Errorf("e%d", v) }

func fuErrCode(err error) int64 {
	if err == nil {
		return 0
	}
	m := err.Error()
	switch {
	case m == "future cancelled":
		return -1
	case strings.HasPrefix(m, "all futures rejected"):
		return -2
	case strings.HasPrefix(m, "e"):
		n, e := strconv.ParseInt(m[1:], 10, 64)
		if e == nil {
			return n
		}
	}
	return -99
}

// fuObserve reads a future the way a program can: state, and when settled what two awaiters get.
func fuObserve(f *Future, fs []*Future) fuOut {
	switch f.State() {
	case FuturePending:
		return fuOut{"pending", 0}
	}
	v1, e1 := f.Await()
	var v2 interface{}
	var e2 error
	done := make(chan struct{})
	go func() { v2, e2 = f.Await(); close(done) }()
	<-done
	if (e1 == nil) != (e2 == nil) || (e1 != nil && e1.Error() != e2.Error()) || fmt.Sprint(v1) != fmt.Sprint(v2) {
		return fuOut{"awaiters-disagree", 0}
	}
	if e1 != nil {
		if f.State() != FutureRejected {
			return fuOut{"state-disagrees-with-await", 0}
		}
		return fuOut{"rejected", fuErrCode(e1)}
	}
	if f.State() != FutureResolved {
		return fuOut{"state-disagrees-with-await", 0}
	}
	if n, ok := v1.(int64); ok {
		return fuOut{"resolved", n}
	}
	if arr, ok := v1.([]interface{}); ok && fs != nil {
		// all(): the values of the arguments, in argument order
		if len(arr) != len(fs) {
			return fuOut{"resolved", -98}
		}
		for i, x := range arr {
			if fs[i].State() != FutureResolved || fmt.Sprint(fs[i].Value()) != fmt.Sprint(x) {
				return fuOut{"resolved", -97}
			}
		}
		return fuOut{"resolved", -3}
	}
	return fuOut{"resolved", -96}
}

func fuIn(o fuOut, set []fuOut) bool {
	for _, x := range set {
		if x == o {
			return true
		}
	}
	return false
}

func fuCombine(kind string, fs []*Future) *Future {
	switch kind {
	case "all":
		return All(fs...)
	case "race":
		return Race(fs...)
	}
	return Any(fs...)
}

// fuReplay returns "" or a description of the first step whose observation the model does not allow.
func fuReplay(c fuCase) (int, string) {
	fs := make([]*Future, c.NF)
	for i := range fs {
		fs[i] = NewFuture()
	}
	var result *Future
	var decided *fuOut
	for si, st := range c.Hist {
		switch st.Op {
		case "resolve":
			fs[st.F-1].Resolve(st.V)
		case "reject":
			fs[st.F-1].Reject(fuErr(st.V))
		case "cancel":
			fs[st.F-1].Cancel()
		case "call":
			result = fuCombine(c.Kind, fs)
		}
		// quiescence: the combinator's helper goroutines have reacted
		var why string
		deadline := time.Now().Add(300 * time.Millisecond)
		for {
			why = ""
			for i, f := range fs {
				if o := fuObserve(f, nil); o != st.St[i] {
					why = fmt.Sprintf("future %d is %v, the model says %v", i+1, o, st.St[i])
					break
				}
			}
			if why == "" && result != nil {
				if o := fuObserve(result, fs); !fuIn(o, st.Res) {
					why = fmt.Sprintf("%s() is %v, the model allows %v", c.Kind, o, st.Res)
				} else if decided != nil && *decided != o {
					why = fmt.Sprintf("%s() changed from %v to %v", c.Kind, *decided, o)
				} else if o.S != "pending" {
					decided = &o
				}
			}
			if why == "" || time.Now().After(deadline) {
				break
			}
			runtime.Gosched()
			time.Sleep(50 * time.Microsecond)
		}
		if why != "" {
			return si, why
		}
	}
	// nothing moves afterwards
	time.Sleep(2 * time.Millisecond)
	last := c.Hist[len(c.Hist)-1]
	for i, f := range fs {
		if o := fuObserve(f, nil); o != last.St[i] {
			return len(c.Hist) - 1, fmt.Sprintf("later: future %d became %v, the model says %v", i+1, o, last.St[i])
		}
	}
	if result != nil {
		if o := fuObserve(result, fs); !fuIn(o, last.Res) || (decided != nil && *decided != o) {
			return len(c.Hist) - 1, fmt.Sprintf("later: %s() became %v, the model allows %v", c.Kind, o, last.Res)
		}
	}
	return -1, ""
}

func TestVerifFutureReplay(t *testing.T) {
	in, err := os.Open(os.Getenv("VERIF_CASES"))
	if err != nil {
		t.Fatal(err)
	}
	defer in.Close()
	outf, _ := os.Create(os.Getenv("VERIF_OUT"))
	defer outf.Close()
	var mu sync.Mutex
	enc := json.NewEncoder(outf)
	sc := bufio.NewScanner(in)
	sc.Buffer(make([]byte, 1<<20), 1<<26)
	sem := make(chan struct{}, 12)
	var wg sync.WaitGroup
	n, steps := 0, 0
	for sc.Scan() {
		var c fuCase
		if err := json.Unmarshal(sc.Bytes(), &c); err != nil {
			t.Fatal(err)
		}
		n++
		steps += len(c.Hist)
		wg.Add(1)
		sem <- struct{}{}
		go func(c fuCase) {
			defer wg.Done()
			defer func() { <-sem }()
			defer func() {
				if r := recover(); r != nil {
					mu.Lock()
					enc.Encode(map[string]interface{}{"case": c.ID, "step": -1, "why": fmt.Sprint("panic: ", r)})
					mu.Unlock()
				}
			}()
			if si, why := fuReplay(c); why != "" {
				mu.Lock()
				enc.Encode(map[string]interface{}{"case": c.ID, "step": si, "why": why})
				mu.Unlock()
			}
		}(c)
	}
	wg.Wait()
	// every helper goroutine ends once all its futures are settled: settle what the behaviours left pending is
	// not possible here (futures are local), so the leak check lives in TestVerifFutureFree
	enc.Encode(map[string]interface{}{"summary": 1, "cases": n, "steps": steps})
}

// TestVerifFutureFree: the arguments are settled by free-running goroutines while the combinator is applied;
// the final observation of every trial is written out and judged by the specification's contracts.
func TestVerifFutureFree(t *testing.T) {
	seed, _ := strconv.ParseInt(os.Getenv("VERIF_SEED"), 10, 64)
	trials, _ := strconv.Atoi(os.Getenv("VERIF_TRIALS"))
	if trials == 0 {
		trials = 300
	}
	outf, _ := os.Create(os.Getenv("VERIF_OUT"))
	defer outf.Close()
	enc := json.NewEncoder(outf)
	rnd := rand.New(rand.NewSource(seed))
	base := runtime.NumGoroutine()
	for tr := 0; tr < trials; tr++ {
		kind := []string{"all", "race", "any"}[tr%3]
		nf := 3
		runtime.GOMAXPROCS([]int{1, 2, 4, 16}[rnd.Intn(4)])
		fs := make([]*Future, nf)
		plan := make([]string, nf)
		for i := range fs {
			fs[i] = NewFuture()
			plan[i] = []string{"resolve", "resolve", "reject", "cancel"}[rnd.Intn(4)]
		}
		pre := rnd.Intn(nf + 1) // this many are settled before the call
		var wg sync.WaitGroup
		start := make(chan struct{})
		settle := func(i int) {
			switch plan[i] {
			case "resolve":
				fs[i].Resolve(int64(10*(i+1) + 1))
			case "reject":
				fs[i].Reject(fuErr(int64(100*(i+1) + 1)))
			case "cancel":
				fs[i].Cancel()
			}
			if rnd2 := i % 2; rnd2 == 0 { // a second, different attempt: must be ignored
				fs[i].Resolve(int64(10*(i+1) + 2))
			} else {
				fs[i].Reject(fuErr(int64(100*(i+1) + 2)))
			}
		}
		for i := 0; i < pre; i++ {
			settle(i)
		}
		var result *Future
		wg.Add(1)
		go func() { defer wg.Done(); <-start; result = fuCombine(kind, fs) }()
		for i := pre; i < nf; i++ {
			wg.Add(1)
			go func(i int) { defer wg.Done(); <-start; settle(i) }(i)
		}
		close(start)
		wg.Wait()
		// await the combinator (bounded), then observe
		done := make(chan struct{})
		go func() { result.Await(); close(done) }()
		status := "ok"
		select {
		case <-done:
		case <-time.After(3 * time.Second):
			status = "combinator-never-settles"
		}
		time.Sleep(200 * time.Microsecond)
		ob := map[string]interface{}{"trial": tr, "kind": kind, "nf": nf, "plan": plan, "pre": pre, "status": status}
		st := make([]fuOut, nf)
		for i, f := range fs {
			st[i] = fuObserve(f, nil)
		}
		ob["st"] = st
		ob["res"] = fuObserve(result, fs)
		enc.Encode(ob)
	}
	runtime.GOMAXPROCS(16)
	left := 0
	for w := 0; w < 1000; w++ {
		left = runtime.NumGoroutine() - base
		if left <= 0 {
			break
		}
		time.Sleep(2 * time.Millisecond)
	}
	enc.Encode(map[string]interface{}{"summary": 1, "trials": trials, "goroutines_left": left})
}
