//go:build verif

package interpreter

// C12 driver: calls enumerated by TLC (specs/provider/ProviderGate.tla) are rendered to
// GlyphLang source, parsed by the real parser and executed with ExecuteRoute against a probe
// provider whose every exported method records its invocation.

import (
	"bufio"
	"encoding/json"
	"fmt"
	"os"
	"reflect"
	"strings"
	"testing"
	"unicode"

	"github.com/glyphlang/glyph/pkg/ast"
	"github.com/glyphlang/glyph/pkg/interpreter/zzverifalt"
	"github.com/glyphlang/glyph/pkg/parser"
)

type vProbe struct {
	log   *[]string
	table string
}

func (p *vProbe) rec(s string, a ...interface{}) { *p.log = append(*p.log, s) }

// allow-listed names
func (p *vProbe) Table(name string) interface{} { return &vProbe{log: p.log, table: name} }
func (p *vProbe) Find(id int64) (interface{}, error) {
	p.rec("Find")
	return map[string]interface{}{"id": id}, nil
}
func (p *vProbe) Get(key string) (interface{}, error)         { p.rec("Get"); return key, nil }
func (p *vProbe) Set(key string, v interface{}) error         { p.rec("Set"); return nil }
func (p *vProbe) Del(keys ...string) (int64, error)           { p.rec("Del"); return int64(len(keys)), nil }
func (p *vProbe) HDel(key string, fields ...string) int64     { p.rec("HDel"); return int64(len(fields)) }
func (p *vProbe) Count() int64                                { p.rec("Count"); return 3 }
func (p *vProbe) Expire(key string, seconds int) bool         { p.rec("Expire"); return seconds > 0 }
func (p *vProbe) Incr(key string, by float64) float64         { p.rec("Incr"); return by }
func (p *vProbe) InsertMany(docs []interface{}) error         { p.rec("InsertMany"); return nil }
func (p *vProbe) UpdateOne(f, u map[string]interface{}) error { p.rec("UpdateOne"); return nil }
func (p *vProbe) Aggregate(stages []map[string]interface{}) error { p.rec("Aggregate"); return nil }
func (p *vProbe) Filter(col string, v interface{}) []interface{} {
	p.rec("Filter")
	rows := []interface{}{"a", int64(1), []interface{}{int64(1)}, map[string]interface{}{"a": int64(1)}}
	out := []interface{}{}
	for _, r := range rows {
		if r == v { // panics for uncomparable dynamic types, like the mock store
			out = append(out, r)
		}
	}
	return out
}

// exported but NOT allow-listed
func (p *vProbe) Close() error                                { p.rec("Close"); return nil }
func (p *vProbe) Secret() string                              { p.rec("Secret"); return "s3cr3t" }
func (p *vProbe) Reset()                                      { p.rec("Reset") }
func (p *vProbe) DropAll(x string) error                      { p.rec("DropAll"); return nil }
func (p *vProbe) Internal(a, b int64) int64                   { p.rec("Internal"); return a + b }
func (p *vProbe) Query(q string) (interface{}, error)         { p.rec("Query"); return nil, nil }
func (p *vProbe) RawExec(q string, args ...interface{}) error { p.rec("RawExec"); return nil }

// TestVerifProviderMethods prints the probe's method table (with the code's allow-list applied)
// for the orchestrator to hand to TLC.
func TestVerifProviderMethods(t *testing.T) {
	kindOf := func(t reflect.Type) string {
		switch t.Kind() {
		case reflect.Int64:
			return "int64"
		case reflect.Int:
			return "int"
		case reflect.Float64:
			return "float64"
		case reflect.String:
			return "string"
		case reflect.Interface:
			return "any"
		case reflect.Slice:
			if t.Elem().Kind() != reflect.Interface {
				return "typedslice"
			}
			return "slice"
		case reflect.Map:
			return "map"
		}
		return "any"
	}
	var out []map[string]interface{}
	var altLog []string
	for prov, pt := range []reflect.Type{reflect.TypeOf(&vProbe{}), reflect.TypeOf(zzverifalt.New(&altLog))} {
	for i := 0; i < pt.NumMethod(); i++ {
		m := pt.Method(i)
		if m.Name == "Table" {
			continue
		}
		params := []string{}
		for j := 1; j < m.Type.NumIn(); j++ {
			pt := m.Type.In(j)
			if m.Type.IsVariadic() && j == m.Type.NumIn()-1 {
				pt = pt.Elem()
			}
			params = append(params, kindOf(pt))
		}
		out = append(out, map[string]interface{}{"name": m.Name, "params": params, "variadic": m.Type.IsVariadic(),
			"allowed": allowedMethods[m.Name], "fragile": m.Name == "Filter" && prov == 0, "prov": prov})
	}
	}
	f, _ := os.Create(os.Getenv("VERIF_OUT"))
	defer f.Close()
	json.NewEncoder(f).Encode(out)
}

func vpSpell(name, how string) string {
	switch how {
	case "lower":
		return strings.ToLower(name)
	case "upper":
		return strings.ToUpper(name)
	case "swap":
		var b strings.Builder
		for _, r := range name {
			if unicode.IsUpper(r) {
				b.WriteRune(unicode.ToLower(r))
			} else {
				b.WriteRune(unicode.ToUpper(r))
			}
		}
		return b.String()
	case "capfirst":
		l := strings.ToLower(name)
		return strings.ToUpper(l[:1]) + l[1:]
	}
	return name
}

var vpLit = map[string]string{"null": "null", "int": "7", "float": "2.5", "string": `"s"`, "bool": "true",
	"array": `[1, "x"]`, "object": `{a: 1}`, "arraynull": `[{a: 1}, null]`}

type vpCase struct {
	ID   int `json:"id"`
	Call struct {
		M struct {
			Name string `json:"name"`
			Prov int    `json:"prov"`
		} `json:"m"`
		Spelling string   `json:"spelling"`
		Form     string   `json:"form"`
		Args     []string `json:"args"`
	} `json:"call"`
	Outcome string `json:"outcome"`
}

func TestVerifProviderReplay(t *testing.T) {
	in, err := os.Open(os.Getenv("VERIF_CASES"))
	if err != nil {
		t.Fatal(err)
	}
	defer in.Close()
	outf, _ := os.Create(os.Getenv("VERIF_OUT"))
	defer outf.Close()
	out := bufio.NewWriter(outf)
	defer out.Flush()
	enc := json.NewEncoder(out)
	sc := bufio.NewScanner(in)
	sc.Buffer(make([]byte, 1<<20), 1<<26)
	// another custom provider registers operation names that collide with unlisted probe methods:
	// its allow-list must not widen anybody else's
	RegisterProviderMethods("verifOther", []string{"Close", "Secret", "Reset", "Query", "RawExec"})
	ncases, nmis := 0, 0
	for sc.Scan() {
		var cs vpCase
		if err := json.Unmarshal(sc.Bytes(), &cs); err != nil {
			t.Fatalf("bad case %v", err)
		}
		ncases++
		name := vpSpell(cs.Call.M.Name, cs.Call.Spelling)
		lits := []string{}
		for _, a := range cs.Call.Args {
			lits = append(lits, vpLit[a])
		}
		args := strings.Join(lits, ", ")
		expr := ""
		switch cs.Call.Form {
		case "method":
			expr = fmt.Sprintf("db.%s(%s)", name, args)
		case "nested":
			expr = fmt.Sprintf("db.t1.%s(%s)", name, args)
		case "free":
			expr = fmt.Sprintf("%s(%s)", name, strings.Join(append([]string{"db"}, lits...), ", "))
		case "freenested":
			expr = fmt.Sprintf("%s(%s)", name, strings.Join(append([]string{"db.t1"}, lits...), ", "))
		case "field":
			expr = "db." + name
		}
		src := "@ GET /p {\n  % db: Database\n  $ r = " + expr + "\n  > {done: true}\n}\n"
		var log []string
		var probe interface{} = &vProbe{log: &log}
		if cs.Call.M.Prov == 1 {
			probe = zzverifalt.New(&log)
			if cs.Call.Form == "nested" || cs.Call.Form == "freenested" {
				continue // the second provider has no tables
			}
		}
		got := ""
		func() {
			defer func() {
				if r := recover(); r != nil {
					got = fmt.Sprint("panic: ", r)
				}
			}()
			lexer := parser.NewLexer(src)
			tokens, lerr := lexer.Tokenize()
			if lerr != nil {
				got = "error: lex"
				return
			}
			mod, perr := parser.NewParser(tokens).Parse()
			if perr != nil {
				got = "error: parse"
				return
			}
			interp := NewInterpreter()
			interp.SetDatabaseHandler(probe)
			if lerr := interp.LoadModule(*mod); lerr != nil {
				got = "error: load"
				return
			}
			var route *ast.Route
			for _, it := range mod.Items {
				if rt, ok := it.(*ast.Route); ok {
					route = rt
				}
			}
			_, xerr := interp.ExecuteRoute(route, &Request{Path: "/p", Method: "GET", Params: map[string]string{}, Headers: map[string]string{}})
			if xerr != nil {
				got = "error"
			} else {
				got = "ok"
			}
		}()
		invoked := strings.Join(log, ",")
		bad := ""
		switch {
		case strings.HasPrefix(got, "panic"):
			bad = "crash: " + got
		case cs.Outcome == "either":
			if !((invoked == cs.Call.M.Name && got == "ok") || (invoked == "" && strings.HasPrefix(got, "error"))) {
				bad = fmt.Sprintf("want %s invoked once and a value, or nothing reached and an error; invoked=[%s] result=%s", cs.Call.M.Name, invoked, got)
			}
		case cs.Outcome == "invoked":
			if invoked != cs.Call.M.Name || got != "ok" {
				bad = fmt.Sprintf("want %s invoked once and a value; invoked=[%s] result=%s", cs.Call.M.Name, invoked, got)
			}
		case cs.Outcome == "error-after-invoke":
			if invoked != cs.Call.M.Name || !strings.HasPrefix(got, "error") {
				bad = fmt.Sprintf("want %s invoked and an error; invoked=[%s] result=%s", cs.Call.M.Name, invoked, got)
			}
		case cs.Outcome == "error":
			if invoked != "" {
				bad = fmt.Sprintf("reached [%s]; must reach nothing", invoked)
			} else if !strings.HasPrefix(got, "error") {
				bad = "want an error, got " + got
			}
		case cs.Outcome == "table":
			if invoked != "" {
				bad = fmt.Sprintf("field access invoked [%s]", invoked)
			}
		}
		if bad != "" {
			nmis++
			enc.Encode(map[string]interface{}{"case": cs.ID, "what": bad, "src": expr})
		}
	}
	enc.Encode(map[string]int{"summary": 1, "cases": ncases, "mismatches": nmis})
}
