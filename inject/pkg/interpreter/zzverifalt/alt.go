//go:build verif

// Package zzverifalt holds a second provider type for the C12 driver whose unqualified type name equals the
// first one's (vProbe) while its method set differs: anything that identifies a provider's methods by the type's
// short name or by position confuses the two.
package zzverifalt

type vProbe struct {
	log *[]string
}

// New returns the provider; log receives the name of every method that runs.
func New(log *[]string) interface{} { return &vProbe{log: log} }

func (p *vProbe) rec(s string) { *p.log = append(*p.log, s) }

// allow-listed names (a different selection, in a different alphabetical position, than the first probe's)
func (p *vProbe) Aggregate(x []interface{}) error                 { p.rec("Aggregate"); return nil }
func (p *vProbe) Delete(id int64) bool                            { p.rec("Delete"); return true }
func (p *vProbe) Get(key string) (interface{}, error)             { p.rec("Get"); return key, nil }
func (p *vProbe) Length() int64                                   { p.rec("Length"); return 1 }
func (p *vProbe) Set(key string, v interface{}) error             { p.rec("Set"); return nil }
func (p *vProbe) Update(id int64, v map[string]interface{}) error { p.rec("Update"); return nil }

// exported, not allow-listed
func (p *vProbe) Abort() error        { p.rec("Abort"); return nil }
func (p *vProbe) Backdoor(s string)   { p.rec("Backdoor") }
func (p *vProbe) Close() error        { p.rec("Close"); return nil }
func (p *vProbe) Dump() string        { p.rec("Dump"); return "all rows" }
func (p *vProbe) Exec(q string) error { p.rec("Exec"); return nil }
func (p *vProbe) Wipe()               { p.rec("Wipe") }
