//go:build verif

package jit

// C15 driver: behaviours of specs/jit/JitCache.tla replayed on a real JITCompiler on a virtual
// clock; every bytecode the JIT hands out is executed on the VM and compared with (i) the
// specification's [version, tier] and (ii) a fresh baseline compilation of the current
// definition. A concurrent phase runs under the race detector.

import (
	"bufio"
	"encoding/json"
	"fmt"
	"os"
	"strconv"
	"sync"
	"testing"
	"time"

	"github.com/glyphlang/glyph/pkg/ast"
	"github.com/glyphlang/glyph/pkg/compiler"
	"github.com/glyphlang/glyph/pkg/parser"
	"github.com/glyphlang/glyph/pkg/vm"
)

type jtStep struct {
	Op     string `json:"op"`
	R      string `json:"r"`
	Types  string `json:"types"`
	Ver    int    `json:"ver"`
	Tier   int    `json:"tier"`
	Defver int    `json:"defver"`
}
type jtCfg struct {
	Threshold int `json:"Threshold"`
	Window    int `json:"Window"`
}
type jtCase struct {
	ID   int      `json:"id"`
	Cfg  jtCfg    `json:"cfg"`
	Hist []jtStep `json:"hist"`
}

// Route sources: the version K is observable in the result; the bodies are chosen so that
// optimisation has something to do (locals, folding, a path parameter that another route
// binds as a local constant).
func jtSource(r string, k int) string {
	switch r {
	case "a":
		return fmt.Sprintf("@ GET /a {\n  $ id = %d\n  $ y = id * 2 + 1\n  > {v: %d, id: id, y: y}\n}\n", 100+k, k)
	default:
		return fmt.Sprintf("@ GET /b/:id {\n  $ k = %d + 0\n  > {v: k, id: id}\n}\n", k)
	}
}

func jtRoute(src string) *ast.Route {
	lexer := parser.NewLexer(src)
	tokens, err := lexer.Tokenize()
	if err != nil {
		panic(err)
	}
	mod, err := parser.NewParser(tokens).Parse()
	if err != nil {
		panic(err)
	}
	for _, it := range mod.Items {
		if rt, ok := it.(*ast.Route); ok {
			return rt
		}
	}
	panic("no route")
}

// The same two routes built through the library API (pointer-form nodes), where the
// optimizer's rewrites apply.
func jtPointerRoute(r string, k int) *ast.Route {
	lit := func(n int) ast.Expr { return &ast.LiteralExpr{Value: ast.IntLiteral{Value: int64(n)}} }
	v := func(n string) ast.Expr { return &ast.VariableExpr{Name: n} }
	if r == "a" {
		return &ast.Route{Method: ast.Get, Path: "/a", Body: []ast.Statement{
			&ast.AssignStatement{Target: "id", Value: lit(100 + k)},
			&ast.AssignStatement{Target: "y", Value: &ast.BinaryOpExpr{Op: ast.Add, Left: v("id"), Right: lit(1)}},
			&ast.ReturnStatement{Value: &ast.ObjectExpr{Fields: []ast.ObjectField{{Key: "v", Value: lit(k)}, {Key: "id", Value: v("id")}, {Key: "y", Value: v("y")}}}},
		}}
	}
	// besides the version number: the same operands in both orders of a + that joins strings at run time (id is a
	// path parameter), an expression repeated after one of its operands changed, and an int/float comparison - what the
	// rewrites of the higher tiers must leave alone
	str := func(x string) ast.Expr { return &ast.LiteralExpr{Value: ast.StringLiteral{Value: x}} }
	add := func(a, b ast.Expr) ast.Expr { return &ast.BinaryOpExpr{Op: ast.Add, Left: a, Right: b} }
	return &ast.Route{Method: ast.Get, Path: "/b/:id", Body: []ast.Statement{
		&ast.AssignStatement{Target: "k", Value: &ast.BinaryOpExpr{Op: ast.Add, Left: lit(k), Right: lit(0)}},
		&ast.AssignStatement{Target: "sfx", Value: add(v("id"), str("!"))},
		&ast.AssignStatement{Target: "p", Value: add(v("id"), v("sfx"))},
		&ast.AssignStatement{Target: "q", Value: add(v("sfx"), v("id"))},
		&ast.ReassignStatement{Target: "sfx", Value: add(v("sfx"), str("?"))},
		&ast.AssignStatement{Target: "p2", Value: add(v("id"), v("sfx"))},
		&ast.ReturnStatement{Value: &ast.ObjectExpr{Fields: []ast.ObjectField{{Key: "v", Value: v("k")}, {Key: "id", Value: v("id")},
			{Key: "p", Value: v("p")}, {Key: "q", Value: v("q")}, {Key: "p2", Value: v("p2")}}}},
	}}
}

func jtRun(bc []byte) string {
	m := vm.NewVM()
	m.SetLocal("id", vm.StringValue{Val: "seven"})
	m.SetLocal("query", vm.ObjectValue{Val: map[string]vm.Value{}})
	m.SetLocal("input", vm.NullValue{})
	res, err := m.Execute(bc)
	if err != nil {
		return "error: " + err.Error()
	}
	b, _ := json.Marshal(res)
	return string(b)
}

func jtBaseline(rt *ast.Route) string {
	bc, err := compiler.NewCompilerWithOptLevel(compiler.OptNone).CompileRoute(rt)
	if err != nil {
		return "compile error: " + err.Error()
	}
	return jtRun(bc)
}

func jtTypes(name string) map[string]string {
	switch name {
	case "T1":
		return map[string]string{"id": "string"}
	case "T2":
		return map[string]string{"id": "int", "k": "int"}
	}
	// T3..: further combinations, one extra typed name each
	return map[string]string{"id": "string", "extra_" + name: "int"}
}

func TestVerifJitReplay(t *testing.T) {
	in, err := os.Open(os.Getenv("VERIF_CASES"))
	if err != nil {
		t.Fatal(err)
	}
	defer in.Close()
	outf, _ := os.Create(os.Getenv("VERIF_OUT"))
	defer outf.Close()
	out := bufio.NewWriter(outf)
	defer out.Flush()
	enc := json.NewEncoder(out)
	sc := bufio.NewScanner(in)
	sc.Buffer(make([]byte, 1<<20), 1<<26)
	base := time.Unix(1700000000, 0)
	forms := [2]map[string]*ast.Route{{}, {}}
	baselines := [2]map[string]string{{}, {}}
	for _, r := range []string{"a", "b"} {
		for k := 1; k <= 3; k++ {
			key := r + strconv.Itoa(k)
			forms[0][key] = jtRoute(jtSource(r, k))
			forms[1][key] = jtPointerRoute(r, k)
			for f := 0; f < 2; f++ {
				baselines[f][key] = jtBaseline(forms[f][key])
			}
		}
	}
	ncases, nsteps, nmis := 0, 0, 0
	for sc.Scan() {
		var cs jtCase
		if err := json.Unmarshal(sc.Bytes(), &cs); err != nil {
			t.Fatalf("bad case %v", err)
		}
		ncases++
		routes, baseline := forms[cs.ID%2], baselines[cs.ID%2] // parsed and library-built trees alternate
		verifSetClock(base)
		j := NewJITCompilerWithConfig(cs.Cfg.Threshold, time.Duration(cs.Cfg.Window)*time.Second)
		def := map[string]int{"a": 1, "b": 1}
		now := 0
		for i, st := range cs.Hist {
			nsteps++
			bad := ""
			check := func(bc []byte, err error) {
				if err != nil {
					bad = "error: " + err.Error()
					return
				}
				got := jtRun(bc)
				wantKey := st.R + strconv.Itoa(st.Ver)
				if got != baseline[wantKey] {
					bad = fmt.Sprintf("handed-out bytecode yields %s; the specification says version %d (%s)", got, st.Ver, baseline[wantKey])
				}
			}
			switch st.Op {
			case "Compile":
				bc, err := j.CompileRoute(st.R, routes[st.R+strconv.Itoa(def[st.R])])
				check(bc, err)
				if bad == "" {
					if u, ok := j.GetUnit(st.R); !ok || int(u.Tier) != st.Tier {
						bad = fmt.Sprintf("tier %v want %d", u, st.Tier)
					}
				}
			case "CompileTyped":
				bc, err := j.CompileRouteWithTypes(st.R, routes[st.R+strconv.Itoa(def[st.R])], jtTypes(st.Types))
				check(bc, err)
			case "Exec":
				j.RecordExecution(st.R, time.Millisecond)
			case "Invalidate":
				j.InvalidateCache(st.R)
			case "Clear":
				j.ClearCache()
			case "Deopt":
				j.RecordDeoptimization(st.R, "type guard failed", map[string]string{"id": "int"})
			case "Redefine":
				def[st.R] = st.Ver
			case "Tick":
				now++
				verifSetClock(base.Add(time.Duration(now) * time.Second))
			}
			if bad != "" {
				nmis++
				enc.Encode(map[string]interface{}{"case": cs.ID, "step": i, "op": st.Op, "what": bad})
				break
			}
		}
	}
	enc.Encode(map[string]int{"summary": 1, "cases": ncases, "steps": nsteps, "mismatches": nmis})
}

// Concurrent phase (race detector on): definitions fixed, many goroutines mixing all calls;
// everything handed out must behave like the baseline compilation.
func TestVerifJitConcurrent(t *testing.T) {
	outf, _ := os.Create(os.Getenv("VERIF_CONC_OUT"))
	defer outf.Close()
	enc := json.NewEncoder(outf)
	seed, _ := strconv.Atoi(os.Getenv("VERIF_SEED"))
	ra, rb := jtRoute(jtSource("a", 1)), jtRoute(jtSource("b", 1))
	ba, bb := jtBaseline(ra), jtBaseline(rb)
	j := NewJITCompilerWithConfig(4, time.Millisecond)
	var wg sync.WaitGroup
	var mu sync.Mutex
	nbad, ncalls := 0, 0
	for g := 0; g < 8; g++ {
		wg.Add(1)
		go func(g int) {
			defer wg.Done()
			x := uint32(seed*31 + g*17 + 1)
			for i := 0; i < 300; i++ {
				x = x*1664525 + 1013904223
				r, rt, want := "a", ra, ba
				if (x>>8)%2 == 0 {
					r, rt, want = "b", rb, bb
				}
				var bc []byte
				var err error
				switch (x >> 16) % 8 {
				case 0, 1, 2:
					bc, err = j.CompileRoute(r, rt)
				case 3:
					bc, err = j.CompileRouteWithTypes(r, rt, jtTypes("T1"))
				case 4, 5:
					j.RecordExecution(r, time.Microsecond)
				case 6:
					if (x>>20)%5 == 0 {
						j.InvalidateCache(r)
					}
					j.GetUnit(r)
				case 7:
					if (x>>20)%7 == 0 {
						j.RecordDeoptimization(r, "x", nil)
					}
					time.Sleep(time.Millisecond)
				}
				if bc != nil || err != nil {
					mu.Lock()
					ncalls++
					if err != nil || jtRun(bc) != want {
						nbad++
						if nbad <= 3 {
							enc.Encode(map[string]interface{}{"what": fmt.Sprint("route ", r, ": err=", err, " got=", jtRun(bc), " want=", want)})
						}
					}
					mu.Unlock()
				}
			}
		}(g)
	}
	wg.Wait()
	enc.Encode(map[string]int{"summary": 1, "calls": ncalls, "bad": nbad})
}
