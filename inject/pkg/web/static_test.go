//go:build verif

package web

// C17 driver: layouts and the served set computed by TLC (specs/staticfs/StaticFs.tla) are
// materialised in a temp dir; every request of the bounded space is sent to the real
// StaticFileServer / SendFile and the response class and bytes are compared.

import (
	"bufio"
	"encoding/json"
	"fmt"
	"net/http"
	"net/http/httptest"
	"os"
	"path/filepath"
	"strings"
	"testing"
)

type sfLayout struct {
	Idx interface{} `json:"idx"`
	L   interface{} `json:"l"`
	M   interface{} `json:"m"`
	Ti  interface{} `json:"ti"`
}
type sfServed struct {
	Mode    string   `json:"mode"`
	Segs    []string `json:"segs"`
	Content string   `json:"content"`
}
type sfCase struct {
	ID     int        `json:"id"`
	Layout sfLayout   `json:"layout"`
	Served []sfServed `json:"served"`
	Alpha  []string   `json:"alpha"`
	MaxLen int        `json:"maxlen"`
	Modes  []string   `json:"modes"`
}

func sfTarget(x interface{}) ([]string, string) {
	m, ok := x.(map[string]interface{})
	if !ok {
		return nil, "absent"
	}
	kind, _ := m["k"].(string)
	out := []string{}
	if tg, ok := m["tg"].([]interface{}); ok {
		for _, e := range tg {
			out = append(out, e.(string))
		}
	}
	return out, kind
}

func sfMaterialise(t *testing.T, base string, lay sfLayout, id int) string {
	top := filepath.Join(base, "top")
	must := func(err error) {
		if err != nil {
			t.Fatal(err)
		}
	}
	must(os.MkdirAll(filepath.Join(top, "root", "d"), 0o755))
	must(os.MkdirAll(filepath.Join(top, "rootx"), 0o755))
	must(os.MkdirAll(filepath.Join(top, "ROOT"), 0o755))
	must(os.MkdirAll(filepath.Join(top, "out"), 0o755))
	w := func(p, c string) { must(os.WriteFile(filepath.Join(top, p), []byte(c), 0o644)) }
	w("root/f.txt", "F")
	w("root/d/g.txt", "G")
	w("rootx/s.txt", "EVIL")
	w("ROOT/c.txt", "CASE")
	w("out/secret.txt", "SECRET")
	w("out/index.html", "OUTIDX")
	if _, kind := sfTarget(lay.Ti); kind == "file" {
		w("index.html", "TOPIDX")
	}
	mk := func(rel string, x interface{}, n int) {
		tg, kind := sfTarget(x)
		full := filepath.Join(top, rel)
		switch kind {
		case "file":
			w(rel, "IDX")
		case "link":
			target := filepath.Join(append([]string{top}, tg...)...)
			if (id+n)%2 == 1 { // alternate absolute and relative link texts
				if r, err := filepath.Rel(filepath.Dir(full), target); err == nil {
					target = r
				}
			}
			must(os.Symlink(target, full))
		}
	}
	mk("root/d/index.html", lay.Idx, 0)
	mk("root/l", lay.L, 1)
	mk("root/d/m", lay.M, 2)
	return top
}

// concrete spellings of one abstract segment
func sfSpell(seg string, k int) string {
	switch seg {
	case "..":
		return []string{"..", "%2e%2e", "%2E.", ".%2e"}[k%4]
	case ".":
		return []string{".", "%2e"}[k%2]
	case "bs":
		return "..%5C.." // a literal backslash name
	case "nul":
		return "f.txt%00"
	}
	return seg
}

func sfRaw(seg string) string {
	switch seg {
	case "bs":
		return "..\\.."
	case "nul":
		return "f.txt\x00"
	}
	return seg
}

func TestVerifStaticReplay(t *testing.T) {
	in, err := os.Open(os.Getenv("VERIF_CASES"))
	if err != nil {
		t.Fatal(err)
	}
	defer in.Close()
	outf, _ := os.Create(os.Getenv("VERIF_OUT"))
	defer outf.Close()
	out := bufio.NewWriter(outf)
	defer out.Flush()
	enc := json.NewEncoder(out)
	sc := bufio.NewScanner(in)
	sc.Buffer(make([]byte, 1<<20), 1<<27)
	ncases, nreq, nmis := 0, 0, 0
	for sc.Scan() {
		var cs sfCase
		if err := json.Unmarshal(sc.Bytes(), &cs); err != nil {
			t.Fatalf("bad case %v", err)
		}
		ncases++
		base, _ := os.MkdirTemp("", "verif-sf-")
		top := sfMaterialise(t, base, cs.Layout, cs.ID)
		root := filepath.Join(top, "root")
		want := map[string]string{}
		for _, s := range cs.Served {
			want[s.Mode+"|"+strings.Join(s.Segs, "\x01")] = s.Content
		}
		plain, err := NewStaticFileServer(root)
		if err != nil {
			t.Fatal(err)
		}
		mounted, _ := NewStaticFileServer(root, WithPrefix("/static"))
		listing, _ := NewStaticFileServer(root, WithDirectoryListing(true))
		mux := http.NewServeMux()
		mux.Handle("/static/", mounted)
		rh := &ResponseHelper{}
		// enumerate the request space
		var walk func(prefix []string)
		check := func(mode string, segs []string) {
			nreq++
			exp, served := want[mode+"|"+strings.Join(segs, "\x01")]
			var observations []string // each: "200:<body>" or "deny:<code>"
			if mode == "list" {
				esc := make([]string, len(segs))
				for i, s := range segs {
					esc[i] = sfSpell(s, cs.ID+nreq+i)
				}
				req, rerr := http.NewRequest("GET", "http://x/"+strings.Join(esc, "/"), nil)
				if rerr == nil {
					rec := httptest.NewRecorder()
					listing.ServeHTTP(rec, req)
					body := rec.Body.String()
					switch {
					case rec.Code == 200 && strings.Contains(rec.Header().Get("Content-Type"), "html") && strings.Contains(body, "<a "):
						id := "?"
						switch {
						case strings.Contains(body, "g.txt"):
							id = "d"
						case strings.Contains(body, "secret.txt"):
							id = "out"
						case strings.Contains(body, "s.txt"):
							id = "rootx"
						case strings.Contains(body, "rootx"):
							id = "top"
						case strings.Contains(body, "f.txt"):
							id = "root"
						}
						observations = append(observations, "200:LIST:"+id)
					case rec.Code == 200:
						observations = append(observations, "200:"+body)
					default:
						observations = append(observations, fmt.Sprintf("deny:%d:%s", rec.Code, body))
					}
				}
			} else if mode == "static" {
				esc := make([]string, len(segs))
				for i, s := range segs {
					esc[i] = sfSpell(s, cs.ID+nreq+i)
				}
				target := "/" + strings.Join(esc, "/")
				for variant := 0; variant < 3; variant++ {
					var h http.Handler = plain
					tgt := target
					if variant >= 1 {
						tgt = "/static" + target
						h = mounted
						if variant == 2 {
							h = mux // through a ServeMux, as `glyph run` registers it
						}
					}
					req, rerr := http.NewRequest("GET", "http://x"+tgt, nil)
					if rerr != nil {
						continue
					}
					rec := httptest.NewRecorder()
					h.ServeHTTP(rec, req)
					if rec.Code == 200 {
						observations = append(observations, "200:"+rec.Body.String())
					} else if rec.Code == 301 || rec.Code == 308 || rec.Code == 307 {
						observations = append(observations, "redirect")
					} else {
						observations = append(observations, fmt.Sprintf("deny:%d:%s", rec.Code, rec.Body.String()))
					}
				}
			} else {
				raw := make([]string, len(segs))
				for i, s := range segs {
					raw[i] = sfRaw(s)
				}
				req := httptest.NewRequest("GET", "/x", nil)
				rec := httptest.NewRecorder()
				err := rh.SendFile(rec, req, root, "./"+strings.Join(raw, "/"))
				if err == nil && rec.Code == 200 {
					observations = append(observations, "200:"+rec.Body.String())
				} else {
					observations = append(observations, fmt.Sprintf("deny:%d:%s", rec.Code, rec.Body.String()))
				}
			}
			for vi, o := range observations {
				bad := ""
				switch {
				case o == "redirect":
					// the mux canonicalises dot segments and doubled slashes by redirect: nothing served
				case strings.HasPrefix(o, "200:"):
					body := o[4:]
					if !served {
						bad = "served " + body + " but must be denied"
					} else if body != exp {
						bad = "served " + body + " want " + exp
					}
				default:
					if served && !(vi == 2 && false) {
						bad = o + " but must serve " + exp
					}
					for _, secret := range []string{"SECRET", "EVIL", "OUTIDX", "TOPIDX"} {
						if strings.Contains(o, secret) {
							bad = "denied response leaks content: " + o
						}
					}
				}
				if bad != "" {
					nmis++
					enc.Encode(map[string]interface{}{"case": cs.ID, "mode": mode, "segs": segs, "variant": vi, "what": bad})
				}
			}
		}
		walk = func(prefix []string) {
			for _, mode := range cs.Modes {
				check(mode, prefix)
			}
			if len(prefix) == cs.MaxLen {
				return
			}
			for _, a := range cs.Alpha {
				walk(append(append([]string{}, prefix...), a))
			}
		}
		walk(nil)
		os.RemoveAll(base)
	}
	enc.Encode(map[string]int{"summary": 1, "cases": ncases, "requests": nreq, "mismatches": nmis})
}
