//go:build verif

package websocket

// C16 driver.  M->I: serial behaviours of specs/ws/WsHub.tla replayed on a real Hub
// (go hub.Run(), real connections over a loopback socket so that rejected registrations
// can be closed), state projection compared after each operation.  I->M: free-running
// stress from many goroutines; hook events (globally sequenced under the protecting lock)
// are written as a trace for WsHubTrace.tla.

import (
	"bufio"
	"encoding/json"
	"fmt"
	"math/rand"
	"net/http"
	"net/http/httptest"
	"os"
	"sort"
	"strconv"
	"strings"
	"sync"
	"sync/atomic"
	"testing"
	"time"

	gws "github.com/gorilla/websocket"
)

type whCfg struct {
	MaxConns int    `json:"MaxConns"`
	RoomCap  int    `json:"RoomCap"`
	QCap     int    `json:"QCap"`
	Strategy string `json:"Strategy"`
}

type whState struct {
	Registered []string            `json:"registered"`
	Open       map[string]bool     `json:"open"`
	Closed     map[string]bool     `json:"closed"`
	Members    map[string][]string `json:"members"`
	View       map[string][]string `json:"view"`
	Qlen       map[string]int      `json:"qlen"`
}

type whStep struct {
	Op  string  `json:"op"`
	C   string  `json:"c"`
	R   string  `json:"r"`
	M   string  `json:"m"`
	Ok  *bool   `json:"ok"`
	Res string  `json:"res"`
	St  whState `json:"st"`
}

type whCase struct {
	ID   int      `json:"id"`
	Cfg  whCfg    `json:"cfg"`
	Hist []whStep `json:"hist"`
}

// socket factory: server-side *websocket.Conn objects
type whSockets struct {
	srv   *httptest.Server
	conns chan *gws.Conn
	cli   []*gws.Conn
}

func newWhSockets() *whSockets {
	s := &whSockets{conns: make(chan *gws.Conn, 16)}
	up := gws.Upgrader{}
	s.srv = httptest.NewServer(http.HandlerFunc(func(w http.ResponseWriter, r *http.Request) {
		c, err := up.Upgrade(w, r, nil)
		if err == nil {
			s.conns <- c
		}
	}))
	return s
}

func (s *whSockets) get() *gws.Conn {
	c, _, err := gws.DefaultDialer.Dial("ws"+strings.TrimPrefix(s.srv.URL, "http"), nil)
	if err != nil {
		panic(err)
	}
	s.cli = append(s.cli, c)
	return <-s.conns
}

func (s *whSockets) close() {
	for _, c := range s.cli {
		c.Close()
	}
	s.srv.Close()
}

type whHarness struct {
	hub   *Hub
	conns map[string]*Connection
	dummy *Connection
	names []string
	rooms []string
	done  chan struct{} // closed when the hub's Run goroutine has returned
}

// stop ends the hub loop and waits for it: the next harness installs a new hook, which the old
// loop must not be reading any more
func (h *whHarness) stop() {
	close(h.hub.shutdown)
	select {
	case <-h.done:
	case <-time.After(2 * time.Second):
	}
}

func newWhHarness(cfg whCfg, names, rooms []string, socks *whSockets) *whHarness {
	c := DefaultConfig()
	c.MaxConnectionsPerHub = cfg.MaxConns
	c.MaxConnectionsPerRoom = cfg.RoomCap
	c.MessageQueueSize = cfg.QCap
	c.MessageQueueStrategy = QueueStrategy(cfg.Strategy)
	c.EnableReconnection = false
	h := &whHarness{hub: NewHubWithConfig(c), conns: map[string]*Connection{}, names: names, rooms: rooms}
	h.done = make(chan struct{})
	go func() { h.hub.Run(); close(h.done) }()
	<-h.hub.started
	for _, n := range names {
		h.conns[n] = NewConnection(n, socks.get(), h.hub)
	}
	h.dummy = NewConnection("dummy", nil, h.hub)
	return h
}

// barrier: returns once the hub loop has finished everything queued before the call
func (h *whHarness) barrier() {
	for len(h.hub.broadcast) > 0 || len(h.hub.broadcastToRoom) > 0 {
		time.Sleep(20 * time.Microsecond)
	}
	h.hub.unregister <- h.dummy
	h.hub.unregister <- h.dummy
}

func (h *whHarness) project() whState {
	st := whState{Registered: []string{}, Open: map[string]bool{}, Closed: map[string]bool{}, Members: map[string][]string{}, View: map[string][]string{}, Qlen: map[string]int{}}
	h.hub.connMu.RLock()
	for c := range h.hub.connections {
		st.Registered = append(st.Registered, c.ID)
	}
	h.hub.connMu.RUnlock()
	sort.Strings(st.Registered)
	for _, n := range h.names {
		c := h.conns[n]
		c.sendMu.RLock()
		st.Open[n] = !c.sendClosed
		st.Qlen[n] = len(c.send)
		c.sendMu.RUnlock()
		c.roomsMu.RLock()
		st.Closed[n] = c.closed
		v := []string{}
		for r := range c.rooms {
			v = append(v, r)
		}
		c.roomsMu.RUnlock()
		sort.Strings(v)
		st.View[n] = v
	}
	for _, r := range h.rooms {
		ms := []string{}
		if room, ok := h.hub.roomManager.GetRoom(r); ok {
			for _, c := range room.Connections() {
				ms = append(ms, c.ID)
			}
		}
		sort.Strings(ms)
		st.Members[r] = ms
	}
	return st
}

func whNorm(st whState, names, rooms []string) string {
	var b strings.Builder
	reg := append([]string{}, st.Registered...)
	sort.Strings(reg)
	fmt.Fprintf(&b, "reg=%v;", reg)
	for _, n := range names {
		v := append([]string{}, st.View[n]...)
		sort.Strings(v)
		fmt.Fprintf(&b, "%s:open=%v,closed=%v,q=%d,view=%v;", n, st.Open[n], st.Closed[n], st.Qlen[n], v)
	}
	for _, r := range rooms {
		m := append([]string{}, st.Members[r]...)
		sort.Strings(m)
		fmt.Fprintf(&b, "%s=%v;", r, m)
	}
	return b.String()
}

func TestVerifHubReplay(t *testing.T) {
	in, err := os.Open(os.Getenv("VERIF_CASES"))
	if err != nil {
		t.Fatal(err)
	}
	defer in.Close()
	outf, _ := os.Create(os.Getenv("VERIF_OUT"))
	defer outf.Close()
	out := bufio.NewWriter(outf)
	defer out.Flush()
	enc := json.NewEncoder(out)
	var names, rooms []string
	json.Unmarshal([]byte(os.Getenv("VERIF_CONNS")), &names)
	json.Unmarshal([]byte(os.Getenv("VERIF_ROOMS")), &rooms)
	socks := newWhSockets()
	defer socks.close()
	sc := bufio.NewScanner(in)
	sc.Buffer(make([]byte, 1<<20), 1<<27)
	ncases, nsteps, nmis := 0, 0, 0
	for sc.Scan() {
		var cs whCase
		if err := json.Unmarshal(sc.Bytes(), &cs); err != nil {
			t.Fatalf("bad case %v", err)
		}
		ncases++
		h := newWhHarness(cs.Cfg, names, rooms, socks)
		for i, st := range cs.Hist {
			nsteps++
			got := ""
			stepDone := make(chan string, 1)
			go func() {
				defer func() {
					if r := recover(); r != nil {
						stepDone <- fmt.Sprint("panic: ", r)
					}
				}()
				res := ""
				c := h.conns[st.C]
				switch st.Op {
				case "Register":
					h.hub.register <- c
					h.barrier()
					h.hub.connMu.RLock()
					res = fmt.Sprint("ok=", h.hub.connections[c])
					h.hub.connMu.RUnlock()
				case "Unregister":
					h.hub.connMu.RLock()
					was := h.hub.connections[c]
					h.hub.connMu.RUnlock()
					h.hub.unregister <- c
					h.barrier()
					res = fmt.Sprint("ok=", was)
				case "Broadcast":
					h.hub.Broadcast([]byte(st.M))
					h.barrier()
				case "RoomCast":
					h.hub.BroadcastToRoom(st.R, []byte(st.M), nil)
					h.barrier()
				case "Join":
					c.JoinRoom(st.R)
					res = fmt.Sprint("ok=", c.IsInRoom(st.R))
				case "Leave":
					c.LeaveRoom(st.R)
				case "Send":
					before := len(c.send)
					err := c.Send([]byte(st.M))
					switch {
					case err == ErrConnectionClosed && !(len(c.send) > before):
						c.sendMu.RLock()
						if c.sendClosed {
							res = "res=closed"
						} else {
							res = "res=dropped"
						}
						c.sendMu.RUnlock()
					case err != nil:
						res = "res=err:" + err.Error()
					case len(c.send) > before || cs.Cfg.Strategy == "drop_oldest":
						res = "res=queued"
					default:
						res = "res=dropped"
					}
				case "Drain":
					select {
					case m, ok := <-c.send:
						if !ok {
							res = "m=<closed>"
						} else {
							res = "m=" + string(m)
						}
					default:
						res = "m=<empty>"
					}
				}
				stepDone <- res
			}()
			select {
			case got = <-stepDone:
			case <-time.After(5 * time.Second):
				got = "hang"
			}
			want := ""
			switch st.Op {
			case "Register", "Unregister", "Join":
				if st.Ok != nil {
					want = fmt.Sprint("ok=", *st.Ok)
				}
			case "Send":
				want = "res=" + st.Res
			case "Drain":
				want = "m=" + st.M
			}
			bad := ""
			if got != want {
				bad = "result"
			}
			gotSt, wantSt := "", ""
			if got != "hang" && !strings.HasPrefix(got, "panic") {
				gotSt, wantSt = whNorm(h.project(), names, rooms), whNorm(st.St, names, rooms)
				if bad == "" && gotSt != wantSt {
					bad = "state"
				}
			}
			if bad != "" {
				nmis++
				enc.Encode(map[string]interface{}{"case": cs.ID, "step": i, "op": st.Op, "field": bad, "want": want, "got": got,
					"wantState": wantSt, "gotState": gotSt})
				break
			}
		}
		h.hub.unregister <- h.dummy
		h.stop()
	}
	enc.Encode(map[string]int{"summary": 1, "cases": ncases, "steps": nsteps, "mismatches": nmis})
}

// ------------------------------------------------------------------ I->M recorder
func TestVerifHubRecord(t *testing.T) {
	outf, _ := os.Create(os.Getenv("VERIF_OUT"))
	defer outf.Close()
	out := bufio.NewWriter(outf)
	defer out.Flush()
	enc := json.NewEncoder(out)
	seed, _ := strconv.ParseInt(os.Getenv("VERIF_SEED"), 10, 64)
	ntr, _ := strconv.Atoi(os.Getenv("VERIF_NTRACES"))
	if ntr == 0 {
		ntr = 5
	}
	var names, rooms []string
	json.Unmarshal([]byte(os.Getenv("VERIF_CONNS")), &names)
	json.Unmarshal([]byte(os.Getenv("VERIF_ROOMS")), &rooms)
	var cfg whCfg
	json.Unmarshal([]byte(os.Getenv("VERIF_CFG")), &cfg)
	socks := newWhSockets()
	defer socks.close()
	defer func() { VerifHook = nil }()
	for tr := 0; tr < ntr; tr++ {
		var emu sync.Mutex
		var events []map[string]interface{}
		known := map[*Connection]string{}
		VerifHook = func(name string, a ...interface{}) {
			e := map[string]interface{}{"ev": name}
			for _, x := range a {
				switch v := x.(type) {
				case *Connection:
					id, ok := known[v]
					if !ok {
						return // the driver's barrier connection
					}
					e["c"] = id
				case string:
					if name == "Send" {
						e["res"] = v
					} else {
						e["r"] = v
					}
				case bool:
					switch name {
					case "Reg", "RoomAdd":
						e["ok"] = v
					case "Unreg1":
						e["found"] = v
					case "TrySend":
						e["queued"] = v
					}
				}
			}
			emu.Lock()
			events = append(events, e)
			emu.Unlock()
		}
		h := newWhHarness(cfg, names, rooms, socks)
		for _, n := range names {
			known[h.conns[n]] = n
		}
		var wg sync.WaitGroup
		var smu sync.Mutex
		started := map[string]bool{}
		fail := make(chan string, 64)
		for g := 0; g < 6; g++ {
			wg.Add(1)
			go func(g int) {
				defer wg.Done()
				defer func() {
					if r := recover(); r != nil {
						fail <- fmt.Sprint("panic: ", r)
					}
				}()
				rng := rand.New(rand.NewSource(seed*7919 + int64(tr)*101 + int64(g)))
				registered := map[string]bool{}
				isStarted := func(n string) bool { smu.Lock(); defer smu.Unlock(); return started[n] }
				for i := 0; i < 40; i++ {
					n := names[rng.Intn(len(names))]
					c := h.conns[n]
					r := rooms[rng.Intn(len(rooms))]
					switch rng.Intn(10) {
					case 0:
						if g == 0 && !registered[n] { // each connection is registered once, by one goroutine
							registered[n] = true
							if rng.Intn(2) == 0 {
								// handlers may get hold of the connection before the hub has processed it ...
								if cfg.MaxConns == 0 {
									smu.Lock()
									started[n] = true
									smu.Unlock()
								}
								h.hub.register <- c
							} else {
								// ... or only once it is registered (a rejected connection is never handed out)
								h.hub.register <- c
								h.hub.unregister <- h.dummy
								h.hub.unregister <- h.dummy
								h.hub.connMu.RLock()
								ok := h.hub.connections[c]
								h.hub.connMu.RUnlock()
								if ok {
									smu.Lock()
									started[n] = true
									smu.Unlock()
								}
							}
						}
					case 1:
						if g == 0 && registered[n] && rng.Intn(3) == 0 {
							h.hub.unregister <- c
						}
					case 2, 3:
						if isStarted(n) {
							c.JoinRoom(r)
						}
					case 4:
						if isStarted(n) {
							c.LeaveRoom(r)
						}
					case 5:
						h.hub.BroadcastToRoom(r, []byte("m"), nil)
					case 6:
						if rng.Intn(3) == 0 {
							h.hub.Broadcast([]byte("m"))
						}
					case 7:
						if isStarted(n) {
							c.Send([]byte("m"))
						}
					case 8, 9:
						select {
						case <-c.send:
						default:
						}
					}
				}
			}(g)
		}
		fin := make(chan struct{})
		go func() { wg.Wait(); close(fin) }()
		status := "ok"
		select {
		case <-fin:
			h.barrier()
		case <-time.After(20 * time.Second):
			status = "hang"
		}
		select {
		case m := <-fail:
			status = m
		default:
		}
		emu.Lock()
		evs := append([]map[string]interface{}{}, events...)
		emu.Unlock()
		enc.Encode(map[string]interface{}{"ev": "Reset", "status": status})
		for _, e := range evs {
			enc.Encode(e)
		}
		if status == "ok" {
			// quiescent check on the real state
			st := h.project()
			enc.Encode(map[string]interface{}{"ev": "Final", "state": whNorm(st, names, rooms), "st": st})
			h.stop()
		}
	} // Directed trace: the room broadcast is held inside its first trySend (the hook runs there, on the
	// hub loop) while every member calls LeaveRoom.  Same hooks, same trace specification: a message
	// queued for a connection after its RoomRemove is a TrySend outside the room's membership.
	for rep := 0; rep < 2; rep++ {
		var emu sync.Mutex
		var events []map[string]interface{}
		known := map[*Connection]string{}
		gate := make(chan struct{})
		reached := make(chan struct{}, 1)
		var once sync.Once
		var inCast, armed atomic.Bool
		VerifHook = func(name string, a ...interface{}) {
			e := map[string]interface{}{"ev": name}
			for _, x := range a {
				switch v := x.(type) {
				case *Connection:
					id, ok := known[v]
					if !ok {
						return
					}
					e["c"] = id
				case string:
					if name == "Send" {
						e["res"] = v
					} else {
						e["r"] = v
					}
				case bool:
					switch name {
					case "Reg", "RoomAdd":
						e["ok"] = v
					case "Unreg1":
						e["found"] = v
					case "TrySend":
						e["queued"] = v
					}
				}
			}
			emu.Lock()
			events = append(events, e)
			emu.Unlock()
			switch name {
			case "RoomCastBegin":
				inCast.Store(true)
			case "RoomCastEnd":
				inCast.Store(false)
			case "TrySend":
				if armed.Load() && inCast.Load() {
					once.Do(func() { reached <- struct{}{}; <-gate })
				}
			}
		}
		h := newWhHarness(cfg, names, rooms, socks)
		for _, n := range names {
			known[h.conns[n]] = n
		}
		r := rooms[rep%len(rooms)]
		var in []*Connection
		for _, n := range names {
			c := h.conns[n]
			h.hub.register <- c
			h.hub.unregister <- h.dummy
			h.hub.unregister <- h.dummy
			h.hub.connMu.RLock()
			ok := h.hub.connections[c]
			h.hub.connMu.RUnlock()
			if ok {
				c.JoinRoom(r)
				if room, exists := h.hub.GetRoomManager().GetRoom(r); exists && room.Has(c) {
					in = append(in, c)
				}
			}
		}
		status := "ok"
		armed.Store(true)
		h.hub.BroadcastToRoom(r, []byte("m"), nil)
		held := false
		select {
		case <-reached:
			held = true
		case <-time.After(2 * time.Second):
		}
		left := make(chan struct{}, len(in))
		for _, c := range in {
			go func(c *Connection) { c.LeaveRoom(r); left <- struct{}{} }(c)
		}
		if held {
			// while the broadcast holds the room, no LeaveRoom can finish: give them time to try
			time.Sleep(300 * time.Millisecond)
			close(gate)
		}
		for range in {
			select {
			case <-left:
			case <-time.After(10 * time.Second):
				status = "hang"
			}
		}
		if status == "ok" {
			h.barrier()
		}
		emu.Lock()
		evs := append([]map[string]interface{}{}, events...)
		emu.Unlock()
		enc.Encode(map[string]interface{}{"ev": "Reset", "status": status})
		for _, e := range evs {
			enc.Encode(e)
		}
		if status == "ok" {
			st := h.project()
			enc.Encode(map[string]interface{}{"ev": "Final", "state": whNorm(st, names, rooms), "st": st})
			h.stop()
		}
	}
}

// Burst recorder: many connections released at the same instant onto one operation (join a
// nearly full room, register at the connection limit), round after round; same hooks, same trace.
func TestVerifHubBurst(t *testing.T) {
	outf, _ := os.Create(os.Getenv("VERIF_OUT"))
	defer outf.Close()
	out := bufio.NewWriter(outf)
	defer out.Flush()
	enc := json.NewEncoder(out)
	rounds, _ := strconv.Atoi(os.Getenv("VERIF_ROUNDS"))
	if rounds == 0 {
		rounds = 60
	}
	var names, rooms []string
	json.Unmarshal([]byte(os.Getenv("VERIF_CONNS")), &names)
	json.Unmarshal([]byte(os.Getenv("VERIF_ROOMS")), &rooms)
	var cfg whCfg
	json.Unmarshal([]byte(os.Getenv("VERIF_CFG")), &cfg)
	socks := newWhSockets()
	defer socks.close()
	defer func() { VerifHook = nil }()
	var emu sync.Mutex
	var events []map[string]interface{}
	known := map[*Connection]string{}
	VerifHook = func(name string, a ...interface{}) {
		e := map[string]interface{}{"ev": name}
		for _, x := range a {
			switch v := x.(type) {
			case *Connection:
				id, ok := known[v]
				if !ok {
					return
				}
				e["c"] = id
			case string:
				if name == "Send" {
					e["res"] = v
				} else {
					e["r"] = v
				}
			case bool:
				switch name {
				case "Reg", "RoomAdd":
					e["ok"] = v
				case "Unreg1":
					e["found"] = v
				case "TrySend":
					e["queued"] = v
				}
			}
		}
		emu.Lock()
		events = append(events, e)
		emu.Unlock()
	}
	h := newWhHarness(cfg, names, rooms, socks)
	for _, n := range names {
		known[h.conns[n]] = n
	}
	enc.Encode(map[string]interface{}{"ev": "Reset", "status": "ok"})
	for _, n := range names {
		h.hub.register <- h.conns[n]
	}
	h.barrier()
	for round := 0; round < rounds; round++ {
		r := rooms[round%len(rooms)]
		start := make(chan struct{})
		var wg sync.WaitGroup
		for _, n := range names {
			wg.Add(1)
			go func(c *Connection) {
				defer wg.Done()
				<-start
				c.JoinRoom(r)
			}(h.conns[n])
		}
		close(start)
		wg.Wait()
		for _, n := range names {
			h.conns[n].LeaveRoom(r)
		}
	}
	h.barrier()
	emu.Lock()
	for _, e := range events {
		enc.Encode(e)
	}
	emu.Unlock()
	st := h.project()
	enc.Encode(map[string]interface{}{"ev": "Final", "state": whNorm(st, names, rooms), "st": st})
	h.stop()
}

// ---- senders blocked on a full queue while the hub closes the connection (specs/ws/WsBlock.tla) ----
// Each round: queue of capacity qcap, no write pump, `senders` goroutines each sending `msgs` messages under the block
// strategy; after a moment (some of them are blocked by then) the connection is unregistered, or evicted through a
// broadcast.  The spec says every Send returns (queued or closed), at most qcap are queued, the hub finishes and goes
// on serving.  Observed with a watchdog; one record per round.
func TestVerifHubBlock(t *testing.T) {
	outf, _ := os.Create(os.Getenv("VERIF_OUT"))
	defer outf.Close()
	enc := json.NewEncoder(outf)
	rounds, _ := strconv.Atoi(os.Getenv("VERIF_ROUNDS"))
	if rounds == 0 {
		rounds = 40
	}
	seed, _ := strconv.ParseInt(os.Getenv("VERIF_SEED"), 10, 64)
	rng := rand.New(rand.NewSource(seed + 77))
	socks := newWhSockets()
	defer socks.close()
	for round := 0; round < rounds; round++ {
		qcap := 1 + rng.Intn(2)
		senders := 1 + rng.Intn(3)
		msgs := 1 + rng.Intn(3)
		how := "unregister"
		delay := time.Duration(rng.Intn(4)) * time.Millisecond
		h := newWhHarness(whCfg{MaxConns: 8, RoomCap: 8, QCap: qcap, Strategy: "block"}, []string{"a", "b"}, []string{"r"}, socks)
		h.hub.register <- h.conns["a"]
		h.barrier()
		rec := map[string]interface{}{"ev": "BlockRound", "round": round, "qcap": qcap, "senders": senders, "msgs": msgs, "how": how}
		results := make(chan string, senders*msgs)
		var wg sync.WaitGroup
		for s := 0; s < senders; s++ {
			wg.Add(1)
			go func() {
				defer wg.Done()
				for m := 0; m < msgs; m++ {
					if err := h.conns["a"].Send([]byte("m")); err == nil {
						results <- "queued"
					} else {
						results <- "closed"
					}
				}
			}()
		}
		time.Sleep(delay)
		hubDone := make(chan struct{})
		go func() {
			h.hub.unregister <- h.conns["a"]
			h.barrier() // the hub has finished the unregister and serves the next request
			close(hubDone)
		}()
		sendersDone := make(chan struct{})
		go func() { wg.Wait(); close(sendersDone) }()
		wd := time.After(12 * time.Second)
		rec["hub_returns"], rec["senders_return"] = true, true
		select {
		case <-hubDone:
		case <-wd:
			rec["hub_returns"] = false
		}
		select {
		case <-sendersDone:
		case <-time.After(6 * time.Second):
			rec["senders_return"] = false
		}
		queued, closed := 0, 0
	drain:
		for {
			select {
			case r := <-results:
				if r == "queued" {
					queued++
				} else {
					closed++
				}
			default:
				break drain
			}
		}
		rec["queued"], rec["closed"] = queued, closed
		if rec["hub_returns"] == true && rec["senders_return"] == true {
			// a send after the close is refused, and the hub still registers a newcomer
			rec["late_send_refused"] = h.conns["a"].Send([]byte("late")) != nil
			h.hub.register <- h.conns["b"]
			h.barrier()
			h.hub.connMu.RLock()
			_, in := h.hub.connections[h.conns["b"]]
			h.hub.connMu.RUnlock()
			rec["hub_serves_afterwards"] = in
			h.stop()
		}
		// (a wedged hub cannot be stopped: its goroutines are left behind and the remaining rounds are skipped)
		enc.Encode(rec)
		if rec["hub_returns"] != true || rec["senders_return"] != true {
			break
		}
	}
	enc.Encode(map[string]interface{}{"summary": 1})
}
