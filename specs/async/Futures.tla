--------------------------------- MODULE Futures ---------------------------------
(***************************************************************************************)
(* Futures and their combinators (property C09, pkg/interpreter/future.go).            *)
(*                                                                                     *)
(* A future is a settle-once cell: pending, then resolved(v) or rejected(e), never      *)
(* anything else afterwards; Resolve, Reject and Cancel on a settled future do nothing. *)
(* Every awaiter, however often it asks, sees the same outcome.                         *)
(* One combinator is applied to the futures at some point of the run:                   *)
(*   all   resolves with the values in argument order when every future resolved;       *)
(*         rejects with the error of the lowest-numbered rejected future once all       *)
(*         futures before it resolved, cancelling the pending ones after it             *)
(*   race  settles like the first future to settle (a future already settled at the     *)
(*         call may be that one: any of them), cancelling the ones still pending        *)
(*   any   resolves like the first future to resolve (any already resolved one);        *)
(*         rejects when every future rejected                                           *)
(* Steps are separated by quiescence (the helper goroutines of a combinator have run),  *)
(* which is how the replay drives the real code; the free-running phase of the check    *)
(* uses the union of the outcomes this model allows over all orders.                    *)
(***************************************************************************************)
EXTENDS Integers, Sequences, FiniteSets, TLC

CONSTANTS NF,          \* number of futures
          Kind,        \* "all" | "race" | "any"
          Deviations,  \* "DoubleSettle": a second settle overwrites the first
          RecordHist

F == 1..NF
Dev(d) == d \in Deviations

\* outcome of a future / of the combinator: uniform records
Pending == [s |-> "pending", v |-> 0]
Resolved(v) == [s |-> "resolved", v |-> v]
Rejected(e) == [s |-> "rejected", v |-> e]
Cancelled == Rejected(-1)
AllRejected == Rejected(-2)             \* any(): aggregate error
AllValues == Resolved(-3)               \* all(): the values, in order (checked field by field by the replay)

VARIABLES st,       \* st[f]: outcome of future f
          called,   \* the combinator has been applied
          res,      \* set of outcomes the combinator's future may have now (singleton except for a race between already settled arguments)
          hist
vars == <<st, called, res, hist>>

Init == st = [f \in F |-> Pending] /\ called = FALSE /\ res = {Pending} /\ hist = <<>>

Settle(cur, f, o) == IF cur[f].s = "pending" \/ Dev("DoubleSettle") THEN [cur EXCEPT ![f] = o] ELSE cur
CancelAll(cur, S) == [f \in F |-> IF f \in S /\ cur[f].s = "pending" THEN Cancelled ELSE cur[f]]
PendingSet(cur) == {f \in F : cur[f].s = "pending"}

\* ---- the combinators: Decide(cur, trigger) = <<res', st'>> given the futures' states after a step.
\* trigger: the future that just settled (0 at the call itself)
AllDecide(cur) ==
  LET rej == {f \in F : cur[f].s = "rejected" /\ \A g \in F : g < f => cur[g].s = "resolved"} IN
  IF rej # {} THEN LET f == CHOOSE x \in rej : TRUE IN <<{Rejected(cur[f].v)}, CancelAll(cur, {g \in F : g > f})>>
  ELSE IF \A f \in F : cur[f].s = "resolved" THEN <<{AllValues}, cur>>
  ELSE <<{Pending}, cur>>

RaceDecide(cur, trigger) ==
  LET settled == {f \in F : cur[f].s # "pending"} IN
  IF settled = {} THEN <<{Pending}, cur>>
  ELSE IF trigger = 0 THEN <<{cur[f] : f \in settled}, CancelAll(cur, F)>>       \* already settled at the call: any of them
  ELSE <<{cur[trigger]}, CancelAll(cur, F)>>

AnyDecide(cur, trigger) ==
  LET ok == {f \in F : cur[f].s = "resolved"} IN
  IF ok # {} THEN (IF trigger = 0 THEN <<{cur[f] : f \in ok}, cur>> ELSE <<{cur[trigger]}, cur>>)
  ELSE IF \A f \in F : cur[f].s = "rejected" THEN <<{AllRejected}, cur>>
  ELSE <<{Pending}, cur>>

Decide(cur, trigger) == CASE Kind = "all" -> AllDecide(cur) [] Kind = "race" -> RaceDecide(cur, trigger) [] Kind = "any" -> AnyDecide(cur, trigger)

Undecided == res = {Pending}

H(op, f, v) == IF RecordHist THEN hist' = Append(hist, [op |-> op, f |-> f, v |-> v, st |-> st', res |-> res', called |-> called']) ELSE hist' = hist

\* one settle attempt on a future, then the combinator (if applied and still undecided) reacts
Act(op, f, o) ==
  LET cur == Settle(st, f, o)
      changed == cur # st IN
  /\ IF called /\ Undecided /\ changed
       THEN LET d == Decide(cur, f) IN res' = d[1] /\ st' = d[2]
       ELSE res' = res /\ st' = cur
  /\ UNCHANGED called
  /\ H(op, f, o.v)

Resolve(f, v) == Act("resolve", f, Resolved(v))
Reject(f, e) == Act("reject", f, Rejected(e))
Cancel(f) == Act("cancel", f, Cancelled)

Call ==
  /\ ~called
  /\ called' = TRUE
  /\ LET d == Decide(st, 0) IN res' = d[1] /\ st' = d[2]
  /\ H("call", 0, 0)

\* values: future f resolves with 10*f + k, rejects with 100*f + k (k tells a second attempt from the first)
Next == Call \/ \E f \in F : \E k \in {1, 2} : Resolve(f, 10 * f + k) \/ Reject(f, 100 * f + k) \/ (k = 1 /\ Cancel(f))
Spec == Init /\ [][Next]_vars

\* ---- properties ------------------------------------------------------------------------------------
TypeOK == \A f \in F : st[f].s \in {"pending", "resolved", "rejected"}

\* settle once: a settled future keeps its outcome; a decided combinator keeps its outcome
SettleOnce == [][\A f \in F : st[f].s # "pending" => st'[f] = st[f]]_vars
ResultStable == [][~Undecided => res' = res]_vars

\* contracts, stated over the futures' final outcomes
AllContract == Kind = "all" /\ called =>
  /\ (res = {AllValues}) => \A f \in F : st[f].s = "resolved"
  /\ (\E o \in res : o.s = "rejected") => \E f \in F : st[f].s = "rejected" /\ res = {Rejected(st[f].v)} /\ \A g \in F : g < f => st[g].s = "resolved"
  /\ ((\A f \in F : st[f].s = "resolved") => res = {AllValues})
RaceContract == Kind = "race" /\ called =>
  /\ (~Undecided) => (\A o \in res : \E f \in F : st[f] = o) /\ PendingSet(st) = {}
  /\ Undecided => \A f \in F : st[f].s = "pending"
AnyContract == Kind = "any" /\ called =>
  /\ (\E o \in res : o.s = "resolved") => \A o \in res : \E f \in F : st[f] = o
  /\ (res = {AllRejected}) <=> (\A f \in F : st[f].s = "rejected")
  /\ (\E f \in F : st[f].s = "resolved") => \E o \in res : o.s = "resolved"

View == <<st, called, res>>
====================================================================================
