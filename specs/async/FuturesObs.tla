------------------------------- MODULE FuturesObs -------------------------------
(* Final observations of free-running trials (futures settled by concurrent goroutines while the  *)
(* combinator is applied) judged by the contracts of Futures.tla: one initial state per observation. *)
EXTENDS Futures, Json

Obs == ndJsonDeserialize("obs.ndjson")

ObsInit == \E i \in 1..Len(Obs) :
             /\ st = [f \in F |-> Obs[i].st[f]]
             /\ res = {Obs[i].res}
             /\ called = TRUE
             /\ hist = <<[trial |-> Obs[i].trial]>>
ObsNext == UNCHANGED vars

\* everything was settled by the driver, so the combinator must have settled too
Settled == (\A f \in F : st[f].s \in {"resolved", "rejected"}) /\ (\A o \in res : o.s \in {"resolved", "rejected"})
====================================================================================
