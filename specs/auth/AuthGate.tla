---------------------------- MODULE AuthGate ----------------------------
(***************************************************************************)
(* `+ auth(...)` on a route: credential decision (jwt = shared bearer      *)
(* secret, apikey = configured key set), fail-closed when unconfigured,    *)
(* and the per-client failure lockout of BasicAuthMiddleware.              *)
(*                                                                         *)
(* A request is processed in the critical sections of the code:            *)
(*   Check(q)   lookup/create tracker, lockout test, stale-failure reset   *)
(*   Decide(q)  credential comparison (no shared state)                    *)
(*   Fail(q) / Succeed(q)   record the failure (maybe lock) / reset count  *)
(* so that TLC explores requests of the same client racing each other.     *)
(* apikey and unconfigured routes have no lockout: one step.               *)
(*                                                                         *)
(* Credential shapes are abstract names; their meaning (Verdict) is the    *)
(* documented rule, stated here independently of the code:                 *)
(*   jwt:    the Authorization value, with one optional leading "Bearer "  *)
(*           removed, equals the configured secret (exact, case-sensitive) *)
(*   apikey: X-API-Key (trimmed) if non-blank, else the Bearer token       *)
(*           (trimmed), is one of the configured keys                      *)
(*   "either": the statement of the property does not fix the outcome      *)
(*           (e.g. a valid credential in a second header line)             *)
(***************************************************************************)
EXTENDS Integers, Sequences, FiniteSets, TLC

CONSTANTS AuthType,      \* "jwt" | "apikey" | "other" (any other declared type) | "none" (no auth)
          EnvClass,      \* credential source: "unset" | "blank" | "value" | "padded" | "separators"
          Clients,
          Shapes,        \* credential shapes used in this configuration (records, see below)
          MaxFailures, Lockout, MaxLockout, ResetAfter,   \* in ticks
          Fwds,          \* forwarding-header values a request may carry ("" = none): names of
                         \* clients; the CLI never trusts proxies, so they must be ignored
          Jumps,         \* allowed clock advances
          MaxInFlight,
          RecordHist

VARIABLES now,
          tr,        \* client -> [exists, failures, lastFailure, lockedUntil]
          reqs,      \* in-flight requests: sequence of [c, shape, pc, locked]
          outcome,   \* last completed request: [c, shape, status, ran, lockedAtCheck]
          hist
vars == <<now, tr, reqs, outcome, hist>>
View == <<now, tr, reqs, outcome>>

NoTracker == [exists |-> FALSE, failures |-> 0, lastFailure |-> -1000, lockedUntil |-> -1000]

(* ---- credentials ------------------------------------------------------- *)
\* A shape is [authz |-> sequence of header lines, xkey |-> token name or "absent"].
\* A header line is [scheme, tok]; schemes: "" (raw), "Bearer ", "bearer ", "Bearer  "
\* (two spaces), "Basic ".  Token names: "secret" (the configured secret / first key),
\* "key2" (second key), "padded" (first key surrounded by spaces), "upper" (case-folded),
\* "prefix" (secret minus last char), "longer" (secret plus a char), "wrong", "empty".

\* jwt/other: a credential source is configured unless the variable is unset/blank
\* apikey: the key list must contain a non-blank entry
Configured == CASE AuthType = "none" -> TRUE
                [] AuthType = "apikey" -> EnvClass \in {"value", "padded"}
                [] OTHER -> EnvClass \in {"value", "padded", "separators"}

JwtLineOK(ln) == ln.scheme \in {"", "Bearer "} /\ ln.tok = "secret"
JwtVerdict(sh) ==
    IF sh.authz = <<>> THEN "bad"
    ELSE IF JwtLineOK(sh.authz[1]) THEN "ok"
    ELSE IF \E i \in 2..Len(sh.authz) : JwtLineOK(sh.authz[i]) THEN "either"
    ELSE "bad"

KeyTokOK(t) == t \in {"secret", "key2", "padded"}     \* surrounding blanks are trimmed
BearerTok(sh) == IF sh.authz # <<>> /\ sh.authz[1].scheme = "Bearer " THEN sh.authz[1].tok ELSE "empty"
EffectiveKey(sh) == IF sh.xkey \notin {"absent", "empty"} THEN sh.xkey ELSE BearerTok(sh)
CarriesValidKey(sh) ==
    \/ KeyTokOK(sh.xkey)
    \/ \E i \in 1..Len(sh.authz) : sh.authz[i].scheme = "Bearer " /\ KeyTokOK(sh.authz[i].tok)
KeyVerdict(sh) ==
    IF KeyTokOK(EffectiveKey(sh)) THEN "ok"
    ELSE IF CarriesValidKey(sh) THEN "either"
    ELSE "bad"

Verdict(s) == IF AuthType = "none" THEN "ok"
              ELSE IF ~Configured THEN "bad"
              ELSE IF AuthType = "apikey" THEN KeyVerdict(s)
              ELSE JwtVerdict(s)

HasLockout == AuthType \in {"jwt", "other"} /\ Configured

Pow2(n) == IF n <= 0 THEN 1 ELSE IF n >= 10 THEN 1024 ELSE 2 ^ n
Min(a, b) == IF a < b THEN a ELSE b

Done(rec) == hist' = IF RecordHist THEN Append(hist, rec) ELSE hist

Init ==
    /\ now = 0
    /\ tr = [c \in Clients |-> NoTracker]
    /\ reqs = <<>>
    /\ outcome = [status |-> 0]
    /\ hist = <<>>

Finish(i, status, ran, lockedAtCheck) ==
    /\ outcome' = [c |-> reqs[i].c, shape |-> reqs[i].shape, status |-> status, ran |-> ran,
                   lockedAtCheck |-> lockedAtCheck]
    /\ reqs' = [j \in 1..(Len(reqs) - 1) |-> IF j < i THEN reqs[j] ELSE reqs[j + 1]]
    /\ Done([op |-> "Req", c |-> reqs[i].c, fwd |-> reqs[i].fwd, shape |-> reqs[i].shape, status |-> status, ran |-> ran, now |-> now])

\* a request arrives
Arrive(c, s, f) ==
    /\ Len(reqs) < MaxInFlight
    /\ reqs' = Append(reqs, [c |-> c, shape |-> s, pc |-> "check", fwd |-> f])
    /\ UNCHANGED <<now, tr, outcome, hist>>

\* routes without lockout: a single step
Simple(i) ==
    /\ ~HasLockout
    /\ reqs[i].pc = "check"
    /\ UNCHANGED <<now, tr>>
    /\ LET v == Verdict(reqs[i].shape) IN
       \/ /\ v \in {"ok", "either"}
          /\ Finish(i, 200, TRUE, FALSE)
       \/ /\ v \in {"bad", "either"}
          /\ Finish(i, 401, FALSE, FALSE)

\* first critical section
Check(i) ==
    /\ HasLockout
    /\ reqs[i].pc = "check"
    /\ UNCHANGED now
    /\ LET c == reqs[i].c
           t0 == tr[c]
           t1 == [t0 EXCEPT !.exists = TRUE] IN
       IF now < t0.lockedUntil
         THEN /\ tr' = [tr EXCEPT ![c] = t1]
              /\ Finish(i, 429, FALSE, TRUE)
         ELSE /\ tr' = [tr EXCEPT ![c] = IF t0.exists /\ now - t0.lastFailure > ResetAfter
                                           THEN [t1 EXCEPT !.failures = 0] ELSE t1]
              /\ reqs' = [reqs EXCEPT ![i].pc = "decide"]
              /\ UNCHANGED <<outcome, hist>>

\* second critical section: failure recorded (and lock applied) or count reset
Settle(i) ==
    /\ HasLockout
    /\ reqs[i].pc = "decide"
    /\ UNCHANGED now
    /\ LET c == reqs[i].c
           v == Verdict(reqs[i].shape) IN
       \/ /\ v \in {"ok", "either"}
          /\ tr' = [tr EXCEPT ![c].failures = 0]
          /\ Finish(i, 200, TRUE, FALSE)
       \/ /\ v \in {"bad", "either"}
          /\ LET f == tr[c].failures + 1
                 lock == f >= MaxFailures
                 dur == Min(Lockout * Pow2(f - MaxFailures), MaxLockout) IN
             tr' = [tr EXCEPT ![c] = [exists |-> TRUE, failures |-> f, lastFailure |-> now,
                                     lockedUntil |-> IF lock THEN now + dur ELSE tr[c].lockedUntil]]
          /\ Finish(i, 401, FALSE, FALSE)

Advance(d) ==
    /\ now' = now + d
    /\ UNCHANGED <<tr, reqs, outcome>>
    /\ Done([op |-> "Advance", d |-> d, now |-> now + d])

Next ==
    \/ \E c \in Clients, s \in Shapes, f \in Fwds : Arrive(c, s, f)
    \/ \E i \in 1..Len(reqs) : Simple(i) \/ Check(i) \/ Settle(i)
    \/ \E d \in Jumps : Advance(d)

Spec == Init /\ [][Next]_vars

----------------------------------------------------------------------------
Completed == outcome.status # 0

\* the body runs only for an acceptable credential on a configured route (or an open route)
FailClosed == Completed /\ outcome.ran => Verdict(outcome.shape) \in {"ok", "either"}
UnconfiguredDeniesAll == (AuthType # "none" /\ ~Configured /\ Completed) => ~outcome.ran
OpenUnaffected == (AuthType = "none" /\ Completed) => outcome.ran /\ outcome.status = 200
\* a valid credential is refused only while the client is locked out
ValidPasses == (Completed /\ Verdict(outcome.shape) = "ok" /\ ~outcome.ran)
                   => (outcome.status = 429 /\ outcome.lockedAtCheck)
StatusRanConsistent == Completed => (outcome.ran <=> outcome.status = 200)
\* lockouts end: never longer than MaxLockout ahead
LockoutBounded == \A c \in Clients : tr[c].lockedUntil <= now + MaxLockout
\* a client is locked only after MaxFailures recorded failures
LockNeedsFailures == \A c \in Clients : tr[c].lockedUntil > now => tr[c].failures >= MaxFailures
=============================================================================
