---------------------------- MODULE AuthGateTrace ----------------------------
(* Lockout events (AuthCheck / AuthFail / AuthOK, emitted under the tracker mutex) must
   be a behaviour of AuthGate.  The arrival of a request is not logged: a silent Arrive
   is composed before the AuthCheck line of its client. *)
EXTENDS AuthGate, Json

VARIABLE l
tvars == <<vars, l>>
Trace == ndJsonDeserialize("trace.ndjson")
N == Len(Trace)
Ev == Trace[l]

TraceInit == Init /\ l = 1 /\ TLCSet(1, 0)

TReset ==
    /\ l <= N /\ Ev.ev = "Reset"
    /\ now' = 0 /\ tr' = [c \in Clients |-> NoTracker] /\ reqs' = <<>>
    /\ outcome' = [status |-> 0] /\ hist' = <<>>
    /\ l' = l + 1

Pending(c, pc) == {i \in 1..Len(reqs) : reqs[i].c = c /\ reqs[i].pc = pc}

TArrive ==   \* silent
    /\ l <= N /\ Ev.ev = "AuthCheck"
    /\ Pending(Ev.c, "check") = {}
    /\ \E s \in Shapes : Arrive(Ev.c, s, "")
    /\ l' = l

TCheck ==
    /\ l <= N /\ Ev.ev = "AuthCheck"
    /\ now = Ev.now
    /\ \E i \in Pending(Ev.c, "check") :
         /\ Check(i)
         /\ Ev.locked <=> (Len(reqs') < Len(reqs))
    /\ tr'[Ev.c].failures = Ev.failures
    /\ l' = l + 1

TFail ==
    /\ l <= N /\ Ev.ev = "AuthFail"
    /\ \E i \in Pending(Ev.c, "decide") : Settle(i) /\ outcome'.status = 401
    /\ tr'[Ev.c].failures = Ev.failures
    /\ IF tr'[Ev.c].lockedUntil > now THEN tr'[Ev.c].lockedUntil - now = Ev.lockTicks
       ELSE Ev.lockTicks <= 0 \/ tr'[Ev.c].lockedUntil - tr'[Ev.c].lastFailure = Ev.lockTicks
    /\ l' = l + 1

TOK ==
    /\ l <= N /\ Ev.ev = "AuthOK"
    /\ \E i \in Pending(Ev.c, "decide") : Settle(i) /\ outcome'.status = 200
    /\ l' = l + 1

TAdvance ==
    /\ l <= N /\ Ev.ev = "Advance" /\ Ev.now > now
    /\ now' = Ev.now /\ UNCHANGED <<tr, reqs, outcome, hist>>
    /\ l' = l + 1

TraceNext == TReset \/ TArrive \/ TCheck \/ TFail \/ TOK \/ TAdvance
TraceSpec == TraceInit /\ [][TraceNext]_tvars
HighWater == TLCSet(1, IF l > TLCGet(1) THEN l ELSE TLCGet(1))
TraceAccepted == IF TLCGet(1) = N + 1 THEN TRUE ELSE PrintT(<<"REJECT", TLCGet(1)>>) /\ FALSE
=============================================================================
