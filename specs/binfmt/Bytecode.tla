--------------------------------- MODULE Bytecode ---------------------------------
(***************************************************************************************)
(* The .glyphc container (property C10): a reference decoder and a catalogue of         *)
(* malformations.                                                                      *)
(*                                                                                     *)
(* Layout (as written by compiler.buildBytecode):                                       *)
(*   "GLYP"  u32 version (=1)  u32 nconst  nconst typed constants  u32 codelen  code    *)
(*   constant: 0x00 null | 0x01 i64 | 0x02 f64 | 0x03 bool(1 byte) | 0x04 u32 len, bytes *)
(*   code: opcode byte, followed by a u32 operand for the opcodes in WithOperand;        *)
(*   0xB0 (async) carries the length of a body that follows it inline.                  *)
(* All integers little-endian.  Decode is total: every byte string is either decoded     *)
(* completely (constants, instruction boundaries) or classified as malformed with the    *)
(* first reason.  Mutants(f) lists the malformations derived from a well-formed file:    *)
(* every truncation, every count/length/operand field set to boundary values, type tags  *)
(* and opcodes replaced, bytes appended.  TLC evaluates Decode on every file and every   *)
(* mutant; the loaders of the implementation are then run on the same bytes.             *)
(***************************************************************************************)
EXTENDS Integers, Sequences, FiniteSets, TLC, Json

Files == ndJsonDeserialize("files.ndjson")      \* [id, bytes] as emitted by the real compiler (or hand-made)

B(bs, o) == bs[o + 1]                            \* byte at 0-based offset o
\* TLC's integers are 32-bit: a field of 2^30 or more is read as 2^30, which already exceeds every file here
Huge == 1073741824
U32(bs, o) == IF B(bs, o + 3) >= 64 THEN Huge ELSE B(bs, o) + 256 * B(bs, o + 1) + 65536 * B(bs, o + 2) + 16777216 * B(bs, o + 3)
Has(bs, o, n) == o + n <= Len(bs)

Opcodes == {1, 2, 16, 17, 18, 19, 20, 32, 33, 34, 35, 36, 37, 38, 39, 40, 41, 64, 65, 80, 81, 82, 83, 84, 85, 86, 97, 98, 112, 113, 128, 144,
            160, 161, 162, 163, 164, 165, 166, 167, 168, 169, 176, 177, 255}
WithOperand == {1, 64, 65, 80, 81, 82, 84, 98, 112, 128, 176}     \* push, load, store, jump x3, iternext, call, buildobject, buildarray, async
ConstIndexOps == {1, 64, 65}
JumpOps == {80, 81, 82}
OpAsync == 176

Bad(why, at) == [ok |-> FALSE, why |-> why, at |-> at, consts |-> <<>>, instrs |-> <<>>]

RECURSIVE ReadConsts(_, _, _, _)
\* returns [ok, o, consts] ; consts: sequence of [t, o, n] (tag, offset of payload, payload length)
ReadConsts(bs, o, n, acc) ==
  IF n = 0 THEN [ok |-> TRUE, o |-> o, consts |-> acc, why |-> ""]
  ELSE IF ~Has(bs, o, 1) THEN [ok |-> FALSE, o |-> o, consts |-> acc, why |-> "constant-missing"]
  ELSE LET t == B(bs, o) IN
       CASE t = 0 -> ReadConsts(bs, o + 1, n - 1, Append(acc, [t |-> 0, o |-> o + 1, n |-> 0]))
         [] t \in {1, 2} -> IF Has(bs, o + 1, 8) THEN ReadConsts(bs, o + 9, n - 1, Append(acc, [t |-> t, o |-> o + 1, n |-> 8]))
                             ELSE [ok |-> FALSE, o |-> o, consts |-> acc, why |-> "constant-truncated"]
         [] t = 3 -> IF Has(bs, o + 1, 1) THEN ReadConsts(bs, o + 2, n - 1, Append(acc, [t |-> 3, o |-> o + 1, n |-> 1]))
                      ELSE [ok |-> FALSE, o |-> o, consts |-> acc, why |-> "constant-truncated"]
         [] t = 4 -> IF ~Has(bs, o + 1, 4) THEN [ok |-> FALSE, o |-> o, consts |-> acc, why |-> "constant-truncated"]
                      ELSE LET len == U32(bs, o + 1) IN
                           IF Has(bs, o + 5, len) THEN ReadConsts(bs, o + 5 + len, n - 1, Append(acc, [t |-> 4, o |-> o + 5, n |-> len]))
                           ELSE [ok |-> FALSE, o |-> o, consts |-> acc, why |-> "constant-truncated"]
         [] OTHER -> [ok |-> FALSE, o |-> o, consts |-> acc, why |-> "constant-type"]

RECURSIVE ReadInstrs(_, _, _, _, _)
\* instructions between o and end (exclusive), offsets reported relative to base; acc: sequence of [off, op, has, arg]
ReadInstrs(bs, o, end, base, acc) ==
  IF o = end THEN [ok |-> TRUE, instrs |-> acc, why |-> ""]
  ELSE LET op == B(bs, o) IN
       IF op \notin Opcodes THEN [ok |-> FALSE, instrs |-> acc, why |-> "opcode-unknown"]
       ELSE IF op \in WithOperand
         THEN IF o + 5 > end THEN [ok |-> FALSE, instrs |-> acc, why |-> "operand-truncated"]
              ELSE ReadInstrs(bs, o + 5, end, base, Append(acc, [off |-> o - base, op |-> op, has |-> TRUE, arg |-> U32(bs, o + 1)]))
         ELSE ReadInstrs(bs, o + 1, end, base, Append(acc, [off |-> o - base, op |-> op, has |-> FALSE, arg |-> 0]))

\* operands that refer to something must refer to something that exists
OperandsOk(ins, nconst, codeStart, codeLen) ==
  \A i \in 1..Len(ins) :
    LET x == ins[i] IN
    /\ (x.op \in ConstIndexOps => x.arg < nconst)
    /\ (x.op = OpAsync => x.off + 5 + x.arg <= codeLen)

Decode(bs) ==
  IF ~Has(bs, 0, 4) THEN Bad("too-short", 0)
  ELSE IF <<B(bs, 0), B(bs, 1), B(bs, 2), B(bs, 3)>> # <<71, 76, 89, 80>> THEN Bad("magic", 0)
  ELSE IF ~Has(bs, 4, 4) THEN Bad("version-missing", 4)
  ELSE IF U32(bs, 4) # 1 THEN Bad("version", 4)
  ELSE IF ~Has(bs, 8, 4) THEN Bad("nconst-missing", 8)
  ELSE LET nconst == U32(bs, 8)
           cs == IF nconst > Len(bs) THEN [ok |-> FALSE, o |-> 12, consts |-> <<>>, why |-> "constant-missing"]     \* every constant takes a byte
                 ELSE ReadConsts(bs, 12, nconst, <<>>) IN
       IF ~cs.ok THEN Bad(cs.why, cs.o)
       ELSE IF ~Has(bs, cs.o, 4) THEN Bad("codelen-missing", cs.o)
       ELSE LET codeLen == U32(bs, cs.o)
                codeStart == cs.o + 4 IN
            IF codeStart + codeLen # Len(bs) THEN Bad(IF codeStart + codeLen > Len(bs) THEN "code-truncated" ELSE "trailing-bytes", cs.o)
            ELSE LET is == ReadInstrs(bs, codeStart, Len(bs), codeStart, <<>>) IN
                 IF ~is.ok THEN Bad(is.why, codeStart)
                 ELSE IF ~OperandsOk(is.instrs, nconst, codeStart, codeLen) THEN Bad("operand-range", codeStart)
                 ELSE [ok |-> TRUE, why |-> "", at |-> codeStart, consts |-> cs.consts, instrs |-> is.instrs]

\* ---- malformations ------------------------------------------------------------------------------------
\* field values are written as their four bytes (2^31 and 2^32-1 are not TLC integers)
Quad(v) == <<v % 256, (v \div 256) % 256, (v \div 65536) % 256, (v \div 16777216) % 256>>
PutU32(bs, o, q) == [i \in 1..Len(bs) |-> IF i > o /\ i <= o + 4 THEN q[i - o] ELSE bs[i]]
PutB(bs, o, v) == [bs EXCEPT ![o + 1] = v]
Boundary(v) == {Quad(0), Quad(v + 1), Quad(1048576), <<255, 255, 255, 127>>, <<0, 0, 0, 128>>, <<255, 255, 255, 255>>} \cup (IF v > 0 THEN {Quad(v - 1)} ELSE {})

\* u32 fields of a well-formed file: [o, kind]
Fields(bs, d) ==
  LET nconstF == {[o |-> 8, kind |-> "nconst"]}
      strF == {[o |-> d.consts[i].o - 4, kind |-> "strlen"] : i \in {j \in 1..Len(d.consts) : d.consts[j].t = 4}}
      codeF == {[o |-> d.at - 4, kind |-> "codelen"]}
      argF == {[o |-> d.at + d.instrs[i].off + 1, kind |-> IF d.instrs[i].op \in JumpOps THEN "jump" ELSE IF d.instrs[i].op \in ConstIndexOps THEN "constidx"
                                                      ELSE IF d.instrs[i].op = OpAsync THEN "asynclen" ELSE "count"] : i \in {j \in 1..Len(d.instrs) : d.instrs[j].has}} IN
  nconstF \cup strF \cup codeF \cup argF

Tags(bs, d) == {d.consts[i].o - (IF d.consts[i].t = 4 THEN 5 ELSE 1) : i \in 1..Len(d.consts)}       \* offsets of constant type tags
OpOffsets(d) == {d.at + d.instrs[i].off : i \in 1..Len(d.instrs)}

\* a mutant: [kind, at, val]
Mutations(bs, d) ==
  {[kind |-> "truncate", at |-> n, val |-> <<0>>] : n \in 0..(Len(bs) - 1)}
  \cup UNION {{[kind |-> "field:" \o f.kind, at |-> f.o, val |-> v] : v \in Boundary(U32(bs, f.o))} : f \in Fields(bs, d)}
  \cup {[kind |-> "tag", at |-> o, val |-> <<v>>] : o \in Tags(bs, d), v \in {5, 255}}
  \cup {[kind |-> "opcode", at |-> o, val |-> <<v>>] : o \in OpOffsets(d), v \in {0, 3, 96, 238}}
  \cup {[kind |-> "magic", at |-> o, val |-> <<0>>] : o \in 0..3}
  \cup {[kind |-> "version", at |-> 4, val |-> <<v>>] : v \in {0, 2, 255}}
  \cup {[kind |-> "append", at |-> Len(bs), val |-> <<v>>] : v \in {0, 255}}

Apply(bs, m) ==
  CASE m.kind = "truncate" -> SubSeq(bs, 1, m.at)
    [] m.kind \in {"tag", "opcode", "magic", "version"} -> PutB(bs, m.at, m.val[1])
    [] m.kind = "append" -> bs \o <<m.val[1], m.val[1], m.val[1]>>
    [] OTHER -> PutU32(bs, m.at, m.val)

\* ---- evaluation: one state per (file, mutant) --------------------------------------------------------------
VARIABLES fi, mut, done
vars == <<fi, mut, done>>
None == [kind |-> "none", at |-> 0, val |-> <<0>>]
Init == fi \in 1..Len(Files) /\ mut = None /\ done = FALSE
Next ==
  \/ /\ mut = None /\ ~done
     /\ LET d == Decode(Files[fi].bytes) IN d.ok /\ mut' \in Mutations(Files[fi].bytes, d)
     /\ UNCHANGED <<fi, done>>
  \/ /\ ~done /\ done' = TRUE /\ UNCHANGED <<fi, mut>>
Spec == Init /\ [][Next]_vars

Bytes == IF mut = None THEN Files[fi].bytes ELSE Apply(Files[fi].bytes, mut)

\* Decode is total and classifies: checked on every state
Total == LET d == Decode(Bytes) IN d.ok \in BOOLEAN
\* what the compiler emits is well-formed
EmittedWellFormed == (mut = None /\ Files[fi].emitted) => Decode(Files[fi].bytes).ok
\* a truncated file is never well-formed (a prefix of a well-formed file is malformed)
PrefixMalformed == (mut.kind = "truncate") => ~Decode(Bytes).ok

EmitInv == done =>
  LET d == Decode(Bytes) IN
  PrintT(<<"CASE", ToJson([id |-> Files[fi].id, mut |-> mut, bytes |-> Bytes, ok |-> d.ok, why |-> d.why,
                            nconst |-> Len(d.consts), ctags |-> [i \in 1..Len(d.consts) |-> d.consts[i].t],
                            offs |-> [i \in 1..Len(d.instrs) |-> d.instrs[i].off], ops |-> [i \in 1..Len(d.instrs) |-> d.instrs[i].op],
                            args |-> [i \in 1..Len(d.instrs) |-> IF d.instrs[i].has THEN d.instrs[i].arg ELSE -1]])>>)
====================================================================================
