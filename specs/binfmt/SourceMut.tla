--------------------------------- MODULE SourceMut ---------------------------------
(* Malformations of source text (property C10), as descriptors the harness applies to the bytes   *)
(* of programs the parser accepts.  The specification decides nothing about acceptance here: the  *)
(* property demands only that lexing and parsing end with a tree or a diagnostic, in time and     *)
(* memory proportionate to the input.  The catalogue is what is specified: every truncation, a   *)
(* foreign byte at every position, every byte doubled, and nesting to depth n of each bracket.   *)
EXTENDS Integers, Sequences, TLC, Json

Lens == ndJsonDeserialize("lens.ndjson")        \* [id, len]
Foreign == {0, 34, 39, 92, 123, 40, 128, 255, 239, 10, 13}   \* NUL " ' \ { ( 0x80 0xFF EF(BOM lead) LF CR
Depths == {10, 100, 400, 1000, 10000, 100000, 1000000}
Brackets == {"paren", "bracket", "object", "block", "neg", "not", "index", "call", "string-escape", "binary-chain", "async"}

VARIABLES fi, m
Init == fi \in 1..Len(Lens) /\ m = [kind |-> "none", at |-> 0, val |-> 0]
Mutations(n) ==
  {[kind |-> "truncate", at |-> k, val |-> 0] : k \in 0..(n - 1)}
  \cup {[kind |-> "insert", at |-> k, val |-> v] : k \in 0..n, v \in Foreign}
  \cup {[kind |-> "replace", at |-> k, val |-> v] : k \in 0..(n - 1), v \in {0, 255, 34, 92, 45}}      \* NUL 0xFF " \ -
  \cup {[kind |-> "double", at |-> k, val |-> 0] : k \in 0..(n - 1)}
Next == m.kind = "none" /\ m' \in Mutations(Lens[fi].len) /\ UNCHANGED fi
Spec == Init /\ [][Next]_<<fi, m>>
EmitInv == m.kind # "none" => PrintT(<<"CASE", ToJson([id |-> Lens[fi].id, m |-> m])>>)

\* nesting cases do not depend on a file
NestCases == {[kind |-> b, n |-> d] : b \in Brackets, d \in Depths}
====================================================================================
