---------------------------- MODULE LruCache ----------------------------
(***************************************************************************)
(* Bounded LRU map of pkg/cache (LRUCache + HTTPCache.InvalidateByPrefix). *)
(*                                                                         *)
(* One action per public call; the evict-until-fits loop of Set /          *)
(* SetWithTags is a multi-step section (SetBegin, EvictStep*, SetFinish)   *)
(* performed with the mutex held, so that a loop that can never finish is  *)
(* a lasso TLC finds (SetTerminates).                                      *)
(*                                                                         *)
(* Deviations (behaviour of the code before the fix: commits, kept as      *)
(* named actions so that the defect stays documented and detectable):      *)
(*   "LRU_SetSpinsWhenNothingToEvict"  value > MaxSize or Cap <= 0: the    *)
(*        loop `for len >= cap || cur+size > max { evictOldest() }` never  *)
(*        exits once the list is empty.                                    *)
(*   "LRU_UpdateSkipsSizeCheck"  in-place update never evicts, cur may     *)
(*        exceed MaxSize.                                                  *)
(***************************************************************************)
EXTENDS Integers, Sequences, FiniteSets, SequencesExt, TLC

CONSTANTS Keys,      \* set of key strings
          Vals,      \* set of value discriminators (a value is <<key, v>>)
          Sizes,     \* set of value sizes (abstract units)
          Cap,       \* capacity in entries (may be 0 or negative)
          MaxSize,   \* size limit in units, 0 = unlimited
          DefTTL,    \* default TTL in ticks, 0 = none
          TTLs,      \* ttl arguments: -1 = never, 0 = default, n>0 = n ticks
          TagSets,   \* set of tag sets usable with SetTags
          KeyPrefixes,  \* set of key prefixes for InvalidateByPrefix
          PrefixKeys,\* function: prefix -> set of keys having it
          Deviations,
          ApiOps,    \* names of the API actions enabled in this configuration
          RecordHist \* FALSE in liveness configs: hist stays empty

VARIABLES order,     \* sequence of keys, most recently used first
          ent,       \* function: present key -> [v, size, exp, tags]
          cur,       \* accounted size (c.currentSize)
          now,       \* clock tick
          pc,        \* "idle" | "evict"
          pend,      \* pending Set arguments while pc = "evict"
          evd,       \* keys evicted by the operation in progress (in order)
          hist       \* observation only: completed calls

vars == <<order, ent, cur, now, pc, pend, evd, hist>>
View == <<order, ent, cur, now, pc, pend, evd>>

Dev(d) == d \in Deviations

AllTags == UNION TagSets

HasPrefix(k, p) == k \in PrefixKeys[p]
Empty == [x \in {} |-> 0]

Expired(e) == e.exp # 0 /\ now > e.exp

ExpOf(ttl) == LET t == IF ttl = 0 THEN DefTTL ELSE ttl
              IN IF t > 0 THEN now + t ELSE 0

RemoveKeys(S) ==  \* remove a set of keys from order/ent/cur
    /\ order' = SelectSeq(order, LAMBDA x : x \notin S)
    /\ ent' = [x \in (DOMAIN ent) \ S |-> ent[x]]
    /\ cur' = cur - FoldSet(LAMBDA x, acc : acc + ent[x].size, 0, S \cap DOMAIN ent)

SumSizes == FoldSet(LAMBDA x, acc : acc + ent[x].size, 0, DOMAIN ent)

MoveFront(k) == <<k>> \o SelectSeq(order, LAMBDA x : x # k)

Rec(op, args, ret) ==
    [op |-> op, args |-> args, ret |-> ret]

Done(op, args, ret, ev) ==
    IF ~RecordHist THEN hist' = hist ELSE
    hist' = Append(hist, [op |-> op, args |-> args, ret |-> ret, ev |-> ev,
                          order |-> order', cur |-> cur', now |-> now',
                          \* deadline of every entry, in recency order (0: none): an overwrite replaces it
                          exp |-> [i \in 1..Len(order') |-> ent'[order'[i]].exp]])

Init ==
    /\ order = <<>>
    /\ ent = Empty
    /\ cur = 0
    /\ now = 0
    /\ pc = "idle"
    /\ pend = <<>>
    /\ evd = <<>>
    /\ hist = <<>>

----------------------------------------------------------------------------
Get(k) ==
    /\ pc = "idle"
    /\ UNCHANGED <<now, pc, pend, evd>>
    /\ IF k \notin DOMAIN ent
         THEN /\ UNCHANGED <<order, ent, cur>>
              /\ Done("Get", [k |-> k], [hit |-> FALSE], <<>>)
       ELSE IF Expired(ent[k])
         THEN /\ RemoveKeys({k})
              /\ Done("Get", [k |-> k], [hit |-> FALSE], <<k>>)
         ELSE /\ order' = MoveFront(k)
              /\ UNCHANGED <<ent, cur>>
              /\ Done("Get", [k |-> k], [hit |-> TRUE, v |-> ent[k].v], <<>>)

(* Set / SetWithTags.  tags = {} for plain Set. *)
NeedEvict(size) ==
    \/ Len(order) >= Cap
    \/ (MaxSize > 0 /\ cur + size > MaxSize)

SetArgs == [k : Keys, v : Vals, size : Sizes, ttl : TTLs, tags : TagSets \cup {{}},
            op : {"Set", "SetTags"}]

Entry(a) == [v |-> <<a.k, a.v>>, size |-> a.size, exp |-> ExpOf(a.ttl), tags |-> a.tags]

TooLarge(a) == MaxSize > 0 /\ a.size > MaxSize

SetBegin(a) ==
    /\ pc = "idle"
    /\ (a.op = "Set") => (a.tags = {})
    /\ UNCHANGED now
    /\ IF ~Dev("LRU_SetSpinsWhenNothingToEvict") /\ (Cap <= 0 \/ TooLarge(a))
         THEN \* design: reject; an existing entry of that key is dropped so
              \* that no stale value survives a failed overwrite
              /\ RemoveKeys({a.k})
              /\ UNCHANGED <<pc, pend, evd>>
              /\ Done(a.op, a, [err |-> TRUE],
                      IF a.k \in DOMAIN ent THEN <<a.k>> ELSE <<>>)
       ELSE IF a.k \in DOMAIN ent
         THEN \* in-place update; then (design) evict from the back until the
              \* size bound holds again
              /\ order' = MoveFront(a.k)
              /\ ent' = [ent EXCEPT ![a.k] = Entry(a)]
              /\ cur' = cur - ent[a.k].size + a.size
              /\ pc' = "evict"
              /\ pend' = a @@ [upd |-> TRUE]
              /\ evd' = <<>>
              /\ UNCHANGED hist
         ELSE /\ pc' = "evict"
              /\ pend' = a @@ [upd |-> FALSE]
              /\ evd' = <<>>
              /\ UNCHANGED <<order, ent, cur, hist>>

LoopCond ==
    IF pend.upd
      THEN ~Dev("LRU_UpdateSkipsSizeCheck") /\ MaxSize > 0 /\ cur > MaxSize
      ELSE NeedEvict(pend.size)

EvictStep ==
    /\ pc = "evict"
    /\ LoopCond
    /\ UNCHANGED <<now, pc, pend, hist>>
    /\ IF order = <<>>
         THEN \* evictOldest on an empty list does nothing: the loop spins
              UNCHANGED <<order, ent, cur, evd>>
         ELSE LET victim == Last(order) IN
              /\ RemoveKeys({victim})
              /\ evd' = Append(evd, victim)

SetFinish ==
    /\ pc = "evict"
    /\ ~LoopCond
    /\ UNCHANGED now
    /\ pc' = "idle"
    /\ pend' = <<>>
    /\ evd' = <<>>
    /\ LET a == [k |-> pend.k, v |-> pend.v, size |-> pend.size, ttl |-> pend.ttl,
                 tags |-> pend.tags, op |-> pend.op] IN
       IF pend.upd
         THEN /\ UNCHANGED <<order, ent, cur>>
              /\ Done(a.op, a, [err |-> FALSE], evd)
         ELSE /\ order' = <<a.k>> \o order
              /\ ent' = [x \in DOMAIN ent \cup {a.k} |-> IF x = a.k THEN Entry(a) ELSE ent[x]]
              /\ cur' = cur + a.size
              /\ Done(a.op, a, [err |-> FALSE], evd)

Delete(k) ==
    /\ pc = "idle"
    /\ UNCHANGED <<now, pc, pend, evd>>
    /\ RemoveKeys({k})
    /\ Done("Delete", [k |-> k], [err |-> FALSE],
            IF k \in DOMAIN ent THEN <<k>> ELSE <<>>)

DeleteByTag(t) ==
    /\ pc = "idle"
    /\ UNCHANGED <<now, pc, pend, evd>>
    /\ LET S == {k \in DOMAIN ent : t \in ent[k].tags} IN
       /\ RemoveKeys(S)
       /\ Done("DelTag", [tag |-> t], [n |-> Cardinality(S)], S)

InvalidateByPrefix(p) ==
    /\ pc = "idle"
    /\ UNCHANGED <<now, pc, pend, evd>>
    /\ LET S == {k \in DOMAIN ent : HasPrefix(k, p)} IN
       /\ RemoveKeys(S)
       /\ Done("InvPrefix", [prefix |-> p], [n |-> Cardinality(S)], S)

Clear ==
    /\ pc = "idle"
    /\ UNCHANGED <<now, pc, pend, evd>>
    /\ order' = <<>>
    /\ ent' = Empty
    /\ cur' = 0
    /\ Done("Clear", [x |-> 0], [err |-> FALSE], DOMAIN ent)

(* The janitor goroutine: removes every expired entry. *)
Cleanup ==
    /\ pc = "idle"
    /\ UNCHANGED <<now, pc, pend, evd>>
    /\ LET S == {k \in DOMAIN ent : Expired(ent[k])} IN
       /\ S # {}
       /\ RemoveKeys(S)
       /\ Done("Cleanup", [x |-> 0], [n |-> Cardinality(S)], S)

Tick ==
    /\ pc = "idle"
    /\ now' = now + 1
    /\ UNCHANGED <<order, ent, cur, pc, pend, evd>>
    /\ Done("Tick", [x |-> 0], [x |-> 0], <<>>)

ApiStep ==
    \/ "Get" \in ApiOps /\ \E k \in Keys : Get(k)
    \/ "Delete" \in ApiOps /\ \E k \in Keys : Delete(k)
    \/ \E a \in SetArgs : a.op \in ApiOps /\ SetBegin(a)
    \/ "DelTag" \in ApiOps /\ \E t \in AllTags : DeleteByTag(t)
    \/ "InvPrefix" \in ApiOps /\ \E p \in KeyPrefixes : InvalidateByPrefix(p)
    \/ "Clear" \in ApiOps /\ Clear
    \/ "Cleanup" \in ApiOps /\ Cleanup
    \/ "Tick" \in ApiOps /\ Tick

Next == ApiStep \/ EvictStep \/ SetFinish

Spec == Init /\ [][Next]_vars /\ WF_vars(EvictStep) /\ WF_vars(SetFinish)

----------------------------------------------------------------------------
(* Properties *)
TypeOK ==
    /\ order \in Seq(Keys)
    /\ DOMAIN ent \subseteq Keys
    /\ pc \in {"idle", "evict"}

NoDup == \A i, j \in 1..Len(order) : order[i] = order[j] => i = j
IndexMatchesList == DOMAIN ent = Range(order)
SizeAccounting == cur = SumSizes
\* The count/size bounds are promised between calls (the in-place update is
\* over the limit for the duration of its own critical section only).
CountBound == pc = "idle" => Len(order) <= (IF Cap > 0 THEN Cap ELSE 0)
BytesBound == (pc = "idle" /\ MaxSize > 0) => cur <= MaxSize
ValuesCarryKey == \A k \in DOMAIN ent : ent[k].v[1] = k

\* an eviction step removes exactly the least recently used entry
EvictsLRU == [][(pc = "evict" /\ pc' = "evict" /\ order # order')
                  => order' = Front(order)]_vars

\* a hit returns the value last stored and never an expired one: by
\* construction of Get in this module; stated on the history so that the
\* trace specification checks it on recorded executions.
SetTerminates == (pc = "evict") ~> (pc = "idle")

=============================================================================
