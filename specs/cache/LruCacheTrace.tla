---------------------------- MODULE LruCacheTrace ----------------------------
(***************************************************************************)
(* Trace validation for LruCache: events recorded under c.mu by the verif  *)
(* hooks of pkg/cache (one line per completed call or eviction) must be a  *)
(* behaviour of LruCache.  Several traces are concatenated; a "Reset" line *)
(* starts a fresh cache.  Unlogged step: SetBegin (composed silently with  *)
(* the Evict / Set lines that follow it while the mutex is held).          *)
(***************************************************************************)
EXTENDS LruCache, Json

VARIABLE l
tvars == <<vars, l>>

Trace == ndJsonDeserialize("trace.ndjson")
N == Len(Trace)
Ev == Trace[l]
IsEv(S) == l <= N /\ Trace[l].ev \in S
Consume == l' = l + 1
Post == order' = Trace[l].order /\ cur' = Trace[l].cur
LastRet == hist'[Len(hist')].ret
SetEvs == {"Set", "SetTags"}

ArgsOf(e) == [k |-> e.k, v |-> e.v, size |-> e.size, ttl |-> e.ttl,
              tags |-> IF e.ev = "SetTags" THEN ToSet(e.tags) ELSE {}, op |-> e.ev]

RECURSIVE NextSet(_)
NextSet(j) == IF j > N THEN 0
              ELSE IF Trace[j].ev \in SetEvs THEN j
              ELSE IF Trace[j].ev = "Evict" THEN NextSet(j + 1)
              ELSE 0

TraceInit == Init /\ l = 1 /\ TLCSet(1, 0)

TReset ==
    /\ IsEv({"Reset"})
    /\ pc = "idle"
    /\ order' = <<>> /\ ent' = Empty /\ cur' = 0 /\ now' = 0
    /\ pc' = "idle" /\ pend' = <<>> /\ evd' = <<>> /\ hist' = <<>>
    /\ Consume

TGet ==
    /\ IsEv({"Get"})
    /\ Get(Ev.k)
    /\ LastRet.hit = Ev.hit
    /\ Ev.hit => LastRet.v = <<Ev.rk, Ev.rv>>
    /\ Post /\ Consume

TSetReject ==
    /\ IsEv(SetEvs)
    /\ pc = "idle"
    /\ Ev.err
    /\ SetBegin(ArgsOf(Ev))
    /\ pc' = "idle"
    /\ Post /\ Consume

TSetBegin ==   \* silent
    /\ pc = "idle"
    /\ l <= N
    /\ LET j == NextSet(l) IN
       /\ j # 0
       /\ ~Trace[j].err
       /\ SetBegin(ArgsOf(Trace[j]))
    /\ pc' = "evict"
    /\ l' = l

TEvict ==
    /\ IsEv({"Evict"})
    /\ pc = "evict"
    /\ EvictStep
    /\ evd' = Append(evd, Ev.k)
    /\ Post /\ Consume

TSetFinish ==
    /\ IsEv(SetEvs)
    /\ pc = "evict"
    /\ ~Ev.err
    /\ pend.k = Ev.k /\ pend.op = Ev.ev
    /\ SetFinish
    /\ Post /\ Consume

TDelete == IsEv({"Delete"}) /\ Delete(Ev.k) /\ Post /\ Consume
TDelTag == IsEv({"DelTag"}) /\ DeleteByTag(Ev.tag) /\ LastRet.n = Ev.n /\ Post /\ Consume
TInvPrefix == IsEv({"InvPrefix"}) /\ InvalidateByPrefix(Ev.prefix) /\ LastRet.n = Ev.n /\ Post /\ Consume
TClear == IsEv({"Clear"}) /\ Clear /\ Post /\ Consume
TCleanup == IsEv({"Cleanup"}) /\ (Cleanup \/ (pc = "idle" /\ Ev.n = 0 /\ UNCHANGED vars)) /\ Post /\ Consume
TTick == IsEv({"Tick"}) /\ Tick /\ now' = Ev.now /\ Post /\ Consume

TraceNext == TReset \/ TGet \/ TSetReject \/ TSetBegin \/ TEvict \/ TSetFinish
             \/ TDelete \/ TDelTag \/ TInvPrefix \/ TClear \/ TCleanup \/ TTick

TraceSpec == TraceInit /\ [][TraceNext]_tvars

HighWater == TLCSet(1, IF l > TLCGet(1) THEN l ELSE TLCGet(1))
TraceAccepted ==
    IF TLCGet(1) = N + 1 THEN TRUE
    ELSE PrintT(<<"REJECT", TLCGet(1)>>) /\ FALSE
=============================================================================
