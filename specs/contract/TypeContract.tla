---------------------------- MODULE TypeContract ----------------------------
(***************************************************************************)
(* Data contracts at the HTTP boundary: `< input: T`, typed `? q: t`       *)
(* query declarations and `-> T` return types.                             *)
(*                                                                         *)
(* Types:  [k |-> "int" | "float" | "str" | "bool" | "any"]                *)
(*         [k |-> "opt", t] (T?)   [k |-> "list", t] (List[T])             *)
(*         [k |-> "union", a, b] (A | B)   [k |-> "named", n]              *)
(* A type definition is a sequence of fields [name, t, req, def] where     *)
(* req is the `!` marker and def a default value or NoDefault.             *)
(* JSON values: [k |-> "null"] "bool" "int" (whole number) "frac" "str"    *)
(* "arr" (e: sequence) "obj" (f: sequence of [name, v]).                   *)
(*                                                                         *)
(* Conforms(v, t) is the documented meaning of a declaration; Verdict adds *)
(* "either" where the property's statement leaves the outcome open (a null *)
(* element inside a list).  The rule for fields: a required field must be  *)
(* present and not null; any other field may be absent or null; defaults   *)
(* fill exactly the absent fields.                                         *)
(***************************************************************************)
EXTENDS Integers, Sequences, FiniteSets, TLC

CONSTANTS TypeDefs,     \* function: type name -> sequence of fields
          Jobs          \* set of jobs to decide: [kind, ...]

VARIABLES job, decision
vars == <<job, decision>>

NoDefault == [k |-> "nodefault"]
Null == [k |-> "null"]

RECURSIVE Conforms(_, _)
FieldOf(obj, name) == LET S == {i \in 1..Len(obj.f) : obj.f[i].name = name} IN
                      IF S = {} THEN [present |-> FALSE] ELSE [present |-> TRUE, v |-> obj.f[CHOOSE i \in S : TRUE].v]

\* three-valued: "ok" | "bad" | "either"
And3(a, b) == IF a = "bad" \/ b = "bad" THEN "bad" ELSE IF a = "either" \/ b = "either" THEN "either" ELSE "ok"
Or3(a, b) == IF a = "ok" \/ b = "ok" THEN "ok" ELSE IF a = "either" \/ b = "either" THEN "either" ELSE "bad"
RECURSIVE Fold3(_, _)
Fold3(s, i) == IF i > Len(s) THEN "ok" ELSE And3(s[i], Fold3(s, i + 1))

Conforms(v, t) ==
    CASE t.k = "any" -> "ok"
      [] t.k = "int" -> IF v.k = "int" THEN "ok" ELSE "bad"
      [] t.k = "float" -> IF v.k \in {"int", "frac"} THEN "ok" ELSE "bad"
      [] t.k = "str" -> IF v.k = "str" THEN "ok" ELSE "bad"
      [] t.k = "bool" -> IF v.k = "bool" THEN "ok" ELSE "bad"
      [] t.k = "opt" -> IF v.k = "null" THEN "ok" ELSE Conforms(v, t.t)
      [] t.k = "list" ->
            IF v.k # "arr" THEN "bad"
            ELSE Fold3([i \in 1..Len(v.e) |-> IF v.e[i].k = "null" THEN "either" ELSE Conforms(v.e[i], t.t)], 1)
      [] t.k = "union" -> Or3(Conforms(v, t.a), Conforms(v, t.b))
      [] t.k = "named" ->
            IF v.k # "obj" THEN "bad"
            ELSE LET fields == TypeDefs[t.n] IN
                 Fold3([i \in 1..Len(fields) |->
                          LET fo == FieldOf(v, fields[i].name) IN
                          IF ~fo.present THEN (IF fields[i].req /\ fields[i].def = NoDefault THEN "bad" ELSE "ok")
                          ELSE IF fo.v.k = "null" THEN (IF fields[i].req THEN "bad" ELSE "ok")
                          ELSE Conforms(fo.v, fields[i].t)], 1)

HasRequired(n) == \E i \in 1..Len(TypeDefs[n]) : TypeDefs[n][i].req /\ TypeDefs[n][i].def = NoDefault

\* defaults fill exactly the absent fields (a present null is not replaced)
ApplyDefaults(obj, n) ==
    LET fields == TypeDefs[n]
        missing == SelectSeq(fields, LAMBDA fd : fd.def # NoDefault /\ ~FieldOf(obj, fd.name).present)
    IN [k |-> "obj", f |-> obj.f \o [i \in 1..Len(missing) |-> [name |-> missing[i].name, v |-> missing[i].def]]]

(* ---- input body ------------------------------------------------------------ *)
\* job: [kind |-> "input", type |-> n, body |-> [class, v]] ; class: "object" | "absent" | "empty" |
\* "malformed" | "array" | "scalar" | "null" | "notjson" (a JSON object sent with a non-JSON content type)
DecideInput(j) ==
    IF j.body.class = "object"
      THEN LET withDef == ApplyDefaults(j.body.v, j.type)
               c == Conforms(withDef, [k |-> "named", n |-> j.type]) IN
           IF c = "ok" THEN [d |-> "run", input |-> withDef]
           ELSE IF c = "bad" THEN [d |-> "reject4xx"]
           ELSE [d |-> "either", input |-> withDef]
      ELSE IF HasRequired(j.type) THEN [d |-> "reject4xx"]
           ELSE \* no object to validate: the route runs with input = null; a JSON `null` body may also be
                \* read as the empty object (with or without its defaults)
                [d |-> "run-nobody", alt |-> ApplyDefaults([k |-> "obj", f |-> <<>>], j.type)]

(* ---- typed query parameters --------------------------------------------------- *)
\* job: [kind |-> "query", decl |-> [t, req, def, arr], raw |-> sequence of lexemes [text, int, float, bool]]
\* a lexeme carries, per scalar type, whether the documented grammar admits it ("ok"/"bad"/"either")
LexVerdict(lx, t) == CASE t = "int" -> lx.int [] t = "float" -> lx.float [] t = "bool" -> lx.bool [] t = "str" -> "ok"
DecideQuery(j) ==
    LET d == j.decl IN
    IF j.raw = <<>>
      THEN IF d.req /\ d.def = NoDefault THEN [d |-> "reject4xx"]
           ELSE IF d.def # NoDefault THEN [d |-> "run", val |-> "default"]
           ELSE [d |-> "run", val |-> "null"]
      ELSE LET used == IF d.arr THEN j.raw ELSE <<j.raw[1]>>
               c == Fold3([i \in 1..Len(used) |-> LexVerdict(used[i], d.t)], 1) IN
           IF c = "ok" THEN [d |-> "run", val |-> "parsed"]
           ELSE IF c = "bad" THEN [d |-> "reject4xx"]
           ELSE [d |-> "either"]

(* ---- return values -------------------------------------------------------------- *)
\* job: [kind |-> "return", t |-> type, v |-> value, st |-> status carried by the return, 0 for none]
DecideReturn(j) ==
    LET c == IF j.v.k = "null" THEN "ok" ELSE Conforms(j.v, j.t) IN   \* "not found" (null) is always returnable
    IF j.st # 0 THEN [d |-> "sendstatus"]      \* `> v :: 201`: the route answers explicitly; the declared type is not applied
    ELSE IF c = "ok" THEN [d |-> "send"] ELSE IF c = "bad" THEN [d |-> "reject5xx"] ELSE [d |-> "either"]

Decide(j) == CASE j.kind = "input" -> DecideInput(j) [] j.kind = "query" -> DecideQuery(j) [] j.kind = "return" -> DecideReturn(j)

Init == job \in Jobs /\ decision = [d |-> "pending"]
Step == decision.d = "pending" /\ decision' = Decide(job) /\ UNCHANGED job
Next == Step
Spec == Init /\ [][Next]_vars

(* ---- properties of the definition -------------------------------------------------- *)
\* the body only ever runs on data that conforms (after defaults), and conforming data is never rejected
RunOnlyConforming ==
    (job.kind = "input" /\ decision.d = "run" /\ job.body.class = "object") =>
        Conforms(decision.input, [k |-> "named", n |-> job.type]) = "ok"
ConformingNeverRejected ==
    (job.kind = "input" /\ job.body.class = "object" /\ decision.d = "reject4xx") =>
        Conforms(ApplyDefaults(job.body.v, job.type), [k |-> "named", n |-> job.type]) = "bad"
\* defaults touch exactly the absent fields
DefaultsExact ==
    (job.kind = "input" /\ job.body.class = "object" /\ decision.d = "run") =>
        /\ \A i \in 1..Len(job.body.v.f) : decision.input.f[i] = job.body.v.f[i]
        /\ \A i \in (Len(job.body.v.f) + 1)..Len(decision.input.f) : ~FieldOf(job.body.v, decision.input.f[i].name).present
RequiredNeverNull ==
    (job.kind = "input" /\ decision.d = "run" /\ job.body.class = "object") =>
        \A i \in 1..Len(TypeDefs[job.type]) :
            TypeDefs[job.type][i].req => LET fo == FieldOf(decision.input, TypeDefs[job.type][i].name) IN fo.present /\ fo.v.k # "null"
=============================================================================
