------------------------------- MODULE SourceLayout -------------------------------
(***************************************************************************************)
(* Source text, its layout and its canonical form (property C18).                      *)
(*                                                                                     *)
(* A program is a sequence of lines; a line is its content (tokens joined by single     *)
(* spaces, with identifiers, string literals and comments taken from alphabets of       *)
(* lexical corner cases) plus layout: indentation, trailing blanks, the number of blank  *)
(* lines after it; the file has a line ending (LF / CRLF), maybe a byte order mark and   *)
(* zero, one or several final newlines.  Layout carries no meaning:                      *)
(*   Text(p)   the file as written                                                      *)
(*   Canon(p)  the one canonical layout of the same lines: LF, no trailing blanks,       *)
(*             two spaces per open bracket ( { [ ( counted outside strings and comments; *)
(*             a line starting with closers dedents by them ), at most one blank line,   *)
(*             none at the start, exactly one final newline, no byte order mark           *)
(* `glyph fmt` must map Text(p) to Canon(p) (hence is idempotent and keeps the token      *)
(* sequence); the checker also sends Text(p) through expand and compact and compares      *)
(* syntax trees.  Choices are made one per step so that TLC's simulation mode draws        *)
(* random programs; the sweep configuration varies one choice at a time from a base.      *)
(***************************************************************************************)
EXTENDS Integers, Sequences, FiniteSets, TLC, Json

\* ---- alphabets -----------------------------------------------------------------------------------------
Idents == <<"x", "total", "type", "return", "let", "route", "use", "func", "middleware", "expects", "validate", "handle", "name_1">>
Strs == <<"\"plain\"", "\"> x\"", "\"a # b\"", "\"{\"", "\"}\"", "\"[(\"", "'single'", "'it\\'s'", "\"q\\\"uote\"", "\"$ let\"", "\"@ route\"",
          "\"// not a comment\"", "\"tab\\there\"", "\"caf\\u00e9\"", "\"a\\\\\"", "'}'", "\"\"", "\"zero﻿width\"", "\"tr\\u00e9s \\x41\"">>
Comments == <<"# plain", "# { unbalanced [ (", "// slashes } )", "# > $ @ : ! = +", "# \"quote", "#">>
Indents == <<"", "  ", "   ", "\t", "        ">>
Trails == <<"", " ", "   ", "\t">>
Blanks == <<0, 1, 3>>
Eols == <<"\n", "\r\n">>
Finals == <<0, 1, 3>>           \* newlines at the end of the file
Boms == <<FALSE, TRUE>>

\* ---- the program skeleton: content of each line as pieces; H(h) is a hole ---------------------------------
H(h) == [hole |-> h]
L(s) == [lit |-> s]
\* line: [p: pieces, opens, closes, lead]   (brackets counted by construction, never inside holes)
Line(p, o, c, l) == [p |-> p, opens |-> o, closes |-> c, lead |-> l]
Skeleton == <<
  Line(<<H("c1")>>, 0, 0, 0),
  Line(<<L(": "), L("Rec"), L(" {")>>, 1, 0, 0),
  Line(<<H("f1"), L(": str!")>>, 0, 0, 0),
  Line(<<H("f2"), L(": int")>>, 0, 0, 0),
  Line(<<L("}")>>, 0, 1, 1),
  Line(<<L("@ GET /p/:"), H("pp"), L(" {")>>, 1, 0, 0),
  Line(<<L("$ "), H("v1"), L(" = "), H("s1")>>, 0, 0, 0),
  Line(<<L("$ "), H("v2"), L(" = {"), H("f1"), L(": "), H("v1"), L(", k: [1, (2)]}"), L(" "), H("c2")>>, 3, 3, 0),
  Line(<<L("$ arr = [")>>, 1, 0, 0),
  Line(<<H("s2"), L(",")>>, 0, 0, 0),
  Line(<<H("s3"), L(" + "), H("s1")>>, 0, 0, 0),
  Line(<<L("]")>>, 0, 1, 1),
  Line(<<L("if "), H("v2"), L("."), H("f1"), L(" == "), H("s2"), L(" {")>>, 1, 0, 0),
  Line(<<L("> {r: "), H("v1"), L(", a: arr}")>>, 1, 1, 0),
  Line(<<L("} else {")>>, 1, 1, 1),
  Line(<<L("$ m = match "), H("v1"), L(" {")>>, 1, 0, 0),
  Line(<<H("s3"), L(" => 1")>>, 0, 0, 0),
  Line(<<L("_ => 2")>>, 0, 0, 0),
  Line(<<L("}")>>, 0, 1, 1),
  Line(<<L("}")>>, 0, 1, 1),
  Line(<<L("> "), H("v2")>>, 0, 0, 0),
  Line(<<L("}")>>, 0, 1, 1)
>>
NL == Len(Skeleton)

\* ---- choices ----------------------------------------------------------------------------------------------
\* a choice point: [k: kind, n: line or hole name]; its domain is the index range of the alphabet
ContentHoles == <<"c1", "c2", "f1", "f2", "pp", "v1", "v2", "s1", "s2", "s3">>
Alphabet(h) == IF h \in {"c1", "c2"} THEN Comments ELSE IF h \in {"s1", "s2", "s3"} THEN Strs ELSE Idents
Points ==
  [i \in 1..Len(ContentHoles) |-> [k |-> "hole", n |-> ContentHoles[i], i |-> 0]]
  \o [i \in 1..NL |-> [k |-> "indent", n |-> "", i |-> i]]
  \o [i \in 1..NL |-> [k |-> "trail", n |-> "", i |-> i]]
  \o [i \in 1..NL |-> [k |-> "blank", n |-> "", i |-> i]]
  \o <<[k |-> "eol", n |-> "", i |-> 0], [k |-> "final", n |-> "", i |-> 0], [k |-> "bom", n |-> "", i |-> 0], [k |-> "lead", n |-> "", i |-> 0]>>
NP == Len(Points)
Domain(pt) == CASE pt.k = "hole" -> 1..Len(Alphabet(pt.n)) [] pt.k = "indent" -> 1..Len(Indents) [] pt.k = "trail" -> 1..Len(Trails)
                [] pt.k = "blank" -> 1..Len(Blanks) [] pt.k = "eol" -> 1..Len(Eols) [] pt.k = "final" -> 1..Len(Finals) [] pt.k = "bom" -> 1..2
                [] pt.k = "lead" -> 1..Len(Blanks)

CONSTANT Mode        \* "sweep": base choices, one point varied over its whole domain; "random": every point chosen freely (simulation)

VARIABLES ch, n      \* ch: sequence of choices made so far (indices), n: next point
vars == <<ch, n>>

\* the base program uses distinct plain names
BaseOf(pt) == IF pt.k # "hole" THEN 1 ELSE CASE pt.n = "f2" -> 2 [] pt.n = "pp" -> 13 [] pt.n = "v2" -> 2 [] OTHER -> 1
Base == [i \in 1..NP |-> BaseOf(Points[i])]
Init ==
  IF Mode = "sweep"
    THEN \E i \in 1..NP : \E v \in Domain(Points[i]) : ch = [Base EXCEPT ![i] = v] /\ n = NP + 1
    ELSE ch = <<>> /\ n = 1
Next ==
  /\ Mode = "random" /\ n <= NP
  /\ \E v \in Domain(Points[n]) : ch' = Append(ch, v)
  /\ n' = n + 1
Spec == Init /\ [][Next]_vars

\* ---- reading the choices ------------------------------------------------------------------------------------------
Idx(k, nm, i) == CHOOSE j \in 1..NP : Points[j].k = k /\ Points[j].n = nm /\ Points[j].i = i
Hole(h) == Alphabet(h)[ch[Idx("hole", h, 0)]]
IndentOf(i) == Indents[ch[Idx("indent", "", i)]]
TrailOf(i) == Trails[ch[Idx("trail", "", i)]]
BlankOf(i) == Blanks[ch[Idx("blank", "", i)]]
Eol == Eols[ch[Idx("eol", "", 0)]]
Final == Finals[ch[Idx("final", "", 0)]]
Bom == ch[Idx("bom", "", 0)] = 2
LeadBlank == Blanks[ch[Idx("lead", "", 0)]]

RECURSIVE Pieces(_, _)
Pieces(p, i) == IF i > Len(p) THEN "" ELSE (IF "hole" \in DOMAIN p[i] THEN Hole(p[i].hole) ELSE p[i].lit) \o Pieces(p, i + 1)
Content(i) == Pieces(Skeleton[i].p, 1)

Rep(s, k) == IF k = 0 THEN "" ELSE IF k = 1 THEN s ELSE IF k = 2 THEN s \o s ELSE s \o s \o s
RECURSIVE Spaces(_)
Spaces(d) == IF d <= 0 THEN "" ELSE "  " \o Spaces(d - 1)

\* the file as written
RECURSIVE TextFrom(_)
TextFrom(i) ==
  IF i > NL THEN ""
  ELSE IndentOf(i) \o Content(i) \o TrailOf(i)
       \o (IF i < NL THEN Eol \o Rep(TrailOf(i) \o Eol, BlankOf(i)) ELSE Rep(Eol, Final))
       \o TextFrom(i + 1)
Text == (IF Bom THEN "﻿" ELSE "") \o Rep(Eol, LeadBlank) \o TextFrom(1)

\* the canonical layout
RECURSIVE DepthBefore(_)
DepthBefore(i) == IF i = 1 THEN 0 ELSE LET d == DepthBefore(i - 1) + Skeleton[i - 1].opens - Skeleton[i - 1].closes IN IF d < 0 THEN 0 ELSE d
RECURSIVE CanonFrom(_)
CanonFrom(i) ==
  IF i > NL THEN ""
  ELSE LET ind == DepthBefore(i) - Skeleton[i].lead IN
       Spaces(ind) \o Content(i) \o "\n" \o (IF i < NL /\ BlankOf(i) > 0 THEN "\n" ELSE "") \o CanonFrom(i + 1)
Canon == CanonFrom(1)

Complete == n = NP + 1
\* brackets of the skeleton balance: the canonical depth returns to zero
Balanced == DepthBefore(NL) + Skeleton[NL].opens - Skeleton[NL].closes = 0
EmitInv == Complete => PrintT(<<"CASE", ToJson([text |-> Text, canon |-> Canon, choices |-> ch])>>)
====================================================================================
