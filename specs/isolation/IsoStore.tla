------------------------------- MODULE IsoStore -------------------------------
(* Sequential meaning of the shared providers and of the routes that touch nothing shared;   *)
(* used by ReqIsolation (all interleavings of the design) and ReqIsolationTrace (histories   *)
(* recorded from the real server).                                                           *)
EXTENDS Integers, Sequences, FiniteSets
CONSTANT MaxDepth

\* ---- results: one record shape for everything a route can answer ------------------------------
R(k, i, a, b, l) == [k |-> k, i |-> i, a |-> a, b |-> b, l |-> l]
RInt(i)   == R("int", i, 0, 0, <<>>)
RNull     == R("null", 0, 0, 0, <<>>)
RBool(x)  == R("bool", IF x THEN 1 ELSE 0, 0, 0, <<>>)
RRec(rec) == R("rec", rec[1], rec[2], rec[3], <<>>)
RList(l)  == R("list", 0, 0, 0, l)
RErr(c)   == R(c, 0, 0, 0, <<>>)          \* "depth" / "type"
RNone     == R("none", 0, 0, 0, <<>>)

\* ---- the shared providers, sequential meaning ---------------------------------------------------
\* rows: sequence of <<id, a, b>>; ctr, kv: functions over small key sets; llen, docs: counters
EmptyStore == [rows |-> <<>>, ctr |-> [k \in {"c1", "c2"} |-> 0], kv |-> [k \in {"k1", "k2"} |-> -1], llen |-> 0, docs |-> 0]

FirstIdx(rows, id) == LET S == {i \in 1..Len(rows) : rows[i][1] = id} IN IF S = {} THEN 0 ELSE CHOOSE i \in S : \A j \in S : i <= j
RemoveAt(s, i) == SubSeq(s, 1, i - 1) \o SubSeq(s, i + 1, Len(s))

\* Apply(store, op, x, y) = <<store', result>>
Apply(st, op, x, y) ==
  CASE op = "create" -> LET id == Len(st.rows) + 1 IN <<[st EXCEPT !.rows = Append(@, <<id, x, x>>)], RRec(<<id, x, x>>)>>
    [] op = "get"    -> LET i == FirstIdx(st.rows, x) IN <<st, IF i = 0 THEN RNull ELSE RRec(st.rows[i])>>
    [] op = "update" -> LET i == FirstIdx(st.rows, x) IN
                          IF i = 0 THEN <<st, RNull>>
                          ELSE <<[st EXCEPT !.rows[i] = <<x, y, y>>], RRec(<<x, y, y>>)>>
    [] op = "delete" -> LET i == FirstIdx(st.rows, x) IN
                          IF i = 0 THEN <<st, RBool(FALSE)>> ELSE <<[st EXCEPT !.rows = RemoveAt(@, i)], RBool(TRUE)>>
    [] op = "length" -> <<st, RInt(Len(st.rows))>>
    [] op = "all"    -> <<st, RList(st.rows)>>
    [] op = "incr"   -> <<[st EXCEPT !.ctr[x] = @ + 1], RInt(st.ctr[x] + 1)>>
    [] op = "kvset"  -> <<[st EXCEPT !.kv[x] = y], RBool(TRUE)>>
    [] op = "kvget"  -> <<st, IF st.kv[x] = -1 THEN RNull ELSE RInt(st.kv[x])>>
    [] op = "push"   -> <<[st EXCEPT !.llen = @ + 1], RInt(st.llen + 1)>>
    [] op = "llen"   -> <<st, RInt(st.llen)>>
    [] op = "insert" -> <<[st EXCEPT !.docs = @ + 1], RBool(TRUE)>>
    [] op = "count"  -> <<st, RInt(st.docs)>>

StoreOps == {"create", "get", "update", "delete", "length", "all", "incr", "kvset", "kvget", "push", "llen", "insert", "count"}
PureRoutes == {"sum", "gen", "echo", "cold"}     \* cold: a read of an untouched key through a method spelling no request has used yet

\* what a pure route answers when it is alone
Solo(job) ==
  CASE job.route = "sum"  -> IF job.x > MaxDepth THEN RErr("depth") ELSE RInt((job.x * (job.x + 1)) \div 2)
    [] job.route = "gen"  -> RInt(job.x)
    [] job.route = "echo" -> RInt(job.x)
    [] job.route = "cold" -> RInt(job.x)

====================================================================================
