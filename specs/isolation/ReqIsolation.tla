------------------------------- MODULE ReqIsolation -------------------------------
(***************************************************************************************)
(* Concurrent requests over one long-lived server (property C08).                      *)
(*                                                                                     *)
(* A server owns one interpreter (or hands a fresh VM to every compiled request) and   *)
(* the explicitly shared providers: the table store (MockDatabase), the key/value and  *)
(* counter store and the list (redis mock), the document collection (mongodb mock).    *)
(* Each request runs one route.  The micro-steps of a route are the places where the   *)
(* real code touches something that outlives the request:                              *)
(*   sum(n)     n nested calls; each Enter checks the evaluation-depth limit           *)
(*   gen(t)     a generic call: Push the binding T := t, Check a value against T, Pop  *)
(*   create/get/update/delete/length/all      one provider operation each              *)
(*   incr/kvset/kvget/push/llen/insert/count  one provider operation each              *)
(*   rmw(id)    two provider operations: get, then update with the value read + 1      *)
(*   echo(v)    nothing shared at all                                                  *)
(* Design: the depth limit counts the request's own nesting, type bindings belong to   *)
(* the call, provider operations are atomic and hand out copies.  The named Deviations *)
(* are the ways the implementation shared those things (found and repaired, or seeded):*)
(*   SharedDepth      one depth counter for all requests                               *)
(*   SharedTypeScope  one binding map for all requests                                 *)
(*   LiveRecords      get hands out the stored record; the reader looks at its two     *)
(*                    fields in separate steps while update writes them                *)
(*   SplitCreate      create reads the next id and appends in two critical sections    *)
(***************************************************************************************)
EXTENDS IsoStore, TLC

CONSTANTS Mixes,        \* set of job sequences; Init picks one; request r runs mix[r]
          Deviations     \* (MaxDepth, the evaluation depth limit, is declared in IsoStore)

Dev(d) == d \in Deviations

VARIABLES mix, pc, depth, own, scope, store, tmp, resp, clock, callAt, retAt
vars == <<mix, pc, depth, own, scope, store, tmp, resp, clock, callAt, retAt>>

Reqs == 1..Len(mix)
Job(r) == mix[r]

Init ==
  /\ mix \in Mixes
  /\ pc = [r \in 1..Len(mix) |-> "idle"]
  /\ depth = [r \in 1..Len(mix) |-> 0]
  /\ own = [r \in 1..Len(mix) |-> 0]
  /\ scope = 0                       \* 0: T unbound, otherwise the type tag bound to T
  /\ store = EmptyStore
  /\ tmp = [r \in 1..Len(mix) |-> <<0, 0, 0>>]
  /\ resp = [r \in 1..Len(mix) |-> RNone]
  /\ clock = 0
  /\ callAt = [r \in 1..Len(mix) |-> 0]
  /\ retAt = [r \in 1..Len(mix) |-> 0]

Finish(r, res) ==
  /\ resp' = [resp EXCEPT ![r] = res]
  /\ pc' = [pc EXCEPT ![r] = "done"]
  /\ clock' = clock + 1
  /\ retAt' = [retAt EXCEPT ![r] = clock + 1]

Goto(r, l) == pc' = [pc EXCEPT ![r] = l] /\ UNCHANGED <<resp, clock, retAt>>

\* the request arrives
Call(r) ==
  /\ pc[r] = "idle"
  /\ clock' = clock + 1
  /\ callAt' = [callAt EXCEPT ![r] = clock + 1]
  /\ pc' = [pc EXCEPT ![r] = IF Job(r).route = "sum" THEN "enter"
                             ELSE IF Job(r).route = "gen" THEN "push"
                             ELSE IF Job(r).route = "rmw" THEN "rmw1"
                             ELSE "op"]
  /\ UNCHANGED <<mix, depth, own, scope, store, tmp, resp, retAt>>

\* ---- sum(n): nested calls against the depth limit -------------------------------------------------
TotalDepth == LET RECURSIVE S(_) S(n) == IF n = 0 THEN 0 ELSE depth[n] + S(n - 1) IN S(Len(mix))
Over(r) == IF Dev("SharedDepth") THEN TotalDepth >= MaxDepth ELSE depth[r] >= MaxDepth

Enter(r) ==
  /\ pc[r] = "enter"
  /\ IF depth[r] = Job(r).x
       THEN Goto(r, "leave") /\ UNCHANGED depth
       ELSE IF Over(r)
              THEN Finish(r, RErr("depth")) /\ depth' = [depth EXCEPT ![r] = 0]
              ELSE depth' = [depth EXCEPT ![r] = @ + 1] /\ Goto(r, "enter")
  /\ UNCHANGED <<mix, own, scope, store, tmp, callAt>>

Leave(r) ==
  /\ pc[r] = "leave"
  /\ IF depth[r] = 0
       THEN Finish(r, RInt((Job(r).x * (Job(r).x + 1)) \div 2)) /\ UNCHANGED depth
       ELSE depth' = [depth EXCEPT ![r] = @ - 1] /\ Goto(r, "leave")
  /\ UNCHANGED <<mix, own, scope, store, tmp, callAt>>

\* ---- gen(t): a generic call, T bound to the tag of the argument (the tag is the value here) ---------
Push(r) ==
  /\ pc[r] = "push"
  /\ IF Dev("SharedTypeScope") THEN scope' = Job(r).x /\ UNCHANGED own
                                ELSE own' = [own EXCEPT ![r] = Job(r).x] /\ UNCHANGED scope
  /\ Goto(r, "check")
  /\ UNCHANGED <<mix, depth, store, tmp, callAt>>

Check(r) ==
  /\ pc[r] = "check"
  /\ LET bound == IF Dev("SharedTypeScope") THEN scope ELSE own[r] IN
       tmp' = [tmp EXCEPT ![r] = <<IF bound = Job(r).x THEN 1 ELSE 0, 0, 0>>]
  /\ Goto(r, "pop")
  /\ UNCHANGED <<mix, depth, own, scope, store, callAt>>

Pop(r) ==
  /\ pc[r] = "pop"
  /\ IF Dev("SharedTypeScope") THEN scope' = 0 /\ UNCHANGED own
                                ELSE own' = [own EXCEPT ![r] = 0] /\ UNCHANGED scope
  /\ Finish(r, IF tmp[r][1] = 1 THEN RInt(Job(r).x) ELSE RErr("type"))
  /\ UNCHANGED <<mix, depth, store, tmp, callAt>>

\* ---- one provider operation (or nothing shared, for echo) -----------------------------------------
Op(r) ==
  /\ pc[r] = "op"
  /\ LET j == Job(r) IN
       IF j.route \in {"echo", "cold"}
         THEN Finish(r, RInt(j.x)) /\ UNCHANGED <<store, tmp>>
       ELSE IF j.route = "create" /\ Dev("SplitCreate")
         THEN tmp' = [tmp EXCEPT ![r] = <<Len(store.rows) + 1, 0, 0>>] /\ Goto(r, "append") /\ UNCHANGED store
       ELSE IF j.route = "get" /\ Dev("LiveRecords")
         THEN LET i == FirstIdx(store.rows, j.x) IN
                IF i = 0 THEN Finish(r, RNull) /\ UNCHANGED <<store, tmp>>
                ELSE tmp' = [tmp EXCEPT ![r] = <<j.x, 0, 0>>] /\ Goto(r, "readA") /\ UNCHANGED store
       ELSE LET res == Apply(store, j.route, j.x, j.y) IN
              store' = res[1] /\ Finish(r, res[2]) /\ UNCHANGED tmp
  /\ UNCHANGED <<mix, depth, own, scope, callAt>>

\* SplitCreate: the second critical section appends with the id read earlier
AppendStep(r) ==
  /\ pc[r] = "append"
  /\ LET rec == <<tmp[r][1], Job(r).x, Job(r).x>> IN
       store' = [store EXCEPT !.rows = Append(@, rec)] /\ Finish(r, RRec(rec))
  /\ UNCHANGED <<mix, depth, own, scope, tmp, callAt>>

\* LiveRecords: the reader encodes the stored record field by field, without the lock
ReadA(r) ==
  /\ pc[r] = "readA"
  /\ LET i == FirstIdx(store.rows, tmp[r][1]) IN
       tmp' = [tmp EXCEPT ![r] = <<tmp[r][1], IF i = 0 THEN -1 ELSE store.rows[i][2], 0>>]
  /\ Goto(r, "readB")
  /\ UNCHANGED <<mix, depth, own, scope, store, callAt>>

ReadB(r) ==
  /\ pc[r] = "readB"
  /\ LET i == FirstIdx(store.rows, tmp[r][1]) IN
       Finish(r, RRec(<<tmp[r][1], tmp[r][2], IF i = 0 THEN -1 ELSE store.rows[i][3]>>))
  /\ UNCHANGED <<mix, depth, own, scope, store, tmp, callAt>>

\* ---- rmw(id): get, then update with the value read + 1 (two operations: not atomic, by design) ------
Rmw1(r) ==
  /\ pc[r] = "rmw1"
  /\ LET res == Apply(store, "get", Job(r).x, 0) IN
       IF res[2].k = "null" THEN Finish(r, RNull) /\ UNCHANGED tmp
       ELSE tmp' = [tmp EXCEPT ![r] = <<res[2].a, 0, 0>>] /\ Goto(r, "rmw2")
  /\ UNCHANGED <<mix, depth, own, scope, store, callAt>>

Rmw2(r) ==
  /\ pc[r] = "rmw2"
  /\ LET res == Apply(store, "update", Job(r).x, tmp[r][1] + 1) IN
       store' = res[1] /\ Finish(r, res[2])
  /\ UNCHANGED <<mix, depth, own, scope, tmp, callAt>>

Step(r) == Call(r) \/ Enter(r) \/ Leave(r) \/ Push(r) \/ Check(r) \/ Pop(r) \/ Op(r) \/ AppendStep(r) \/ ReadA(r) \/ ReadB(r) \/ Rmw1(r) \/ Rmw2(r)
Next == \E r \in Reqs : Step(r) /\ UNCHANGED mix
Spec == Init /\ [][Next]_vars /\ \A r \in 1..4 : WF_vars(r \in Reqs /\ Step(r))

\* ---- properties ------------------------------------------------------------------------------------
Done(r) == pc[r] = "done"
AllDone == \A r \in Reqs : Done(r)

\* a request that touches no provider is answered as if it were alone
SoloEquivalence == \A r \in Reqs : Done(r) /\ Job(r).route \in PureRoutes => resp[r] = Solo(Job(r))

\* no record is ever seen half-written (every writer sets a = b)
NoTornRecord == \A r \in Reqs : Done(r) /\ resp[r].k = "rec" => resp[r].a = resp[r].b

\* the shared depth counter and scope are back to rest when nobody runs
Quiescent == AllDone => (\A r \in Reqs : depth[r] = 0 /\ own[r] = 0) /\ scope = 0

\* linearizability of the provider operations: when all requests are done, some total order of them
\* that respects real time (a returned before b was called => a first) explains every answer, with
\* rmw contributing its two operations in order (not necessarily adjacent)
OpsOf(r) == IF Job(r).route = "rmw" THEN 2 ELSE IF Job(r).route \in StoreOps THEN 1 ELSE 0
StoreReqs == {r \in Reqs : OpsOf(r) > 0}

\* a schedule is a sequence of request ids, request r appearing OpsOf(r) times
RECURSIVE Explain(_, _, _, _)
\* left: function r -> operations still to run; st: store; carry: r -> value read by rmw's get
Explain(left, st, carry, finished) ==
  IF \A r \in StoreReqs : left[r] = 0 THEN TRUE
  ELSE \E r \in StoreReqs :
         /\ left[r] > 0
         \* real time: r may run its first operation only if every request that returned before r was called is finished
         /\ (left[r] = OpsOf(r)) => \A q \in StoreReqs : retAt[q] < callAt[r] => q \in finished
         /\ LET j == Job(r) IN
              IF j.route # "rmw"
                THEN LET res == Apply(st, j.route, j.x, j.y) IN
                       res[2] = resp[r] /\ Explain([left EXCEPT ![r] = 0], res[1], carry, finished \cup {r})
              ELSE IF left[r] = 2
                THEN LET res == Apply(st, "get", j.x, 0) IN
                       IF res[2].k = "null" THEN resp[r] = RNull /\ Explain([left EXCEPT ![r] = 0], st, carry, finished \cup {r})
                       ELSE Explain([left EXCEPT ![r] = 1], st, [carry EXCEPT ![r] = res[2].a], finished)
                ELSE LET res == Apply(st, "update", j.x, carry[r] + 1) IN
                       res[2] = resp[r] /\ Explain([left EXCEPT ![r] = 0], res[1], carry, finished \cup {r})

Linearizable == AllDone => Explain([r \in Reqs |-> OpsOf(r)], EmptyStore, [r \in Reqs |-> 0], {})

Termination == <>AllDone
====================================================================================
