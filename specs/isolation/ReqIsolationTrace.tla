---------------------------- MODULE ReqIsolationTrace ----------------------------
(***************************************************************************************)
(* Validation of histories recorded from the real server under concurrent load (C08). *)
(*                                                                                     *)
(* trace.ndjson: one line per event, in the order of a single atomic event counter      *)
(* taken by the client just before a request is sent ("call") and just after its        *)
(* response was read ("ret"):                                                           *)
(*   {"e":"call","r":id,"route":..,"x":..,"y":..,"res":<the answer seen later>}         *)
(*   {"e":"ret","r":id,"res":{k,i,a,b,l}}                                               *)
(*   {"e":"reset"}                        a fresh server                                *)
(* Between its call and its ret a request takes its provider operations one at a time   *)
(* (silent TLin steps, l unchanged): the history is accepted iff some placement of them *)
(* explains every answer - linearizability of each provider operation - and every       *)
(* request that touches nothing shared is answered as if it were alone (Solo).          *)
(* The answer is also written on the call line so that a linearization that cannot      *)
(* lead to it is abandoned at once (same test as at ret, earlier).                      *)
(***************************************************************************************)
EXTENDS IsoStore, TLC, Json

Trace == ndJsonDeserialize("trace.ndjson")
N == Len(Trace)

VARIABLES l, store, pend
tvars == <<l, store, pend>>

OpsOf(route) == IF route = "rmw" THEN 2 ELSE IF route \in StoreOps THEN 1 ELSE 0

TraceInit == l = 1 /\ store = EmptyStore /\ pend = <<>> /\ TLCSet(1, 0)

IsEvent(e) == l <= N /\ Trace[l].e = e /\ l' = l + 1

Drop(f, r) == [q \in DOMAIN f \ {r} |-> f[q]]
Put(f, r, v) == [q \in DOMAIN f \cup {r} |-> IF q = r THEN v ELSE f[q]]

TCall ==
  /\ IsEvent("call")
  /\ LET ev == Trace[l] IN
       /\ ev.r \notin DOMAIN pend
       /\ pend' = Put(pend, ev.r, [route |-> ev.route, x |-> ev.x, y |-> ev.y, left |-> OpsOf(ev.route), carry |-> 0,
                                    res |-> IF ev.route \in PureRoutes THEN Solo(ev) ELSE RNone, exp |-> ev.res])
  /\ UNCHANGED store

TLin(r) ==
  /\ pend[r].left > 0
  /\ LET p == pend[r] IN
       IF p.route # "rmw"
         THEN LET res == Apply(store, p.route, p.x, p.y) IN
                /\ res[2] = p.exp
                /\ store' = res[1]
                /\ pend' = [pend EXCEPT ![r].left = 0, ![r].res = res[2]]
       ELSE IF p.left = 2
         THEN LET res == Apply(store, "get", p.x, 0) IN
                /\ UNCHANGED store
                /\ IF res[2].k = "null"
                     THEN p.exp = RNull /\ pend' = [pend EXCEPT ![r].left = 0, ![r].res = RNull]
                     ELSE pend' = [pend EXCEPT ![r].left = 1, ![r].carry = res[2].a]
         ELSE LET res == Apply(store, "update", p.x, p.carry + 1) IN
                /\ res[2] = p.exp
                /\ store' = res[1]
                /\ pend' = [pend EXCEPT ![r].left = 0, ![r].res = res[2]]
  /\ UNCHANGED l

TRet ==
  /\ IsEvent("ret")
  /\ LET ev == Trace[l] IN
       /\ ev.r \in DOMAIN pend
       /\ pend[ev.r].left = 0
       /\ pend[ev.r].res = ev.res
       /\ pend' = Drop(pend, ev.r)
  /\ UNCHANGED store

TReset ==
  /\ IsEvent("reset")
  /\ DOMAIN pend = {}
  /\ store' = EmptyStore
  /\ UNCHANGED pend

TraceNext == TCall \/ TRet \/ TReset \/ \E r \in DOMAIN pend : TLin(r)
TraceSpec == TraceInit /\ [][TraceNext]_tvars

HighWater == TLCSet(1, IF l > TLCGet(1) THEN l ELSE TLCGet(1))
TraceAccepted ==
  IF TLCGet(1) = N + 1 THEN TRUE
  ELSE PrintT(<<"REJECT", TLCGet(1)>>) /\ FALSE
====================================================================================
