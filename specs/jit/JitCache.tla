---------------------------- MODULE JitCache ----------------------------
(***************************************************************************)
(* Tiering and caching of pkg/jit (JITCompiler + SpecializationCache).     *)
(* A bytecode is abstracted to [ver, tier]: the version of the definition  *)
(* it was compiled from and the optimisation tier (1 baseline, 2 optimized,*)
(* 3 highly optimized; typed specialisations are tier 3).  Contract: a     *)
(* caller that changes a route's definition invalidates the route (or      *)
(* records a deoptimisation, which covers the specialisations only).       *)
(*                                                                         *)
(* Actions = the public calls; CompileRoute's cache hit is two critical    *)
(* sections in the concurrent configuration (read the unit / replace it    *)
(* after recompiling).                                                     *)
(*                                                                         *)
(* Deviations:                                                             *)
(*  "JIT_InvalidateKeepsSpecializations"  InvalidateCache / ClearCache do  *)
(*        not touch the specialisation cache (code before the fix: commit) *)
(*  "JIT_DeoptNeedsUnit"  RecordDeoptimization invalidates specialisations *)
(*        only when a unit is cached                                       *)
(***************************************************************************)
EXTENDS Integers, Sequences, FiniteSets, TLC

CONSTANTS Routes, TypeMaps,
          MaxVer,        \* definitions have versions 1..MaxVer
          Threshold,     \* hot path threshold (executions)
          Window,        \* recompile window (ticks)
          MaxSpecs,      \* specialisations kept per route
          Deviations,
          RecordHist

VARIABLES def,       \* route -> current version
          dirtyU,    \* route -> redefined since the last InvalidateCache/ClearCache
          dirtyS,    \* route -> redefined since the last invalidation or deoptimisation
          units,     \* route -> [has |-> FALSE] | [has, ver, tier, at]
          specs,     \* route -> sequence of [types, ver, valid, hits]
          prof,      \* route -> recorded executions
          now,
          last,      \* last returned bytecode: [route, kind, ver, tier, ok] (ok: fresh at the time it was handed out)
          hist
vars == <<def, dirtyU, dirtyS, units, specs, prof, now, last, hist>>
View == <<def, dirtyU, dirtyS, units, specs, prof, now, last>>

Dev(d) == d \in Deviations
NoUnit == [has |-> FALSE, ver |-> 0, tier |-> 0, at |-> 0]
Done(rec) == hist' = IF RecordHist THEN Append(hist, rec) ELSE hist

Init ==
    /\ def = [r \in Routes |-> 1] /\ dirtyU = [r \in Routes |-> FALSE] /\ dirtyS = [r \in Routes |-> FALSE]
    /\ units = [r \in Routes |-> NoUnit] /\ specs = [r \in Routes |-> <<>>] /\ prof = [r \in Routes |-> 0]
    /\ now = 0 /\ last = [kind |-> "none", ok |-> TRUE] /\ hist = <<>>

ShouldRecompile(r) ==
    LET u == units[r] IN
    /\ u.tier < 3
    /\ prof[r] > 0                                  \* a profile exists
    /\ now - u.at > Window
    /\ IF u.tier <= 1 THEN prof[r] >= Threshold \div 2 ELSE prof[r] >= Threshold

InitialTier(r) == IF prof[r] > 0 /\ prof[r] >= Threshold THEN 2 ELSE 1

Compile(r) ==
    /\ IF units[r].has
         THEN IF ShouldRecompile(r)
                THEN /\ units' = [units EXCEPT ![r] = [has |-> TRUE, ver |-> def[r], tier |-> units[r].tier + 1, at |-> now]]
                     /\ last' = [route |-> r, kind |-> "unit", ver |-> def[r], tier |-> units[r].tier + 1, ok |-> TRUE]
                ELSE /\ UNCHANGED units
                     /\ last' = [route |-> r, kind |-> "unit", ver |-> units[r].ver, tier |-> units[r].tier, ok |-> (dirtyU[r] \/ units[r].ver = def[r])]
         ELSE /\ units' = [units EXCEPT ![r] = [has |-> TRUE, ver |-> def[r], tier |-> InitialTier(r), at |-> now]]
              /\ last' = [route |-> r, kind |-> "unit", ver |-> def[r], tier |-> InitialTier(r), ok |-> TRUE]
    /\ UNCHANGED <<def, dirtyU, dirtyS, specs, prof, now>>
    /\ Done([op |-> "Compile", r |-> r, ver |-> last'.ver, tier |-> last'.tier, defver |-> def[r]])

RecordExecution(r) ==
    /\ prof' = [prof EXCEPT ![r] = prof[r] + 1]
    /\ UNCHANGED <<def, dirtyU, dirtyS, units, specs, now, last>>
    /\ Done([op |-> "Exec", r |-> r])

MatchIdx(r, t) == {i \in 1..Len(specs[r]) : specs[r][i].valid /\ specs[r][i].types = t}
MinHitsIdx(s) == CHOOSE i \in 1..Len(s) : \A k \in 1..Len(s) : s[i].hits < s[k].hits \/ (s[i].hits = s[k].hits /\ i <= k)
RemoveAt(s, i) == [k \in 1..(Len(s) - 1) |-> IF k < i THEN s[k] ELSE s[k + 1]]

CompileTyped(r, t) ==
    /\ IF MatchIdx(r, t) # {}
         THEN LET i == CHOOSE x \in MatchIdx(r, t) : \A y \in MatchIdx(r, t) : x <= y IN
              /\ specs' = [specs EXCEPT ![r][i].hits = specs[r][i].hits + 1]
              /\ last' = [route |-> r, kind |-> "spec", ver |-> specs[r][i].ver, tier |-> 3, ok |-> (dirtyS[r] \/ specs[r][i].ver = def[r])]
         ELSE LET base == IF Len(specs[r]) >= MaxSpecs THEN RemoveAt(specs[r], MinHitsIdx(specs[r])) ELSE specs[r] IN
              /\ specs' = [specs EXCEPT ![r] = Append(base, [types |-> t, ver |-> def[r], valid |-> TRUE, hits |-> 0])]
              /\ last' = [route |-> r, kind |-> "spec", ver |-> def[r], tier |-> 3, ok |-> TRUE]
    /\ UNCHANGED <<def, dirtyU, dirtyS, units, prof, now>>
    /\ Done([op |-> "CompileTyped", r |-> r, types |-> t, ver |-> last'.ver, defver |-> def[r]])

InvalidateSpecs(s) == [i \in 1..Len(s) |-> [s[i] EXCEPT !.valid = FALSE]]

Invalidate(r) ==
    /\ units' = [units EXCEPT ![r] = NoUnit]
    /\ dirtyU' = [dirtyU EXCEPT ![r] = FALSE]
    /\ dirtyS' = [dirtyS EXCEPT ![r] = FALSE]          \* the caller has done its duty
    /\ IF Dev("JIT_InvalidateKeepsSpecializations")
         THEN UNCHANGED specs
         ELSE specs' = [specs EXCEPT ![r] = InvalidateSpecs(specs[r])]
    /\ UNCHANGED <<def, prof, now, last>>
    /\ Done([op |-> "Invalidate", r |-> r])

Clear ==
    /\ units' = [r \in Routes |-> NoUnit]
    /\ dirtyU' = [r \in Routes |-> FALSE]
    /\ dirtyS' = [r \in Routes |-> FALSE]
    /\ IF Dev("JIT_InvalidateKeepsSpecializations")
         THEN UNCHANGED specs
         ELSE specs' = [r \in Routes |-> InvalidateSpecs(specs[r])]
    /\ UNCHANGED <<def, prof, now, last>>
    /\ Done([op |-> "Clear"])

Deopt(r) ==
    /\ dirtyS' = [dirtyS EXCEPT ![r] = FALSE]
    /\ IF Dev("JIT_DeoptNeedsUnit") /\ ~units[r].has
         THEN UNCHANGED specs
         ELSE specs' = [specs EXCEPT ![r] = InvalidateSpecs(specs[r])]
    /\ UNCHANGED <<def, dirtyU, units, prof, now, last>>
    /\ Done([op |-> "Deopt", r |-> r])

\* the application changes the route's definition
Redefine(r) ==
    /\ def[r] < MaxVer
    /\ def' = [def EXCEPT ![r] = def[r] + 1]
    /\ dirtyU' = [dirtyU EXCEPT ![r] = TRUE]
    /\ dirtyS' = [dirtyS EXCEPT ![r] = TRUE]
    /\ UNCHANGED <<units, specs, prof, now, last>>
    /\ Done([op |-> "Redefine", r |-> r, ver |-> def[r] + 1])

Tick ==
    /\ now' = now + 1
    /\ UNCHANGED <<def, dirtyU, dirtyS, units, specs, prof, last>>
    /\ Done([op |-> "Tick"])

Next == \/ \E r \in Routes : Compile(r) \/ RecordExecution(r) \/ Invalidate(r) \/ Deopt(r) \/ Redefine(r)
        \/ \E r \in Routes, t \in TypeMaps : CompileTyped(r, t)
        \/ Clear \/ Tick
Spec == Init /\ [][Next]_vars

(* ---- properties ------------------------------------------------------------ *)
\* what is handed out was compiled from the current definition, unless the caller has not yet
\* told the JIT about a redefinition
NoStale == last.kind # "none" => last.ok
CacheConsistent ==
    \A r \in Routes :
        /\ (units[r].has /\ ~dirtyU[r]) => units[r].ver = def[r]
        /\ ~dirtyS[r] => \A i \in 1..Len(specs[r]) : specs[r][i].valid => specs[r][i].ver = def[r]
SpecCap == \A r \in Routes : Len(specs[r]) <= MaxSpecs
TierRange == \A r \in Routes : units[r].has => units[r].tier \in 1..3
\* a unit's tier only grows until it is invalidated
TierMonotone == [][\A r \in Routes : (units[r].has /\ units'[r].has) => units'[r].tier >= units[r].tier]_vars
=============================================================================
