---------------------------- MODULE GlyphCore ----------------------------
(***************************************************************************)
(* The core of GlyphLang as an executable definition: values, operator     *)
(* typing and int/float coercion, block scoping, control flow, and the     *)
(* concrete syntax of expressions (precedence) - for the fragment          *)
(*   literals, variables, unary ! -, binary + - * / % == != < <= > >= &&   *)
(*   ||, array and object literals, field access, indexing, a few builtins,*)
(*   $ declarations, reassignment, if/else, while, for (arrays, objects),  *)
(*   switch, break, continue, return, expression statements.               *)
(*                                                                         *)
(* Reference: docs/LANGUAGE_SPECIFICATION.md sections 4-5 and, where the   *)
(* document is silent, the tree-walking interpreter; where the interpreter *)
(* crashes or is nondeterministic the obvious total, deterministic rule    *)
(* (structural == on arrays and objects, objects iterated in ascending key *)
(* order).  Each such choice is marked REF below.                          *)
(*                                                                         *)
(* Values are tagged records:  [k |-> "null"] [k |-> "bool", v]            *)
(* [k |-> "int", v] [k |-> "float", q] (q = 4 x value: quarter precision)  *)
(* [k |-> "str", v] [k |-> "arr", e] [k |-> "obj", f] (f: sequence of      *)
(* [name, v], no duplicate names).  A float that is not a multiple of 1/4  *)
(* is not representable: the evaluation then ends as "unrep" and only      *)
(* value-vs-error is compared for that program.                            *)
(*                                                                         *)
(* Programs are read from progs.ndjson (one [id, body, vars] per line);    *)
(* TLC evaluates Run(prog) for each and renders Src(prog), the program     *)
(* text with the minimum parentheses the documented precedence requires.   *)
(***************************************************************************)
EXTENDS Integers, Sequences, FiniteSets, TLC, Json

CONSTANTS MaxIter,      \* loop iteration limit of the model (the engines' own limits are far larger)
          MaxFuel,      \* statement budget: a program that needs more is reported as "limit"
          KeyOrder,     \* sequence of all object keys used by the programs, ascending
          Deviations    \* {} = the definition.  Named departures of the bytecode engine that the
                        \* repository's own tests pin (see known_findings.json):
                        \*  "VM_StringOrdering"     < <= > >= on two strings give a boolean (opaque here)
                        \*  "VM_MissingFieldError"  o.f on a missing field is an error
                        \*  "VM_MissingKeyNull"     o["k"] on a missing key is null
                        \*  "VM_DupKeyFirst"        {a: 1, a: 2} keeps the first value
                        \*  "VM_ForVarFlat"         loop variables overwrite an outer variable of the same name
                        \*  "VM_LenObjError"  builtin table difference
                        \*  "VM_IgnoresValidation"  `? f(args)` is compiled to nothing ("for now, validation statements are ignored in compiled mode")

Progs == ndJsonDeserialize("progs.ndjson")

VARIABLES pi, result
vars == <<pi, result>>

(* ---- values --------------------------------------------------------------- *)
VNull == [k |-> "null"]
VBool(b) == [k |-> "bool", v |-> b]
VInt(n) == [k |-> "int", v |-> n]
VFloat(q) == [k |-> "float", q |-> q]
VStr(s) == [k |-> "str", v |-> s]
VArr(es) == [k |-> "arr", e |-> es]
VObj(fs) == [k |-> "obj", f |-> fs]

Dev(d) == d \in Deviations
Ok(v) == [ok |-> TRUE, v |-> v]
Err(c) == [ok |-> FALSE, err |-> c]

IsNum(v) == v.k \in {"int", "float"}
\* special numbers carry a field sp: "big" - an integer of 2^30 or more, given as hi * 2^30 + lo with its decimal text s
\* (ordered and compared exactly, never computed with); "nan" - the float that is not a number
Sp(v) == IF "sp" \in DOMAIN v THEN v.sp ELSE ""
VNaN == [k |-> "float", q |-> 0, sp |-> "nan"]
BigLess(a, b) == a.hi < b.hi \/ (a.hi = b.hi /\ a.lo < b.lo)
Q(v) == IF v.k = "int" THEN 4 * v.v ELSE v.q          \* numeric value x 4

Abs(n) == IF n < 0 THEN -n ELSE n
TruncDiv(a, b) == IF (a < 0) = (b < 0) THEN Abs(a) \div Abs(b) ELSE -(Abs(a) \div Abs(b))   \* Go's /
TruncMod(a, b) == a - b * TruncDiv(a, b)                                                  \* Go's %

HasKey(o, n) == \E i \in 1..Len(o.f) : o.f[i].name = n
GetKey(o, n) == o.f[CHOOSE i \in 1..Len(o.f) : o.f[i].name = n].v
SetKey(o, n, v) == IF HasKey(o, n)
                   THEN VObj([i \in 1..Len(o.f) |-> IF o.f[i].name = n THEN [name |-> n, v |-> v] ELSE o.f[i]])
                   ELSE VObj(Append(o.f, [name |-> n, v |-> v]))

\* structural equality with numeric coercion.  REF: the interpreter's == panics on two arrays
\* or two objects (Go interface comparison); the definition is the structural one.
RECURSIVE ValEq(_, _)
ValEq(a, b) ==
    IF IsNum(a) /\ IsNum(b)
      THEN IF Sp(a) = "nan" \/ Sp(b) = "nan" THEN FALSE
           ELSE IF Sp(a) = "big" \/ Sp(b) = "big" THEN (Sp(a) = "big" /\ Sp(b) = "big" /\ a.hi = b.hi /\ a.lo = b.lo)
           ELSE Q(a) = Q(b)
    ELSE IF a.k # b.k THEN FALSE
    ELSE CASE a.k = "null" -> TRUE
           [] a.k \in {"bool", "str"} -> a.v = b.v
           [] a.k = "arr" -> Len(a.e) = Len(b.e) /\ \A i \in 1..Len(a.e) : ValEq(a.e[i], b.e[i])
           [] a.k = "obj" -> /\ Len(a.f) = Len(b.f)
                             /\ \A i \in 1..Len(a.f) : HasKey(b, a.f[i].name) /\ ValEq(a.f[i].v, GetKey(b, a.f[i].name))

(* ---- operators ---------------------------------------------------------------- *)
\* TLC's integers are 32-bit and the engines' are 64-bit: the definition covers numbers of magnitude below 2^20
\* (products below 2^40 would still be exact in the engines, but not here); anything larger is "not representable"
\* and the program is dropped from the comparison
Lim == 1048576
Small(x) == x > -Lim /\ x < Lim
Arith(op, a, b) ==      \* a, b numeric
    IF Sp(a) = "nan" \/ Sp(b) = "nan" THEN (IF op = "%" /\ a.k = "int" /\ b.k = "int" THEN Err("UNREP") ELSE Ok(VNaN))
    ELSE IF Sp(a) = "big" \/ Sp(b) = "big" THEN Err("UNREP")
    ELSE IF a.k = "int" /\ b.k = "int"
      THEN IF ~Small(a.v) \/ ~Small(b.v) THEN Err("UNREP")
           ELSE CASE op = "+" -> Ok(VInt(a.v + b.v))
                  [] op = "-" -> Ok(VInt(a.v - b.v))
                  [] op = "*" -> IF Abs(a.v) > 1024 /\ Abs(b.v) > 1024 THEN Err("UNREP") ELSE Ok(VInt(a.v * b.v))
                  [] op = "/" -> IF b.v = 0 THEN Err("divzero") ELSE Ok(VInt(TruncDiv(a.v, b.v)))
                  [] op = "%" -> IF b.v = 0 THEN Err("divzero") ELSE Ok(VInt(TruncMod(a.v, b.v)))
      ELSE LET x == Q(a)
               y == Q(b) IN
           IF ~Small(x) \/ ~Small(y) THEN Err("UNREP")
           ELSE CASE op = "+" -> Ok(VFloat(x + y))
                  [] op = "-" -> Ok(VFloat(x - y))
                  [] op = "*" -> IF Abs(x) > 1024 /\ Abs(y) > 1024 THEN Err("UNREP")
                                 ELSE IF TruncMod(x * y, 4) = 0 THEN Ok(VFloat(TruncDiv(x * y, 4))) ELSE Err("UNREP")
                  [] op = "/" -> IF y = 0 THEN Err("divzero")
                                 ELSE IF TruncMod(x * 4, y) = 0 THEN Ok(VFloat(TruncDiv(x * 4, y))) ELSE Err("UNREP")
                  [] op = "%" -> IF y = 0 THEN Err("divzero") ELSE Ok(VFloat(TruncMod(x, y)))

Compare(op, a, b) ==    \* a, b numeric
    IF Sp(a) = "nan" \/ Sp(b) = "nan" THEN Ok(VBool(FALSE))           \* every ordering with NaN is false
    ELSE IF Sp(a) = "big" \/ Sp(b) = "big"
      THEN IF a.k # "int" \/ b.k # "int" THEN Err("UNREP")
           ELSE LET lt == IF Sp(a) = "big" /\ Sp(b) = "big" THEN BigLess(a, b) ELSE Sp(b) = "big"     \* a small integer is below a big one
                    eq == Sp(a) = "big" /\ Sp(b) = "big" /\ a.hi = b.hi /\ a.lo = b.lo IN
                Ok(VBool(CASE op = "<" -> lt [] op = "<=" -> lt \/ eq [] op = ">" -> ~lt /\ ~eq [] op = ">=" -> ~lt))
    ELSE LET x == Q(a)
             y == Q(b) IN
         Ok(VBool(CASE op = "<" -> x < y [] op = "<=" -> x <= y [] op = ">" -> x > y [] op = ">=" -> x >= y))

\* strict binary operators on two values
BinOp(op, a, b) ==
    CASE op = "+" ->
            IF a.k = "str" THEN (IF b.k # "str" THEN Err("type")
                                 ELSE IF Len(a.v) + Len(b.v) > 4096 THEN Err("TOOBIG")
                                 ELSE Ok(VStr(a.v \o b.v)))
            ELSE IF a.k = "arr" THEN (IF b.k # "arr" THEN Err("type")
                                      ELSE IF Len(a.e) + Len(b.e) > 2048 THEN Err("TOOBIG")     \* (a program that doubles a value in a loop: beyond what TLC holds)
                                      ELSE Ok(VArr(a.e \o b.e)))
            ELSE IF IsNum(a) /\ IsNum(b) THEN Arith(op, a, b) ELSE Err("type")
      [] op \in {"-", "*", "/", "%"} -> IF IsNum(a) /\ IsNum(b) THEN Arith(op, a, b) ELSE Err("type")
      [] op = "==" -> Ok(VBool(ValEq(a, b)))
      [] op = "!=" -> Ok(VBool(~ValEq(a, b)))
      [] op \in {"<", "<=", ">", ">="} -> IF IsNum(a) /\ IsNum(b) THEN Compare(op, a, b)
                                            ELSE IF Dev("VM_StringOrdering") /\ a.k = "str" /\ b.k = "str" THEN Err("OPAQUE")
                                            ELSE Err("type")

UnOp(op, a) ==
    CASE op = "!" -> IF a.k = "bool" THEN Ok(VBool(~a.v)) ELSE Err("type")
      [] op = "neg" -> IF Sp(a) = "nan" THEN Ok(VNaN) ELSE IF Sp(a) = "big" THEN Err("UNREP")
                       ELSE IF a.k = "int" THEN Ok(VInt(-a.v)) ELSE IF a.k = "float" THEN Ok(VFloat(-a.q)) ELSE Err("type")

(* ---- scopes ------------------------------------------------------------------------ *)
\* scopes: sequence of functions name -> value, innermost last
Lookup(sc, n) == LET S == {i \in 1..Len(sc) : n \in DOMAIN sc[i]} IN
                 IF S = {} THEN Err("undefined") ELSE Ok(sc[CHOOSE i \in S : \A j \in S : j <= i][n])
\* the module's constants: the bottom scope of every route and every function body; no statement may assign them
GlobalFrame == LET cs == Progs[pi].consts IN [n \in {cs[i].n : i \in 1..Len(cs)} |-> (CHOOSE x \in {cs[i] : i \in 1..Len(cs)} : x.n = n).v]
IsModuleConst(sc, n) == n \in DOMAIN sc[1] /\ \A i \in 2..Len(sc) : n \notin DOMAIN sc[i]
\* nesting of function calls: each call's scope records it under a name no program can spell
MaxCalls == 24
CallDepth(sc) == IF \E i \in 1..Len(sc) : "%depth" \in DOMAIN sc[i] THEN Lookup(sc, "%depth").v.v ELSE 0
Defined(sc, n) == \E i \in 1..Len(sc) : n \in DOMAIN sc[i]
SetVar(sc, n, v) == LET S == {i \in 1..Len(sc) : n \in DOMAIN sc[i]}
                        i == CHOOSE x \in S : \A j \in S : j <= x IN
                    [sc EXCEPT ![i] = [sc[i] EXCEPT ![n] = v]]
DefineVar(sc, n, v) == [sc EXCEPT ![Len(sc)] = (n :> v) @@ sc[Len(sc)]]
Push(sc) == Append(sc, [x \in {} |-> 0])
Pop(sc) == SubSeq(sc, 1, Len(sc) - 1)

(* ---- strings (characters by position; case maps for ASCII letters only) ---------------- *)
LowerAlpha == "abcdefghijklmnopqrstuvwxyz"
UpperAlpha == "ABCDEFGHIJKLMNOPQRSTUVWXYZ"
Ch(s, i) == SubSeq(s, i, i)
IdxIn(c, alpha) == IF \E i \in 1..Len(alpha) : Ch(alpha, i) = c THEN CHOOSE i \in 1..Len(alpha) : Ch(alpha, i) = c ELSE 0
RECURSIVE MapStr(_, _, _)
MapStr(s, from, to) == IF s = "" THEN ""
                       ELSE LET c == Ch(s, 1) i == IdxIn(c, from) IN (IF i = 0 THEN c ELSE Ch(to, i)) \o MapStr(SubSeq(s, 2, Len(s)), from, to)
IsBlank(c) == c \in {" ", "\t", "\n", "\r"}
RECURSIVE TrimL(_), TrimR(_)
TrimL(s) == IF s # "" /\ IsBlank(Ch(s, 1)) THEN TrimL(SubSeq(s, 2, Len(s))) ELSE s
TrimR(s) == IF s # "" /\ IsBlank(Ch(s, Len(s))) THEN TrimR(SubSeq(s, 1, Len(s) - 1)) ELSE s
StrContains(s, t) == \E i \in 1..(Len(s) - Len(t) + 1) : SubSeq(s, i, i + Len(t) - 1) = t
FirstAt(s, t) == CHOOSE i \in 1..(Len(s) - Len(t) + 1) : SubSeq(s, i, i + Len(t) - 1) = t /\ \A j \in 1..(i - 1) : SubSeq(s, j, j + Len(t) - 1) # t
RECURSIVE SplitStr(_, _)
\* as strings.Split: an empty separator splits into characters; otherwise the pieces between occurrences (n occurrences, n+1 pieces)
SplitStr(s, sep) == IF sep = "" THEN [i \in 1..Len(s) |-> Ch(s, i)]
                    ELSE IF ~StrContains(s, sep) THEN <<s>>
                    ELSE LET i == FirstAt(s, sep) IN <<SubSeq(s, 1, i - 1)>> \o SplitStr(SubSeq(s, i + Len(sep), Len(s)), sep)
RECURSIVE JoinStrs(_, _, _)
JoinStrs(parts, sep, i) == IF i > Len(parts) THEN "" ELSE parts[i] \o (IF i < Len(parts) THEN sep ELSE "") \o JoinStrs(parts, sep, i + 1)
IntStr(n) == IF n < 0 THEN "-" \o ToString(-n) ELSE ToString(n)
\* 0-based position of the first occurrence of t in s, -1 when there is none (the empty string occurs at 0)
StrIndex(s, t) == IF t = "" THEN 0 ELSE IF ~StrContains(s, t) THEN -1 ELSE FirstAt(s, t) - 1
RECURSIVE ReplaceAll(_, _, _)
\* every non-overlapping occurrence, left to right
ReplaceAll(s, old, new) == IF ~StrContains(s, old) THEN s
                           ELSE LET i == FirstAt(s, old) IN SubSeq(s, 1, i - 1) \o new \o ReplaceAll(SubSeq(s, i + Len(old), Len(s)), old, new)
Digits == "0123456789"
IsDigit(c) == IdxIn(c, Digits) > 0
AllDigits(s) == s # "" /\ \A i \in 1..Len(s) : IsDigit(Ch(s, i))
RECURSIVE DecVal(_, _)
DecVal(s, acc) == IF s = "" THEN acc ELSE DecVal(SubSeq(s, 2, Len(s)), acc * 10 + IdxIn(Ch(s, 1), Digits) - 1)
StripSign(s) == IF s # "" /\ Ch(s, 1) \in {"+", "-"} THEN SubSeq(s, 2, Len(s)) ELSE s
IsNegStr(s) == s # "" /\ Ch(s, 1) = "-"
\* parseInt: blanks around are ignored; an optional sign and decimal digits, nothing else
ParseIntStr(s0) == LET s == TrimR(TrimL(s0)) d == StripSign(s) IN
    IF ~AllDigits(d) THEN [ok |-> FALSE, err |-> "parse"]
    ELSE IF Len(d) > 6 THEN [ok |-> FALSE, err |-> "UNREP"]
    ELSE [ok |-> TRUE, v |-> IF IsNegStr(s) THEN -DecVal(d, 0) ELSE DecVal(d, 0)]
\* parseFloat: decimal notation, digits on at least one side of an optional point.  Exponents, hex floats, inf and
\* nan (accepted by the implementation's number parser) are outside the model, as are fractions that are not quarters.
ParseFloatStr(s0) == LET s == TrimR(TrimL(s0))
                         d == StripSign(s)
                         dot == StrIndex(d, ".")
                         ip == IF dot < 0 THEN d ELSE SubSeq(d, 1, dot)
                         fp == IF dot < 0 THEN "" ELSE SubSeq(d, dot + 2, Len(d))
                         okc == \A i \in 1..Len(d) : IsDigit(Ch(d, i)) \/ Ch(d, i) = "."
                         odd == \E i \in 1..Len(d) : Ch(d, i) \in {"e", "E", "x", "X", "p", "P", "_", "i", "I", "n", "N"} IN
    IF odd THEN [ok |-> FALSE, err |-> "UNREP"]
    ELSE IF ~okc \/ (ip = "" /\ fp = "") \/ (ip # "" /\ ~AllDigits(ip)) \/ (fp # "" /\ ~AllDigits(fp)) THEN [ok |-> FALSE, err |-> "parse"]
    ELSE IF Len(ip) > 5 \/ Len(fp) > 4 THEN [ok |-> FALSE, err |-> "UNREP"]
    ELSE LET fr == IF fp = "" THEN 0 ELSE DecVal(fp, 0) * (CASE Len(fp) = 1 -> 1000 [] Len(fp) = 2 -> 100 [] Len(fp) = 3 -> 10 [] OTHER -> 1)
             whole == IF ip = "" THEN 0 ELSE DecVal(ip, 0) IN
         IF fr % 2500 # 0 THEN [ok |-> FALSE, err |-> "UNREP"]
         ELSE [ok |-> TRUE, q |-> (IF IsNegStr(s) THEN -1 ELSE 1) * (whole * 4 + fr \div 2500)]
\* the shortest decimal spelling of a float: 3.0 is "3", 3.5 is "3.5"
ShortFloat(q) == LET a == IF q < 0 THEN -q ELSE q IN
    (IF q < 0 THEN "-" ELSE "") \o ToString(a \div 4) \o (CASE a % 4 = 0 -> "" [] a % 4 = 1 -> ".25" [] a % 4 = 2 -> ".5" [] a % 4 = 3 -> ".75")

\* keys of an object in ascending order (REF: the interpreter iterates in Go map order)
SortedFields(o) == LET idx == SelectSeq(KeyOrder, LAMBDA k : HasKey(o, k)) IN
                   [i \in 1..Len(idx) |-> [name |-> idx[i], v |-> GetKey(o, idx[i])]]

\* ordering of strings by character code, for the characters in Alphabet (others: not modelled)
Alphabet == " !#$%&'()*+,-./0123456789:;<=>?@ABCDEFGHIJKLMNOPQRSTUVWXYZ[]^_`abcdefghijklmnopqrstuvwxyz{|}~"
InAlphabet(s) == \A i \in 1..Len(s) : IdxIn(Ch(s, i), Alphabet) > 0
RECURSIVE StrLess(_, _)
StrLess(s, t) == IF t = "" THEN FALSE
                 ELSE IF s = "" THEN TRUE
                 ELSE LET a == IdxIn(Ch(s, 1), Alphabet) b == IdxIn(Ch(t, 1), Alphabet) IN
                      IF a # b THEN a < b ELSE StrLess(SubSeq(s, 2, Len(s)), SubSeq(t, 2, Len(t)))
\* stable sort of the indices 1..n by a table of answers lt[i][j] ("i goes before j"): insertion after every element
\* that is not greater
RECURSIVE InsertIdx(_, _, _)
InsertIdx(x, sorted, lt) == IF sorted = <<>> THEN <<x>>
                            ELSE IF lt[x][Head(sorted)] THEN <<x>> \o sorted
                            ELSE <<Head(sorted)>> \o InsertIdx(x, Tail(sorted), lt)
RECURSIVE SortIdx(_, _)
SortIdx(n, lt) == IF n = 0 THEN <<>> ELSE InsertIdx(n, SortIdx(n - 1, lt), lt)
RECURSIVE FlatOnce(_)
FlatOnce(es) == IF es = <<>> THEN <<>> ELSE (IF Head(es).k = "arr" THEN Head(es).e ELSE <<Head(es)>>) \o FlatOnce(Tail(es))
RECURSIVE RevSeq(_)
RevSeq(es) == IF es = <<>> THEN <<>> ELSE RevSeq(Tail(es)) \o <<Head(es)>>
DelKey(o, n) == VObj(SelectSeq(o.f, LAMBDA x : x.name # n))

(* ---- patterns of match expressions ----------------------------------------------------- *)
\* MatchPat(p, v, b) = [ok, b]: whether v matches p and the bindings made (b: name -> value).  Bindings made by a
\* pattern that fails later are dropped with the case's scope: every case starts from the enclosing scopes alone.
RECURSIVE MatchPat(_, _, _), MatchElems(_, _, _, _), MatchFields(_, _, _, _)
Bind(b, n, v) == (n :> v) @@ b
MatchPat(p, v, b) ==
    CASE p.k = "lit" -> [ok |-> ValEq(p.v, v), b |-> b]
      [] p.k = "var" -> [ok |-> TRUE, b |-> Bind(b, p.n, v)]
      [] p.k = "wild" -> [ok |-> TRUE, b |-> b]
      [] p.k = "arr" ->
            IF v.k # "arr" THEN [ok |-> FALSE, b |-> b]
            ELSE IF p.rest = "" /\ Len(v.e) # Len(p.ps) THEN [ok |-> FALSE, b |-> b]
            ELSE IF p.rest # "" /\ Len(v.e) < Len(p.ps) THEN [ok |-> FALSE, b |-> b]
            ELSE LET r == MatchElems(p.ps, v.e, b, 1) IN
                 IF ~r.ok \/ p.rest = "" THEN r
                 ELSE [ok |-> TRUE, b |-> Bind(r.b, p.rest, VArr(SubSeq(v.e, Len(p.ps) + 1, Len(v.e))))]
      [] p.k = "obj" ->
            IF v.k # "obj" THEN [ok |-> FALSE, b |-> b] ELSE MatchFields(p.fs, v, b, 1)
MatchElems(ps, es, b, i) ==
    IF i > Len(ps) THEN [ok |-> TRUE, b |-> b]
    ELSE LET r == MatchPat(ps[i], es[i], b) IN IF ~r.ok THEN r ELSE MatchElems(ps, es, r.b, i + 1)
MatchFields(fs, o, b, i) ==
    IF i > Len(fs) THEN [ok |-> TRUE, b |-> b]
    ELSE IF ~HasKey(o, fs[i].key) THEN [ok |-> FALSE, b |-> b]
    ELSE IF ~fs[i].hasp THEN MatchFields(fs, o, Bind(b, fs[i].key, GetKey(o, fs[i].key)), i + 1)
    ELSE LET r == MatchPat(fs[i].p, GetKey(o, fs[i].key), b) IN IF ~r.ok THEN r ELSE MatchFields(fs, o, r.b, i + 1)

(* ---- expressions ---------------------------------------------------------------------- *)
\* declared types of function parameters and results ("any" and "" accept everything; null is accepted everywhere:
\* requiredness is a different question; a whole float passes for an int - numbers of a JSON body are floats)
WholeFloat(v) == v.k = "float" /\ Sp(v) = "" /\ TruncMod(v.q, 4) = 0
ScalarOK(v, ty) == CASE ty \in {"any", ""} -> TRUE
                     [] v.k = "null" -> TRUE
                     [] ty \in {"int", "int?"} -> v.k = "int" \/ WholeFloat(v)
                     [] ty = "float" -> v.k \in {"int", "float"}
                     [] ty = "str" -> v.k = "str"
                     [] ty = "bool" -> v.k = "bool"
                     [] OTHER -> FALSE
TypeOK_(v, ty) == IF ty = "[int]" THEN v.k = "null" \/ (v.k = "arr" /\ \A i \in 1..Len(v.e) : ScalarOK(v.e[i], "int")) ELSE ScalarOK(v, ty)
\* an argument for an int parameter that arrives as a whole float becomes that integer
CoerceArg(v, ty) == IF ty = "int" /\ WholeFloat(v) THEN VInt(TruncDiv(v.q, 4)) ELSE v

RECURSIVE Eval(_, _), EvalSeq(_, _, _), EvalFields(_, _, _), ExecBlock(_, _, _, _), EvalCases(_, _, _, _), Each(_, _, _, _, _), SortCmp(_, _, _)
\* A settled future: the outcome of the block, which ran on a snapshot of the scopes visible where it was
\* spawned.  Blocks communicate with their parent only through await, so the outcome does not depend on
\* when the block runs and the definition may run it at once.
\* (a block that answers with a status of its own hands a status-carrying value to its awaiter: not modelled)
Settled(r) == CASE r.ctl = "error" -> [ok |-> FALSE, v |-> VNull, err |-> r.val]
                [] r.ctl = "return" /\ r.st # 200 -> [ok |-> FALSE, v |-> VNull, err |-> "UNREP"]
                [] r.ctl \in {"return", "next"} -> [ok |-> TRUE, v |-> r.val, err |-> ""]
                [] OTHER -> [ok |-> FALSE, v |-> VNull, err |-> "loopctl"]
Eval(e, sc) ==
    CASE e.e = "lit" -> Ok(e.v)
      [] e.e = "var" -> Lookup(sc, e.n)
      [] e.e = "un" -> LET a == Eval(e.a, sc) IN IF ~a.ok THEN a ELSE UnOp(e.op, a.v)
      [] e.e = "bin" ->
            IF e.op \in {"&&", "||"}
              THEN LET a == Eval(e.a, sc) IN
                   IF ~a.ok THEN a
                   ELSE IF a.v.k # "bool" THEN Err("type")
                   ELSE IF (e.op = "&&" /\ ~a.v.v) THEN Ok(VBool(FALSE))      \* short circuit
                   ELSE IF (e.op = "||" /\ a.v.v) THEN Ok(VBool(TRUE))
                   ELSE LET b == Eval(e.b, sc) IN
                        IF ~b.ok THEN b ELSE IF b.v.k # "bool" THEN Err("type") ELSE Ok(VBool(b.v.v))
              ELSE LET a == Eval(e.a, sc) IN
                   IF ~a.ok THEN a
                   ELSE LET b == Eval(e.b, sc) IN
                        IF ~b.ok THEN b ELSE BinOp(e.op, a.v, b.v)
      [] e.e = "arr" -> LET es == EvalSeq(e.es, sc, 1) IN IF ~es.ok THEN es ELSE Ok(VArr(es.v))
      [] e.e = "obj" -> LET fs == EvalFields(e.fs, sc, 1) IN IF ~fs.ok THEN fs ELSE Ok(fs.v)
      [] e.e = "field" ->
            LET o == Eval(e.o, sc) IN
            IF ~o.ok THEN o
            ELSE IF o.v.k = "obj" THEN (IF HasKey(o.v, e.n) THEN Ok(GetKey(o.v, e.n))
                                        ELSE IF Dev("VM_MissingFieldError") THEN Err("type") ELSE Ok(VNull))   \* a missing field reads as null
            ELSE Err("type")
      [] e.e = "idx" ->
            LET o == Eval(e.o, sc) IN
            IF ~o.ok THEN o
            ELSE LET i == Eval(e.i, sc) IN
                 IF ~i.ok THEN i
                 ELSE IF o.v.k = "arr"
                        THEN IF i.v.k # "int" THEN Err("type")
                             ELSE IF i.v.v < 0 \/ i.v.v >= Len(o.v.e) THEN Err("bounds")
                             ELSE Ok(o.v.e[i.v.v + 1])
                      ELSE IF o.v.k = "obj"
                        THEN IF i.v.k # "str" THEN Err("type")
                             ELSE IF HasKey(o.v, i.v.v) THEN Ok(GetKey(o.v, i.v.v))
                             ELSE IF Dev("VM_MissingKeyNull") THEN Ok(VNull) ELSE Err("bounds")
                      ELSE Err("type")
      [] e.e = "async" ->     \* async { body }: a future; the body sees a copy of the scopes, its writes stay in the copy
            Ok([k |-> "fut", r |-> Settled(ExecBlock(e.b, Push(sc), MaxFuel, 1))])
      [] e.e = "await" ->     \* the block's value, or its error, the same for every awaiter and every time
            LET a == Eval(e.a, sc) IN
            IF ~a.ok THEN a
            ELSE IF a.v.k = "fut" THEN (IF a.v.r.ok THEN Ok(a.v.r.v) ELSE Err(a.v.r.err))
            ELSE IF Dev("VM_AwaitPassesValue") THEN Ok(a.v) ELSE Err("type")
      [] e.e = "match" ->     \* cases in order; the first whose pattern matches and whose guard holds gives the value; none: null
            LET v == Eval(e.x, sc) IN IF ~v.ok THEN v ELSE EvalCases(e.cases, v.v, sc, 1)
      [] e.e = "fcall" ->     \* a function the module declares: arguments left to right, then the body in a scope of its own
            LET av == EvalSeq(e.as, sc, 1) IN
            IF ~av.ok THEN av
            ELSE LET fs == Progs[pi].funcs
                     S == {i \in 1..Len(fs) : fs[i].name = e.fn} IN
                 IF S = {} THEN Err("undefined")
                 ELSE IF Defined(sc, e.fn) THEN Err("type")      \* a variable of that name is in the way: not a function
                 ELSE LET f == fs[CHOOSE i \in S : TRUE] IN
                      LET np == Len(f.params)
                          pt == f.ptypes
                          needed == Cardinality({i \in 1..np : pt[i].req /\ ~pt[i].hasdef}) IN
                      IF Len(av.v) > np \/ Len(av.v) < needed THEN Err("type")        \* too many arguments, or fewer than the required ones
                      ELSE IF \E i \in 1..np : i > Len(av.v) /\ pt[i].req /\ ~pt[i].hasdef THEN Err("type")     \* a required one is among the missing
                      ELSE IF CallDepth(sc) >= MaxCalls THEN Err("limit")      \* calls nested deeper than the model follows
                      ELSE LET \* given, else the default, else null; a whole float given for an int parameter becomes the integer
                               bound == [i \in 1..np |-> IF i <= Len(av.v) THEN CoerceArg(av.v[i], pt[i].ty) ELSE IF pt[i].hasdef THEN pt[i].def ELSE VNull]
                               scope == ("%depth" :> VInt(CallDepth(sc) + 1)) @@
                                        [n \in {f.params[i] : i \in 1..np} |-> bound[CHOOSE j \in 1..np : f.params[j] = n]] IN
                           IF \E i \in 1..np : ~TypeOK_(bound[i], pt[i].ty) THEN Err("type")
                           ELSE LET \* lexical scoping: the body sees its parameters and its own variables, never the caller's
                                    r == ExecBlock(f.body, <<GlobalFrame, scope>>, MaxFuel, 1) IN
                                CASE r.ctl = "error" -> Err(r.val)
                                  [] r.ctl \in {"return", "next"} -> (IF r.st # 200 THEN Err("UNREP")
                                                                       ELSE IF ~TypeOK_(r.val, f.ret) THEN Err("type")      \* the declared result type
                                                                       ELSE Ok(r.val))
                                  [] OTHER -> Err("loopctl")
      [] e.e = "pipe" ->      \* x |> f(a, ...) is f(x, a, ...): the value on the left is the first argument
            Eval([e |-> "fcall", fn |-> e.fn, as |-> <<e.x>> \o e.as], sc)
      [] e.e = "callh" ->     \* array builtins; those that take a function are given the name of one the module declares
            LET a == Eval(e.as[1], sc) IN
            IF ~a.ok THEN a
            ELSE IF a.v.k # (IF e.fn \in {"set", "remove"} THEN "obj" ELSE "arr") THEN Err("type")
            ELSE IF e.f # "" /\ ~\E i \in 1..Len(Progs[pi].funcs) : Progs[pi].funcs[i].name = e.f THEN Err("undefined")
            ELSE LET rest == EvalSeq(SubSeq(e.as, 2, Len(e.as)), sc, 1) IN
                 IF ~rest.ok THEN rest
                 ELSE LET g == rest.v
                          xs == a.v.e
                          IsI(i) == g[i].k = "int" /\ Sp(g[i]) = "" IN
                 (CASE e.fn = "append" -> IF Len(xs) >= 2048 THEN Err("TOOBIG") ELSE Ok(VArr(Append(xs, g[1])))
                   [] e.fn = "reverse" -> Ok(VArr(RevSeq(xs)))
                   [] e.fn = "flat" -> LET r == FlatOnce(xs) IN IF Len(r) > 2048 THEN Err("TOOBIG") ELSE Ok(VArr(r))
                   [] e.fn = "slice" ->      \* start below 0 is 0, end beyond the length is the length, an empty range is empty
                        IF ~IsI(1) \/ ~IsI(2) THEN (IF g[1].k = "int" /\ g[2].k = "int" THEN Err("UNREP") ELSE Err("type"))
                        ELSE LET st == IF g[1].v < 0 THEN 0 ELSE g[1].v
                                 en == IF g[2].v > Len(xs) THEN Len(xs) ELSE g[2].v IN
                             IF st > en THEN Ok(VArr(<<>>)) ELSE Ok(VArr(SubSeq(xs, st + 1, en)))
                   [] e.fn = "set" -> IF g[1].k # "str" THEN Err("type") ELSE Ok(SetKey(a.v, g[1].v, g[2]))
                   [] e.fn = "remove" -> IF g[1].k # "str" THEN Err("type") ELSE Ok(DelKey(a.v, g[1].v))
                   [] e.fn = "sort" /\ e.f = "" ->     \* ascending, stable; integers, floats or strings, all of one kind
                        IF Len(xs) <= 1 THEN Ok(a.v)
                        ELSE IF \E i \in 1..Len(xs) : xs[i].k \notin {"int", "float", "str"} \/ xs[i].k # xs[1].k THEN Err("type")
                        ELSE IF \E i \in 1..Len(xs) : Sp(xs[i]) # "" \/ (xs[i].k = "str" /\ ~InAlphabet(xs[i].v)) THEN Err("UNREP")
                        ELSE LET n == Len(xs)
                                 lt == [i \in 1..n |-> [j \in 1..n |-> IF xs[i].k = "str" THEN StrLess(xs[i].v, xs[j].v) ELSE Q(xs[i]) < Q(xs[j])]]
                                 perm == SortIdx(n, lt) IN
                             Ok(VArr([i \in 1..n |-> xs[perm[i]]]))
                   [] e.fn = "sort" -> SortCmp(e.f, xs, sc)
                   [] e.fn = "reduce" -> Each("reduce", e.f, xs, g[1], sc)
                   [] OTHER -> Each(e.fn, e.f, xs, VNull, sc))
      [] e.e = "calln" ->     \* string builtins (arguments evaluated left to right, then checked)
            LET av == EvalSeq(e.as, sc, 1) IN
            IF ~av.ok THEN av
            ELSE LET g == av.v
                     n == Len(g)
                     IsS(i) == g[i].k = "str"
                     IsI(i) == g[i].k = "int" IN
                 (CASE e.fn = "upper" -> IF n # 1 \/ ~IsS(1) THEN Err("type") ELSE Ok(VStr(MapStr(g[1].v, LowerAlpha, UpperAlpha)))
                   [] e.fn = "lower" -> IF n # 1 \/ ~IsS(1) THEN Err("type") ELSE Ok(VStr(MapStr(g[1].v, UpperAlpha, LowerAlpha)))
                   [] e.fn = "trim" -> IF n # 1 \/ ~IsS(1) THEN Err("type") ELSE Ok(VStr(TrimR(TrimL(g[1].v))))
                   [] e.fn = "contains" -> IF n # 2 \/ ~IsS(1) \/ ~IsS(2) THEN Err("type") ELSE Ok(VBool(StrContains(g[1].v, g[2].v)))
                   [] e.fn = "substring" ->
                        IF n # 3 \/ ~IsS(1) \/ ~IsI(2) \/ ~IsI(3) THEN Err("type")
                        ELSE IF g[2].v < 0 \/ g[3].v < 0 \/ g[2].v > g[3].v \/ g[3].v > Len(g[1].v) THEN Err("bounds")
                        ELSE Ok(VStr(SubSeq(g[1].v, g[2].v + 1, g[3].v)))
                   [] e.fn = "split" ->
                        IF n # 2 \/ ~IsS(1) \/ ~IsS(2) THEN Err("type")
                        ELSE LET ps == SplitStr(g[1].v, g[2].v) IN Ok(VArr([i \in 1..Len(ps) |-> VStr(ps[i])]))
                   [] e.fn = "join" ->
                        IF n # 2 \/ g[1].k # "arr" \/ ~IsS(2) THEN Err("type")
                        ELSE IF \E i \in 1..Len(g[1].e) : g[1].e[i].k \notin {"str", "int"} THEN Err("UNREP")      \* other elements print in Go's %v form
                        ELSE Ok(VStr(JoinStrs([i \in 1..Len(g[1].e) |-> IF g[1].e[i].k = "str" THEN g[1].e[i].v ELSE IntStr(g[1].e[i].v)], g[2].v, 1)))
                   [] e.fn = "startsWith" -> IF n # 2 \/ ~IsS(1) \/ ~IsS(2) THEN Err("type")
                                             ELSE Ok(VBool(Len(g[2].v) <= Len(g[1].v) /\ SubSeq(g[1].v, 1, Len(g[2].v)) = g[2].v))
                   [] e.fn = "endsWith" -> IF n # 2 \/ ~IsS(1) \/ ~IsS(2) THEN Err("type")
                                           ELSE Ok(VBool(Len(g[2].v) <= Len(g[1].v) /\ SubSeq(g[1].v, Len(g[1].v) - Len(g[2].v) + 1, Len(g[1].v)) = g[2].v))
                   [] e.fn = "indexOf" -> IF n # 2 \/ ~IsS(1) \/ ~IsS(2) THEN Err("type") ELSE Ok(VInt(StrIndex(g[1].v, g[2].v)))
                   [] e.fn = "charAt" ->
                        IF n # 2 \/ ~IsS(1) \/ ~IsI(2) THEN Err("type")
                        ELSE IF Sp(g[2]) = "big" \/ g[2].v < 0 \/ g[2].v >= Len(g[1].v) THEN Err("bounds")
                        ELSE Ok(VStr(Ch(g[1].v, g[2].v + 1)))
                   [] e.fn = "replace" ->
                        IF n # 3 \/ ~IsS(1) \/ ~IsS(2) \/ ~IsS(3) THEN Err("type")
                        ELSE IF g[2].v = "" THEN Err("UNREP")       \* an empty pattern: the implementation inserts between characters; not modelled
                        ELSE LET r == ReplaceAll(g[1].v, g[2].v, g[3].v) IN Ok(VStr(r))
                   [] e.fn \in {"min", "max"} ->      \* two integers or two floats (no coercion between them: "arguments must be same type")
                        IF n # 2 \/ g[1].k \notin {"int", "float"} \/ g[2].k # g[1].k THEN Err("type")
                        ELSE IF Sp(g[1]) # "" \/ Sp(g[2]) # "" THEN Err("UNREP")
                        ELSE LET x == Q(g[1]) y == Q(g[2]) IN
                             Ok(IF e.fn = "min" THEN (IF x < y THEN g[1] ELSE g[2]) ELSE (IF x > y THEN g[1] ELSE g[2]))
                   [] e.fn = "parseInt" ->
                        IF n # 1 \/ ~IsS(1) THEN Err("type")
                        ELSE LET r == ParseIntStr(g[1].v) IN IF r.ok THEN Ok(VInt(r.v)) ELSE Err(r.err)
                   [] e.fn = "parseFloat" ->
                        IF n # 1 \/ ~IsS(1) THEN Err("type")
                        ELSE LET r == ParseFloatStr(g[1].v) IN IF r.ok THEN Ok(VFloat(r.q)) ELSE Err(r.err)
                   [] e.fn = "toString" ->
                        IF n # 1 THEN Err("type")
                        ELSE CASE g[1].k = "str" -> Ok(g[1])
                               [] g[1].k = "int" -> (IF Sp(g[1]) = "big" THEN Ok(VStr(g[1].s)) ELSE Ok(VStr(IntStr(g[1].v))))
                               [] g[1].k = "bool" -> Ok(VStr(IF g[1].v THEN "true" ELSE "false"))
                               [] g[1].k = "null" -> Ok(VStr("null"))
                               [] g[1].k = "float" -> (IF Sp(g[1]) # "" THEN Err("UNREP") ELSE Ok(VStr(ShortFloat(g[1].q))))
                               [] OTHER -> Err("UNREP")       \* arrays and objects: no documented spelling
                   [] e.fn = "keys" ->       \* the keys of an object, ascending
                        IF n # 1 \/ g[1].k # "obj" THEN Err("type")
                        ELSE LET fs == SortedFields(g[1]) IN Ok(VArr([i \in 1..Len(fs) |-> VStr(fs[i].name)])))
      [] e.e = "call" ->      \* builtins of the fragment, one argument
            LET a == Eval(e.a, sc) IN
            IF ~a.ok THEN a
            ELSE CASE e.fn = "length" ->
                        IF a.v.k = "arr" THEN Ok(VInt(Len(a.v.e)))
                        ELSE IF a.v.k = "str" THEN Ok(VInt(Len(a.v.v)))
                        ELSE IF a.v.k = "obj" THEN (IF Dev("VM_LenObjError") THEN Err("type") ELSE Ok(VInt(Len(a.v.f))))      \* number of keys
                        ELSE Err("type")
                   [] e.fn = "abs" ->
                        IF a.v.k = "int" THEN Ok(VInt(Abs(a.v.v)))
                        ELSE IF a.v.k = "float" THEN Ok(VFloat(Abs(a.v.q)))
                        ELSE Err("type")

\* the function named f applied to values: as a call f(v1, ..) written in the program
ApplyExpr(f, vs) == [e |-> "fcall", fn |-> f, as |-> [i \in 1..Len(vs) |-> [e |-> "lit", v |-> vs[i]]]]
\* map / filter / find / some / every / reduce over xs, left to right; acc carries the result so far.  A callback that
\* fails makes the whole call fail; filter, find, some keep an element when the callback answers true, every stops at
\* the first answer that is not true
ParamCount(f) == LET fs == Progs[pi].funcs IN Len(fs[CHOOSE i \in 1..Len(fs) : fs[i].name = f].params)
Each(kind, f, xs, acc, sc) ==
    IF ParamCount(f) # (IF kind = "reduce" THEN 2 ELSE 1) THEN Err("UNREP")      \* surplus and missing arguments of a callback: not modelled
    ELSE
    LET start == IF kind \in {"map", "filter"} /\ acc.k = "null" THEN VArr(<<>>) ELSE acc IN
    IF xs = <<>> THEN (CASE kind \in {"map", "filter", "reduce"} -> Ok(start)
                         [] kind = "find" -> Ok(VNull)
                         [] kind = "some" -> Ok(VBool(FALSE))
                         [] kind = "every" -> Ok(VBool(TRUE)))
    ELSE LET x == Head(xs)
             r == Eval(ApplyExpr(f, IF kind = "reduce" THEN <<start, x>> ELSE <<x>>), sc)
             yes == r.ok /\ r.v.k = "bool" /\ r.v.v IN
         IF ~r.ok THEN r
         ELSE CASE kind = "map" -> Each(kind, f, Tail(xs), VArr(Append(start.e, r.v)), sc)
                [] kind = "filter" -> Each(kind, f, Tail(xs), IF yes THEN VArr(Append(start.e, x)) ELSE start, sc)
                [] kind = "reduce" -> Each(kind, f, Tail(xs), r.v, sc)
                [] kind = "find" -> IF yes THEN Ok(x) ELSE Each(kind, f, Tail(xs), acc, sc)
                [] kind = "some" -> IF yes THEN Ok(VBool(TRUE)) ELSE Each(kind, f, Tail(xs), acc, sc)
                [] kind = "every" -> IF ~yes THEN Ok(VBool(FALSE)) ELSE Each(kind, f, Tail(xs), acc, sc)
\* sort with a comparator f(a, b): a goes first when f answers a negative number or true.  The table of answers is taken
\* first (any failure or other kind of answer fails the call); the order is only defined when the answers form an ordering
SortCmp(f, xs, sc) ==
    IF ParamCount(f) # 2 THEN Err("UNREP")
    ELSE IF Len(xs) <= 1 THEN Ok(VArr(xs))
    ELSE LET n == Len(xs)
             ans == [i \in 1..n |-> [j \in 1..n |-> Eval(ApplyExpr(f, <<xs[i], xs[j]>>), sc)]]
             bad == \E i, j \in 1..n : ~ans[i][j].ok \/ ans[i][j].v.k \notin {"int", "float", "bool"} \/ Sp(ans[i][j].v) # ""
             lt(i, j) == LET v == ans[i][j].v IN IF v.k = "bool" THEN v.v ELSE Q(v) < 0
             ltm == [i \in 1..n |-> [j \in 1..n |-> lt(i, j)]]
             ordering == /\ \A i \in 1..n : ~lt(i, i)
                         /\ \A i, j \in 1..n : ~(lt(i, j) /\ lt(j, i))
                         /\ \A i, j, k \in 1..n : lt(i, j) /\ lt(j, k) => lt(i, k)
                         /\ \A i, j, k \in 1..n : (~lt(i, j) /\ ~lt(j, i) /\ ~lt(j, k) /\ ~lt(k, j)) => (~lt(i, k) /\ ~lt(k, i)) IN
         \* not every pair is asked: a failure is certain only when every pair of different elements fails
         IF bad THEN (IF \A i, j \in 1..n : i = j \/ (~ans[i][j].ok /\ ans[i][j].err \notin {"UNREP", "TOOBIG"}) THEN Err(ans[1][2].err)
                      ELSE IF \A i, j \in 1..n : i = j \/ (ans[i][j].ok /\ ans[i][j].v.k \notin {"int", "float", "bool"}) THEN Err("type")
                      ELSE Err("UNREP"))
         ELSE IF ~ordering THEN Err("UNREP")
         ELSE LET perm == SortIdx(n, ltm) IN Ok(VArr([i \in 1..n |-> xs[perm[i]]]))

EvalSeq(es, sc, i) ==
    IF i > Len(es) THEN Ok(<<>>)
    ELSE LET h == Eval(es[i], sc) IN
         IF ~h.ok THEN h
         ELSE LET t == EvalSeq(es, sc, i + 1) IN IF ~t.ok THEN t ELSE Ok(<<h.v>> \o t.v)

\* later duplicates of a key overwrite earlier ones (keeping the first position)
EvalFields(fs, sc, i) ==
    IF i > Len(fs) THEN Ok(VObj(<<>>))
    ELSE LET rest == EvalFields(fs, sc, i + 1) IN
         \* evaluate in source order: this field first
         LET h == Eval(fs[i].v, sc) IN
         IF ~h.ok THEN h
         ELSE IF ~rest.ok THEN rest
         ELSE IF HasKey(rest.v, fs[i].name) THEN Ok(VObj(<<[name |-> fs[i].name, v |-> IF Dev("VM_DupKeyFirst") THEN h.v ELSE GetKey(rest.v, fs[i].name)]>>
                                                        \o SelectSeq(rest.v.f, LAMBDA x : x.name # fs[i].name)))
         ELSE Ok(VObj(<<[name |-> fs[i].name, v |-> h.v]>> \o rest.v.f))

\* a case runs in a scope of its own holding the bindings of its pattern; the guard must be a boolean
EvalCases(cs, v, sc, i) ==
    IF i > Len(cs) THEN Ok(VNull)
    ELSE LET m == MatchPat(cs[i].p, v, [x \in {} |-> 0]) IN
         IF ~m.ok THEN EvalCases(cs, v, sc, i + 1)
         ELSE LET sc1 == Append(sc, m.b) IN
              IF ~cs[i].hasg THEN Eval(cs[i].b, sc1)
              ELSE LET g == Eval(cs[i].g, sc1) IN
                   IF ~g.ok THEN g
                   ELSE IF g.v.k # "bool" THEN Err("type")
                   ELSE IF g.v.v THEN Eval(cs[i].b, sc1)
                   ELSE EvalCases(cs, v, sc, i + 1)

(* ---- statements ----------------------------------------------------------------------------- *)
\* Result of running statements: [sc, ctl, val, fuel]; ctl: "next" | "break" | "continue" | "return" | "error";
\* val: the returned value / error class / value of the last statement (a body that ends without
\* `>` yields the value of its last statement).
\* st: the HTTP status the route answers with (200 unless a guard or `> v :: N` says otherwise)
R(sc, ctl, val, fuel) == [sc |-> sc, ctl |-> ctl, val |-> val, fuel |-> fuel, st |-> 200]

RECURSIVE Exec(_, _, _), While(_, _, _, _), ForEach(_, _, _, _, _), Switch(_, _, _, _, _), UpdatePath(_, _, _, _, _)

\* the value v with the element that path leads to replaced by nv.  Accessors are taken left to right: .name on an
\* object (reading a missing field gives null, which nothing can be assigned into), [i] on an array (an integer within
\* bounds) or an object (a string: read of a missing key fails, the last accessor may add a key).  strictf: the path came
\* from `$ o.a.b = v`, where every field on the way must exist and hold an object
UpdatePath(v, path, nv, sc, strictf) ==
    IF path = <<>> THEN Ok(nv)
    ELSE LET a == Head(path)
             last == Len(path) = 1 IN
         IF a.k = "f"
           THEN IF v.k # "obj" THEN Err("type")
                ELSE IF last THEN Ok(SetKey(v, a.name, nv))
                ELSE IF ~HasKey(v, a.name) THEN Err("type")        \* strict: "does not exist"; otherwise null, and null takes no assignment
                ELSE LET r == UpdatePath(GetKey(v, a.name), Tail(path), nv, sc, strictf) IN
                     IF ~r.ok THEN r ELSE Ok(SetKey(v, a.name, r.v))
           ELSE LET i == Eval(a.x, sc) IN
                IF ~i.ok THEN i
                ELSE IF v.k = "arr"
                  THEN IF i.v.k # "int" \/ Sp(i.v) # "" THEN Err("type")
                       ELSE IF i.v.v < 0 \/ i.v.v >= Len(v.e) THEN Err("bounds")
                       ELSE LET r == UpdatePath(v.e[i.v.v + 1], Tail(path), nv, sc, strictf) IN
                            IF ~r.ok THEN r ELSE Ok(VArr([j \in 1..Len(v.e) |-> IF j = i.v.v + 1 THEN r.v ELSE v.e[j]]))
                ELSE IF v.k = "obj"
                  THEN IF i.v.k # "str" THEN Err("type")
                       ELSE IF last THEN Ok(SetKey(v, i.v.v, nv))
                       ELSE IF ~HasKey(v, i.v.v) THEN Err("bounds")
                       ELSE LET r == UpdatePath(GetKey(v, i.v.v), Tail(path), nv, sc, strictf) IN
                            IF ~r.ok THEN r ELSE Ok(SetKey(v, i.v.v, r.v))
                ELSE Err("type")

\* a block runs in a fresh child scope that is dropped on every kind of exit
ExecBlock(stmts, sc, fuel, i) ==
    IF i > Len(stmts) THEN R(sc, "next", VNull, fuel)
    ELSE LET r == Exec(stmts[i], sc, fuel) IN
         IF r.ctl # "next" THEN r
         ELSE IF i = Len(stmts) THEN r
         ELSE ExecBlock(stmts, r.sc, r.fuel, i + 1)

InBlock(stmts, sc, fuel) ==
    LET r == ExecBlock(stmts, Push(sc), fuel, 1) IN [r EXCEPT !.sc = Pop(r.sc)]

Exec(s, sc, fuel) ==
    IF fuel <= 0 THEN R(sc, "error", "limit", 0)
    ELSE
    CASE s.s = "decl" ->          \* $ x = e
            IF s.n \in DOMAIN sc[Len(sc)] THEN R(sc, "error", "redeclare", fuel)
            ELSE IF IsModuleConst(sc, s.n) THEN R(sc, "error", "const", fuel)
            ELSE LET v == Eval(s.x, sc) IN
                 IF ~v.ok THEN R(sc, "error", v.err, fuel)
                 ELSE IF Defined(sc, s.n) THEN R(SetVar(sc, s.n, v.v), "next", v.v, fuel - 1)     \* visible in an outer scope: update it
                 ELSE R(DefineVar(sc, s.n, v.v), "next", v.v, fuel - 1)
      [] s.s = "set" ->           \* x = e
            IF ~Defined(sc, s.n) THEN R(sc, "error", "undefined", fuel)
            ELSE IF s.n \in DOMAIN sc[1] THEN R(sc, "error", "const", fuel)      \* by name: also when a parameter or loop variable of that name is nearer
            ELSE LET v == Eval(s.x, sc) IN
                 IF ~v.ok THEN R(sc, "error", v.err, fuel) ELSE R(SetVar(sc, s.n, v.v), "next", v.v, fuel - 1)
      [] s.s = "pset" ->          \* $ o.a.b = e   (fields only)   /   a[i] = e,  $ o.items[i].n = e   (an index somewhere)
            \* written without `$`, a path that starts with a field is not a statement of the language
            IF ~s.dollar /\ s.path[1].k = "f" THEN R(sc, "error", "syntax", fuel)
            ELSE IF Defined(sc, s.n) /\ IsModuleConst(sc, s.n) THEN R(sc, "error", "const", fuel)      \* no assignment reaches into a constant
            ELSE IF \A j \in 1..Len(s.path) : s.path[j].k = "f"
              THEN \* the variable must exist and hold an object before the value is looked at
                   IF ~Defined(sc, s.n) THEN R(sc, "error", "undefined", fuel)
                   ELSE IF Lookup(sc, s.n).v.k # "obj" THEN R(sc, "error", "type", fuel)
                   ELSE LET v == Eval(s.x, sc) IN
                        IF ~v.ok THEN R(sc, "error", v.err, fuel)
                        ELSE LET r == UpdatePath(Lookup(sc, s.n).v, s.path, v.v, sc, TRUE) IN
                             IF ~r.ok THEN R(sc, "error", r.err, fuel)
                             ELSE R(SetVar(sc, s.n, r.v), "next", v.v, fuel - 1)
              ELSE \* the value first, then the path
                   LET v == Eval(s.x, sc) IN
                   IF ~v.ok THEN R(sc, "error", v.err, fuel)
                   ELSE IF ~Defined(sc, s.n) THEN R(sc, "error", "undefined", fuel)
                   ELSE LET r == UpdatePath(Lookup(sc, s.n).v, s.path, v.v, sc, FALSE) IN
                        IF ~r.ok THEN R(sc, "error", r.err, fuel)
                        ELSE R(SetVar(sc, s.n, r.v), "next", v.v, fuel - 1)
      [] s.s = "check" ->         \* ? f(args): the route goes on only if the call answers true (or nothing at all)
            IF Dev("VM_IgnoresValidation") THEN R(sc, "next", VNull, fuel - 1)
            ELSE LET v == Eval(s.x, sc) IN
                 IF ~v.ok THEN R(sc, "error", (IF v.err \in {"UNREP", "TOOBIG", "limit"} THEN v.err ELSE "validation"), fuel)
                 ELSE IF v.v.k = "null" \/ (v.v.k = "bool" /\ v.v.v) THEN R(sc, "next", VNull, fuel - 1)
                 ELSE R(sc, "error", "validation", fuel)
      [] s.s = "expr" ->
            LET v == Eval(s.x, sc) IN IF ~v.ok THEN R(sc, "error", v.err, fuel) ELSE R(sc, "next", v.v, fuel - 1)
      [] s.s = "ret" ->           \* > e   or   > e :: status
            LET v == Eval(s.x, sc) IN
            IF ~v.ok THEN R(sc, "error", v.err, fuel)
            ELSE IF s.status = 0 THEN R(sc, "return", v.v, fuel - 1)
            ELSE [R(sc, "return", v.v, fuel - 1) EXCEPT !.st = s.status]
      [] s.s = "guard" ->         \* ? cond :: status "message": answers {error: message} with the status unless cond holds
            LET c == Eval(s.c, sc) IN
            IF ~c.ok THEN R(sc, "error", c.err, fuel)
            ELSE IF c.v.k # "bool" THEN R(sc, "error", "type", fuel)
            ELSE IF c.v.v THEN R(sc, "next", VNull, fuel - 1)
            ELSE [R(sc, "return", VObj(<<[name |-> "error", v |-> VStr(s.msg)]>>), fuel - 1) EXCEPT !.st = s.status]
      [] s.s = "break" -> R(sc, "break", VNull, fuel - 1)
      [] s.s = "continue" -> R(sc, "continue", VNull, fuel - 1)
      [] s.s = "if" ->
            LET c == Eval(s.c, sc) IN
            IF ~c.ok THEN R(sc, "error", c.err, fuel)
            ELSE IF c.v.k # "bool" THEN R(sc, "error", "type", fuel)
            ELSE IF c.v.v THEN InBlock(s.t, sc, fuel - 1)
            ELSE IF s.haselse THEN InBlock(s.f, sc, fuel - 1)
            ELSE R(sc, "next", VNull, fuel - 1)
      [] s.s = "while" -> While(s, sc, fuel - 1, 0)
      [] s.s = "for" ->
            LET it == Eval(s.it, sc) IN
            IF ~it.ok THEN R(sc, "error", it.err, fuel)
            ELSE IF it.v.k = "arr"
              THEN ForEach(s, [i \in 1..Len(it.v.e) |-> [key |-> VInt(i - 1), val |-> it.v.e[i]]], sc, fuel - 1, 1)
            ELSE IF it.v.k = "obj"
              THEN LET fs == SortedFields(it.v) IN
                   ForEach(s, [i \in 1..Len(fs) |-> [key |-> VStr(fs[i].name), val |-> fs[i].v]], sc, fuel - 1, 1)
            ELSE R(sc, "error", "type", fuel)
      [] s.s = "switch" ->
            LET v == Eval(s.x, sc) IN
            IF ~v.ok THEN R(sc, "error", v.err, fuel) ELSE Switch(s, v.v, sc, fuel - 1, 1)

While(s, sc, fuel, n) ==
    IF n >= MaxIter THEN R(sc, "error", "limit", fuel)
    ELSE LET c == Eval(s.c, sc) IN
         IF ~c.ok THEN R(sc, "error", c.err, fuel)
         ELSE IF c.v.k # "bool" THEN R(sc, "error", "type", fuel)
         ELSE IF ~c.v.v THEN R(sc, "next", VNull, fuel)
         ELSE LET r == InBlock(s.b, sc, fuel) IN
              IF r.ctl = "break" THEN R(r.sc, "next", VNull, r.fuel)
              ELSE IF r.ctl \in {"next", "continue"} THEN While(s, r.sc, r.fuel, n + 1)
              ELSE r

\* loop variables live in the iteration's own scope: they shadow, never overwrite, outer names
ForEach(s, items, sc, fuel, i) ==
    IF i > Len(items) THEN R(sc, "next", VNull, fuel)
    ELSE LET flatV == Dev("VM_ForVarFlat") /\ Defined(sc, s.v)
             flatK == Dev("VM_ForVarFlat") /\ s.k # "" /\ Defined(sc, s.k)
             sc1 == IF flatV THEN SetVar(sc, s.v, items[i].val) ELSE sc
             sc2 == IF flatK THEN SetVar(sc1, s.k, items[i].key) ELSE sc1
             innerV == IF flatV THEN [x \in {} |-> 0] ELSE (s.v :> items[i].val)
             inner == IF s.k = "" \/ flatK THEN innerV ELSE (s.k :> items[i].key) @@ innerV
             r0 == ExecBlock(s.b, Append(sc2, inner), fuel, 1)
             r == [r0 EXCEPT !.sc = Pop(r0.sc)] IN
         IF r.ctl = "break" THEN R(r.sc, "next", VNull, r.fuel)
         ELSE IF r.ctl \in {"next", "continue"} THEN ForEach(s, items, r.sc, r.fuel, i + 1)
         ELSE r

\* first matching case runs, no fall-through; case values are evaluated in order until one matches;
\* matching is ==
CaseEq(a, b) == ValEq(a, b)
Switch(s, v, sc, fuel, i) ==
    IF i > Len(s.cases)
      THEN IF s.hasdef THEN InBlock(s.d, sc, fuel) ELSE R(sc, "next", VNull, fuel)
    ELSE LET cv == Eval(s.cases[i].v, sc) IN
         IF ~cv.ok THEN R(sc, "error", cv.err, fuel)
         ELSE IF CaseEq(v, cv.v) THEN InBlock(s.cases[i].b, sc, fuel)
         ELSE Switch(s, v, sc, fuel, i + 1)

\* a route body: variables bound by the request live in the outermost scope
Run(p) ==
    LET sc0 == <<GlobalFrame, [n \in {p.vars[i].n : i \in 1..Len(p.vars)} |-> (CHOOSE x \in {p.vars[i] : i \in 1..Len(p.vars)} : x.n = n).v]>>
        r == ExecBlock(p.body, sc0, MaxFuel, 1) IN
    \* "toobig": the program grows a string or array beyond what the definition holds (typically by doubling it in a
    \* loop); such programs are not run on the engines either - nothing bounds the memory an evaluation may take
    CASE r.ctl = "error" -> (IF r.val = "TOOBIG" THEN [kind |-> "toobig"] ELSE IF r.val \in {"UNREP", "OPAQUE"} THEN [kind |-> "unrep"] ELSE [kind |-> "error", class |-> r.val])
      [] r.ctl \in {"return", "next"} ->
            \* a block that ran into the iteration limit and was never awaited is still spinning when the route answers
            IF \E i \in 1..Len(r.sc) : \E n \in DOMAIN r.sc[i] : r.sc[i][n].k = "fut" /\ ~r.sc[i][n].r.ok /\ r.sc[i][n].r.err = "TOOBIG"
              THEN [kind |-> "toobig"]
            ELSE IF \E i \in 1..Len(r.sc) : \E n \in DOMAIN r.sc[i] : r.sc[i][n].k = "fut" /\ ~r.sc[i][n].r.ok /\ r.sc[i][n].r.err = "limit"
              THEN [kind |-> "unrep"]
              ELSE [kind |-> "value", v |-> r.val, st |-> r.st]
      [] r.ctl \in {"break", "continue"} -> [kind |-> "error", class |-> "loopctl"]     \* break/continue outside a loop

(* ---- concrete syntax --------------------------------------------------------------------------- *)
\* documented binding powers; all binary operators associate to the left; unary binds tighter,
\* postfix (field, index, call) tightest
Prec(op) == CASE op = "||" -> 2 [] op = "&&" -> 3
              [] op \in {"==", "!=", "<", "<=", ">", ">="} -> 5
              [] op \in {"+", "-"} -> 10 [] op \in {"*", "/", "%"} -> 20

FloatStr(q) == ToString(q \div 4) \o (CASE q % 4 = 0 -> ".0" [] q % 4 = 1 -> ".25" [] q % 4 = 2 -> ".5" [] q % 4 = 3 -> ".75")

\* string literals: backslash, quote, line feed, tab and carriage return are written as escapes
RECURSIVE EscStr(_)
EscStr(s) == IF s = "" THEN ""
             ELSE LET c == Ch(s, 1) IN
                  (CASE c = "\\" -> "\\\\" [] c = "\"" -> "\\\"" [] c = "\n" -> "\\n" [] c = "\t" -> "\\t" [] c = "\r" -> "\\r" [] OTHER -> c)
                  \o EscStr(SubSeq(s, 2, Len(s)))
RECURSIVE SrcE(_, _), SrcList(_, _), SrcFields(_, _), SrcV(_), SrcVList(_, _), SrcVFields(_, _), SrcB(_, _, _), SrcP(_), SrcPList(_, _), SrcPFields(_, _), SrcMCases(_, _)
SrcV(v) == CASE v.k = "null" -> "null"
             [] v.k = "bool" -> (IF v.v THEN "true" ELSE "false")
             [] v.k = "int" -> (IF Sp(v) = "big" THEN v.s ELSE IF v.v < 0 THEN "-" \o ToString(-v.v) ELSE ToString(v.v))
             [] v.k = "float" -> (IF v.q < 0 THEN "-" \o FloatStr(-v.q) ELSE FloatStr(v.q))
             [] v.k = "str" -> "\"" \o EscStr(v.v) \o "\""
             [] v.k = "arr" -> "[" \o SrcVList(v.e, 1) \o "]"
             [] v.k = "obj" -> "{" \o SrcVFields(v.f, 1) \o "}"
SrcVList(es, i) == IF i > Len(es) THEN "" ELSE SrcV(es[i]) \o (IF i < Len(es) THEN ", " ELSE "") \o SrcVList(es, i + 1)
SrcVFields(fs, i) == IF i > Len(fs) THEN "" ELSE fs[i].name \o ": " \o SrcV(fs[i].v) \o (IF i < Len(fs) THEN ", " ELSE "") \o SrcVFields(fs, i + 1)

\* SrcE(e, min): text of e in a context that requires binding power >= min; 30 = operand of a unary
\* operator, 40 = operand of a postfix operator
Wrap(s, need) == IF need THEN "(" \o s \o ")" ELSE s
IsNegLit(e) == e.e = "lit" /\ ((e.v.k = "int" /\ e.v.v < 0) \/ (e.v.k = "float" /\ e.v.q < 0))
SrcE(e, min) ==
    CASE e.e = "lit" -> Wrap(SrcV(e.v), IsNegLit(e) /\ min > 25)
      [] e.e = "var" -> e.n
      [] e.e = "un" -> Wrap((IF e.op = "!" THEN "!" ELSE "-") \o SrcE(e.a, 30), min > 30)
      [] e.e = "bin" -> Wrap(SrcE(e.a, Prec(e.op)) \o " " \o e.op \o " " \o SrcE(e.b, Prec(e.op) + 1), min > Prec(e.op))
      [] e.e = "arr" -> "[" \o SrcList(e.es, 1) \o "]"
      [] e.e = "obj" -> "{" \o SrcFields(e.fs, 1) \o "}"
      [] e.e = "field" -> SrcE(e.o, 40) \o "." \o e.n
      [] e.e = "idx" -> SrcE(e.o, 40) \o "[" \o SrcE(e.i, 0) \o "]"
      [] e.e = "call" -> e.fn \o "(" \o SrcE(e.a, 0) \o ")"
      [] e.e = "calln" -> e.fn \o "(" \o SrcList(e.as, 1) \o ")"
      [] e.e = "fcall" -> e.fn \o "(" \o SrcList(e.as, 1) \o ")"
      [] e.e = "callh" -> e.fn \o "(" \o SrcE(e.as[1], 0) \o (IF e.f = "" THEN "" ELSE ", " \o e.f)
                          \o (IF Len(e.as) > 1 THEN ", " \o SrcList(SubSeq(e.as, 2, Len(e.as)), 1) ELSE "") \o ")"
      [] e.e = "pipe" -> Wrap(SrcE(e.x, IF e.x.e = "pipe" THEN 0 ELSE 1) \o " |> " \o e.fn \o (IF e.bare THEN "" ELSE "(" \o SrcList(e.as, 1) \o ")"), min > 0)
      [] e.e = "match" -> "match " \o SrcE(e.x, 40) \o " {\n" \o SrcMCases(e.cases, 1) \o "    }"
      [] e.e = "async" -> "async {\n" \o SrcB(e.b, 3, 1) \o "    }"
      [] e.e = "await" -> Wrap("await " \o SrcE(e.a, 40), min > 0)     \* await takes a whole expression: (await f) + 1
SrcP(p) == CASE p.k = "lit" -> SrcV(p.v)
             [] p.k = "var" -> p.n
             [] p.k = "wild" -> "_"
             [] p.k = "arr" -> "[" \o SrcPList(p.ps, 1) \o (IF p.rest = "" THEN "" ELSE (IF Len(p.ps) > 0 THEN ", " ELSE "") \o "..." \o p.rest) \o "]"
             [] p.k = "obj" -> "{" \o SrcPFields(p.fs, 1) \o "}"
SrcPList(ps, i) == IF i > Len(ps) THEN "" ELSE SrcP(ps[i]) \o (IF i < Len(ps) THEN ", " ELSE "") \o SrcPList(ps, i + 1)
SrcPFields(fs, i) == IF i > Len(fs) THEN "" ELSE fs[i].key \o (IF fs[i].hasp THEN ": " \o SrcP(fs[i].p) ELSE "") \o (IF i < Len(fs) THEN ", " ELSE "") \o SrcPFields(fs, i + 1)
SrcMCases(cs, i) == IF i > Len(cs) THEN ""
                    ELSE "      " \o SrcP(cs[i].p) \o (IF cs[i].hasg THEN " when " \o SrcE(cs[i].g, 0) ELSE "") \o " => " \o SrcE(cs[i].b, 0) \o "\n" \o SrcMCases(cs, i + 1)
SrcList(es, i) == IF i > Len(es) THEN "" ELSE SrcE(es[i], 0) \o (IF i < Len(es) THEN ", " ELSE "") \o SrcList(es, i + 1)
SrcFields(fs, i) == IF i > Len(fs) THEN "" ELSE fs[i].name \o ": " \o SrcE(fs[i].v, 0) \o (IF i < Len(fs) THEN ", " ELSE "") \o SrcFields(fs, i + 1)

RECURSIVE SrcS(_, _), SrcCases(_, _, _), SrcPath(_, _)
SrcPath(path, i) == IF i > Len(path) THEN "" ELSE (IF path[i].k = "f" THEN "." \o path[i].name ELSE "[" \o SrcE(path[i].x, 0) \o "]") \o SrcPath(path, i + 1)
Ind(n) == IF n = 0 THEN "" ELSE IF n = 1 THEN "  " ELSE IF n = 2 THEN "    " ELSE IF n = 3 THEN "      " ELSE "        "
SrcS(s, n) ==
    Ind(n) \o
    (CASE s.s = "decl" -> "$ " \o s.n \o " = " \o SrcE(s.x, 0) \o "\n"
       [] s.s = "set" -> s.n \o " = " \o SrcE(s.x, 0) \o "\n"
       [] s.s = "pset" -> (IF s.dollar THEN "$ " ELSE "") \o s.n \o SrcPath(s.path, 1) \o " = " \o SrcE(s.x, 0) \o "\n"
       [] s.s = "check" -> "? " \o SrcE(s.x, 0) \o "\n"
       [] s.s = "expr" -> SrcE(s.x, 0) \o "\n"
       [] s.s = "ret" -> "> " \o SrcE(s.x, 0) \o (IF s.status = 0 THEN "" ELSE " :: " \o ToString(s.status)) \o "\n"
       [] s.s = "guard" -> "? " \o SrcE(s.c, 0) \o " :: " \o ToString(s.status) \o " \"" \o EscStr(s.msg) \o "\"\n"
       [] s.s = "break" -> "break\n"
       [] s.s = "continue" -> "continue\n"
       [] s.s = "if" -> "if " \o SrcE(s.c, 0) \o " {\n" \o SrcB(s.t, n + 1, 1) \o Ind(n) \o "}"
                         \o (IF s.haselse THEN " else {\n" \o SrcB(s.f, n + 1, 1) \o Ind(n) \o "}\n" ELSE "\n")
       [] s.s = "while" -> "while " \o SrcE(s.c, 0) \o " {\n" \o SrcB(s.b, n + 1, 1) \o Ind(n) \o "}\n"
       [] s.s = "for" -> "for " \o (IF s.k = "" THEN "" ELSE s.k \o ", ") \o s.v \o " in " \o SrcE(s.it, 0) \o " {\n"
                          \o SrcB(s.b, n + 1, 1) \o Ind(n) \o "}\n"
       [] s.s = "switch" -> "switch " \o SrcE(s.x, 0) \o " {\n" \o SrcCases(s.cases, n + 1, 1)
                             \o (IF s.hasdef THEN Ind(n + 1) \o "default {\n" \o SrcB(s.d, n + 2, 1) \o Ind(n + 1) \o "}\n" ELSE "")
                             \o Ind(n) \o "}\n")
SrcB(stmts, n, i) == IF i > Len(stmts) THEN "" ELSE SrcS(stmts[i], n) \o SrcB(stmts, n, i + 1)
SrcCases(cs, n, i) == IF i > Len(cs) THEN ""
                      ELSE Ind(n) \o "case " \o SrcE(cs[i].v, 0) \o " {\n" \o SrcB(cs[i].b, n + 1, 1) \o Ind(n) \o "}\n" \o SrcCases(cs, n, i + 1)

Src(p) == SrcB(p.body, 1, 1)
\* the module's functions, written before the route: ! name(a: any, b: any) { body }
RECURSIVE SrcParams(_, _), SrcFuncs(_, _)
SrcParams(f, i) == IF i > Len(f.params) THEN ""
                   ELSE f.params[i] \o ": " \o f.ptypes[i].ty \o (IF f.ptypes[i].req THEN "!" ELSE "") \o (IF f.ptypes[i].hasdef THEN " = " \o SrcV(f.ptypes[i].def) ELSE "")
                        \o (IF i < Len(f.params) THEN ", " ELSE "") \o SrcParams(f, i + 1)
SrcFuncs(fs, i) == IF i > Len(fs) THEN ""
                   ELSE "! " \o fs[i].name \o "(" \o SrcParams(fs[i], 1) \o ")" \o (IF fs[i].ret = "" THEN "" ELSE ": " \o fs[i].ret) \o " {\n" \o SrcB(fs[i].body, 1, 1) \o "}\n\n" \o SrcFuncs(fs, i + 1)
RECURSIVE SrcConsts(_, _)
SrcConsts(cs, i) == IF i > Len(cs) THEN "" ELSE "const " \o cs[i].n \o " = " \o SrcV(cs[i].v) \o "\n" \o (IF i = Len(cs) THEN "\n" ELSE "") \o SrcConsts(cs, i + 1)
Pre(p) == SrcConsts(p.consts, 1) \o SrcFuncs(p.funcs, 1)

(* ---- one state per program ----------------------------------------------------------------------- *)
Init == pi \in 1..Len(Progs) /\ result = [kind |-> "pending"]
Step == result.kind = "pending" /\ result' = Run(Progs[pi]) /\ UNCHANGED pi
Next == Step
Spec == Init /\ [][Next]_vars

\* the definition is total and deterministic on every program: Run yields exactly one outcome
Total == result.kind \in {"pending", "value", "error", "unrep", "toobig"}
\* scope discipline: a body ends with exactly the outermost scope left (checked inside Run by Pop/Push pairing)
EmitInv == (result.kind # "pending") =>
    PrintT(<<"CASE", ToJson([id |-> Progs[pi].id, src |-> Src(Progs[pi]), pre |-> Pre(Progs[pi]), out |-> result])>>)
=============================================================================
