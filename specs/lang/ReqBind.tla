--------------------------------- MODULE ReqBind ---------------------------------
(***************************************************************************************)
(* What a route sees of the request body (part of property C02: "request binding        *)
(* parity").  A request is (method, Content-Type, body); the route's `input` is the      *)
(* decoded object when the method may carry a body, the Content-Type announces JSON      *)
(* (absent, or beginning with "application/json") and the body is a JSON object;         *)
(* otherwise `input` is null.  The rule does not mention the engine: compiled and        *)
(* interpreted servers must both follow it.                                              *)
(* Deviation CompiledIgnoresDeleteBody: the compiled handler does not read a DELETE body *)
(* (found and repaired).                                                                 *)
(***************************************************************************************)
EXTENDS Integers, Sequences, TLC, Json

CONSTANTS Methods, ContentTypes, Bodies, Deviations

BodyMethods == {"POST", "PUT", "PATCH", "DELETE"}
AnnouncesJson(ct) == ct = "" \/ (Len(ct) >= 16 /\ SubSeq(ct, 1, 16) = "application/json")

\* input seen by the route: the set of allowed observations - "object" (the decoded body), "null", or for the JSON
\* text `null` (which Go decodes into a nil map) either null or an empty object: the property leaves that open,
\* but both engines must make the same choice (checked on the observations)
Reads(mode, m, ct) == m \in BodyMethods /\ ~(mode = "compiled" /\ m = "DELETE" /\ "CompiledIgnoresDeleteBody" \in Deviations) /\ AnnouncesJson(ct)
Input(mode, m, ct, b) ==
  IF Reads(mode, m, ct) /\ b = "object" THEN {"object"}
  ELSE IF Reads(mode, m, ct) /\ b = "null" THEN {"null", "emptyobject"}
  ELSE {"null"}

VARIABLES req, done
Init == req \in [m : Methods, ct : ContentTypes, b : Bodies] /\ done = FALSE
Next == ~done /\ done' = TRUE /\ UNCHANGED req
Spec == Init /\ [][Next]_<<req, done>>

\* the engine never shows: both modes bind the same thing
EngineBlind == Input("compiled", req.m, req.ct, req.b) = Input("interpreted", req.m, req.ct, req.b)
\* nothing but a JSON object announced as JSON is ever bound
OnlyAnnouncedObjects == "object" \in Input("interpreted", req.m, req.ct, req.b) => req.b = "object" /\ AnnouncesJson(req.ct)
EmitInv == done => PrintT(<<"CASE", ToJson([req |-> req, input |-> Input("interpreted", req.m, req.ct, req.b)])>>)
====================================================================================
