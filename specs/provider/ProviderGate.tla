---------------------------- MODULE ProviderGate ----------------------------
(***************************************************************************)
(* Calls from GlyphLang code into an injected provider object              *)
(* (pkg/interpreter: CallMethod, canonicalMethodName, the call forms of    *)
(* evaluateFunctionCall / callReceiverMethod / evaluateFieldAccess).       *)
(*                                                                         *)
(* A provider object has exported Go methods; `allowed` says whether the   *)
(* method's name is on the allow-list.  A call names a method in some      *)
(* spelling (case variants of the Go name), in some call form, with an     *)
(* argument vector of value shapes.  The documented rule:                  *)
(*   - the name is matched against the allow-list without regard to case;  *)
(*     a name that is not listed reaches nothing, however it is spelled    *)
(*     and whatever the call form;                                         *)
(*   - a listed method is invoked only with an acceptable argument vector: *)
(*     right count (variadic: at least the fixed ones), each argument      *)
(*     assignable to its parameter (null only to interface, slice, map and *)
(*     pointer parameters; integers widen to any numeric parameter, floats *)
(*     only to float parameters); otherwise the call is an error;          *)
(*   - reading a field of a provider (db.x) is table access, never a       *)
(*     method invocation;                                                  *)
(*   - the outcome is always a value or an error, never a crash.           *)
(***************************************************************************)
EXTENDS Integers, Sequences, FiniteSets, TLC

CONSTANTS Methods,     \* set of [name, params (sequence of parameter kinds), variadic, allowed, fragile]
          Spellings,   \* {"exact","lower","upper","swap","capfirst"}
          Forms,       \* {"method","nested","free","freenested","field"}
          ArgVectors   \* set of sequences of shapes

VARIABLES call, outcome
vars == <<call, outcome>>

Shapes == {"null", "int", "float", "string", "bool", "array", "object", "arraynull"}     \* arraynull: an array with a null element

ArgOK(shape, kind) ==
    CASE kind = "any" -> TRUE
      [] kind \in {"int64", "int"} -> shape = "int"
      [] kind = "float64" -> shape \in {"int", "float"}
      [] kind = "string" -> shape = "string"
      [] kind = "slice" -> shape \in {"array", "arraynull", "null"}
      [] kind = "typedslice" -> shape \in {"array", "arraynull", "null"}     \* whether elements convert is left open: see Outcome
      [] kind = "map" -> shape \in {"object", "null"}

ParamAt(m, i) == IF m.variadic /\ i >= Len(m.params) THEN m.params[Len(m.params)] ELSE m.params[i]

ArityOK(m, args) == IF m.variadic THEN Len(args) >= Len(m.params) - 1 ELSE Len(args) = Len(m.params)
ArgsOK(m, args) == \A i \in 1..Len(args) : ArgOK(args[i], ParamAt(m, i))

\* "invoked": the Go method runs with these arguments; "error": a GlyphLang-level error;
\* "table": field access returned a table object.  A fragile method panics inside the provider
\* on uncomparable arguments (array/object): that must surface as an error too.
Outcome(c) ==
    IF c.form = "field" THEN "table"
    ELSE IF ~c.m.allowed THEN "error"
    ELSE IF ~ArityOK(c.m, c.args) \/ ~ArgsOK(c.m, c.args) THEN "error"
    ELSE IF \E i \in 1..Len(c.args) : ParamAt(c.m, i) = "typedslice" /\ c.args[i] \in {"array", "arraynull"} THEN "either"   \* element conversion: accepted or refused, never a crash
    ELSE IF c.m.fragile /\ \E i \in 1..Len(c.args) : c.args[i] \in {"array", "object", "arraynull"} THEN "error-after-invoke"
    ELSE "invoked"

Calls == [m : Methods, spelling : Spellings, form : Forms, args : ArgVectors]

Init == call \in Calls /\ outcome = "pending"
Decide == outcome = "pending" /\ outcome' = Outcome(call) /\ UNCHANGED call
Next == Decide
Spec == Init /\ [][Next]_vars

\* only allow-listed operations are ever invoked, in no spelling and through no call form
OnlyAllowed == outcome \in {"invoked", "error-after-invoke", "either"} => call.m.allowed /\ call.form # "field"
\* the decision does not depend on spelling or call form (other than field access)
SpellingBlind == outcome # "pending" =>
    \A s \in Spellings, f \in Forms \ {"field"} :
        call.form # "field" => Outcome([call EXCEPT !.spelling = s, !.form = f]) = outcome
Total == outcome # "pending" => outcome \in {"invoked", "error", "table", "error-after-invoke", "either"}
=============================================================================
