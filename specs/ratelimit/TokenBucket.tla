---------------------------- MODULE TokenBucket ----------------------------
(***************************************************************************)
(* Per-client token bucket of server.RateLimitMiddleware, the mapping of a *)
(* declared `+ ratelimit(N/unit)` to bucket parameters, and client         *)
(* identity (getClientIP).                                                  *)
(*                                                                         *)
(* Time is an integer tick.  A bucket has `Burst` tokens at most and gains *)
(* `Rate` tokens per `Win` ticks: add = floor(elapsed * Rate / Win); when  *)
(* add > 0 the bucket's `last` moves to now (the fractional remainder is   *)
(* dropped, as in the code).  One Request is one atomic step: the code     *)
(* does lookup/refill/decide/decrement under a single mutex.               *)
(*                                                                         *)
(* Deviations:                                                             *)
(*  "RL_StaleEvictedBeforeRefill" an idle bucket may be forgotten (and so  *)
(*      restart full) after StaleAfter < Win ticks although it would not   *)
(*      have refilled yet (sweeper: 10 min, in-request eviction: 5 min -   *)
(*      shorter than an hour/day window).                                  *)
(***************************************************************************)
EXTENDS Integers, Sequences, FiniteSets, TLC

CONSTANTS Clients,     \* identities
          Burst, Rate, Win,      \* the bucket as it operates
          DBurst, DRate, DWin,   \* the declared limit the Bound is stated for
                                 \* (equal to Burst, Rate, Win in the design)
          StaleAfter,  \* ticks of idleness after which a bucket may be forgotten
          Remotes, Fwds,   \* address values; "" = header absent
          TrustProxy,      \* BOOLEAN
          Trusted,         \* set of trusted proxy addresses ({} = any)
          Deviations,
          RecordHist

VARIABLES now, bucket, log, hist,
          lastReq,    \* history: time of the client's previous request (-1 none)
          compliant,  \* history: every gap of the client so far was >= Win/Rate
          unfair      \* history: a request of a compliant client was refused
vars == <<now, bucket, log, hist, lastReq, compliant, unfair>>
View == <<now, bucket, log, lastReq, compliant, unfair>>

Absent == [absent |-> TRUE]
IsAbsent(b) == "absent" \in DOMAIN b

(* ---- identity -------------------------------------------------------- *)
\* a request's network-level facts: remote host, first X-Forwarded-For entry,
\* X-Real-IP ("" = header not present)
Reqs == [remote : Remotes, xff : Fwds \cup {""}, xreal : Fwds \cup {""}]

Ident(r) ==
    IF ~TrustProxy THEN r.remote
    ELSE IF Trusted # {} /\ r.remote \notin Trusted THEN r.remote
    ELSE IF r.xff # "" THEN r.xff
    ELSE IF r.xreal # "" THEN r.xreal
    ELSE r.remote

(* ---- declared limit -> bucket parameters ------------------------------ *)
\* Design: `ratelimit(n/unit)` is a bucket of n refilled at n per unit.
\* As implemented (deviation "RL_PerMinuteBudget", cmd/glyph/route_middleware.go):
\* every unit is converted to a per-minute budget that is used both as refill rate
\* per minute and as burst: sec -> 60n, hour -> ceil(n/60), day -> ceil(n/1440).
UnitMinutesNum(u) == CASE u = "sec" -> 1 [] u = "min" -> 1 [] u = "hour" -> 60 [] u = "day" -> 1440
UnitMinutesDen(u) == CASE u = "sec" -> 60 [] u = "min" -> 1 [] u = "hour" -> 1 [] u = "day" -> 1
ImplPerMinute(n, u) ==
    LET pm == CASE u = "sec" -> 60 * n
                [] u = "min" -> n
                [] u = "hour" -> (n + 59) \div 60
                [] u = "day" -> (n + 1439) \div 1440
    IN IF pm < 1 THEN 1 ELSE pm
\* window of the declared unit in ticks, given TPM ticks per minute (TPM a multiple of 60)
UnitTicks(u, TPM) == (TPM * UnitMinutesNum(u)) \div UnitMinutesDen(u)

(* ---- bucket ---------------------------------------------------------- *)
Min(a, b) == IF a < b THEN a ELSE b

Refilled(b) ==
    LET add == ((now - b.last) * Rate) \div Win IN
    IF add > 0 THEN [tokens |-> Min(Burst, b.tokens + add), last |-> now] ELSE b

Done(rec) == hist' = IF RecordHist THEN Append(hist, rec) ELSE hist

Init ==
    /\ now = 0
    /\ bucket = [c \in Clients |-> Absent]
    /\ log = <<>>
    /\ hist = <<>>
    /\ lastReq = [c \in Clients |-> -1]
    /\ compliant = [c \in Clients |-> TRUE]
    /\ unfair = FALSE

Request(r) ==
    LET c == Ident(r)
        b0 == IF IsAbsent(bucket[c]) THEN [tokens |-> Burst, last |-> now] ELSE bucket[c]
        b1 == Refilled(b0)
        comp == compliant[c] /\ (lastReq[c] = -1 \/ (now - lastReq[c]) * Rate >= Win)
    IN /\ c \in Clients
       /\ UNCHANGED now
       /\ lastReq' = [lastReq EXCEPT ![c] = now]
       /\ compliant' = [compliant EXCEPT ![c] = comp]
       /\ unfair' = (unfair \/ (comp /\ b1.tokens <= 0))
       /\ IF b1.tokens <= 0
            THEN /\ bucket' = [bucket EXCEPT ![c] = b1]
                 /\ UNCHANGED log
                 /\ Done([op |-> "Req", req |-> r, c |-> c, admitted |-> FALSE, now |-> now, tokens |-> b1.tokens])
            ELSE /\ bucket' = [bucket EXCEPT ![c] = [b1 EXCEPT !.tokens = b1.tokens - 1]]
                 /\ log' = Append(log, <<c, now>>)
                 /\ Done([op |-> "Req", req |-> r, c |-> c, admitted |-> TRUE, now |-> now, tokens |-> b1.tokens - 1])

Tick ==
    /\ now' = now + 1
    /\ UNCHANGED <<bucket, log, lastReq, compliant, unfair>>
    /\ Done([op |-> "Tick", now |-> now + 1])

\* the sweeper / in-request eviction forgets an idle bucket
Forget(c) ==
    /\ ~IsAbsent(bucket[c])
    /\ now - bucket[c].last > StaleAfter
    /\ bucket' = [bucket EXCEPT ![c] = Absent]
    /\ UNCHANGED <<now, log, lastReq, compliant, unfair>>
    /\ Done([op |-> "Forget", c |-> c, now |-> now])

Next == (\E r \in Reqs : Request(r)) \/ Tick \/ (\E c \in Clients : Forget(c))
Spec == Init /\ [][Next]_vars

(* ---- properties ------------------------------------------------------ *)
\* no client is admitted more than Burst + Rate*(T/Win) requests in any interval of
\* length T.  It suffices to look at intervals that start and end at admissions.
Bound == \A i \in 1..Len(log) : \A j \in i..Len(log) :
            LET c == log[i][1]
                n == Cardinality({k \in i..j : log[k][1] = c})
            IN log[j][1] = c => n * DWin <= DBurst * DWin + DRate * (log[j][2] - log[i][2])

TokensInRange == \A c \in Clients : IsAbsent(bucket[c]) \/ (bucket[c].tokens >= 0 /\ bucket[c].tokens <= Burst)

\* one client's request never touches another client's bucket
Isolation == [][Cardinality({d \in Clients : bucket'[d] # bucket[d]}) <= 1]_vars

\* identity cannot be chosen through headers unless proxies are trusted
IdentityUnforgeable == (~TrustProxy) => \A r \in Reqs : Ident(r) = r.remote
IdentityFromTrustedOnly == \A r \in Reqs : (Trusted # {} /\ r.remote \notin Trusted) => Ident(r) = r.remote

\* a client whose requests are all at least Win/Rate apart is never refused
CompliantNeverRejected == ~unfair
=============================================================================
