---------------------------- MODULE TokenBucketTrace ----------------------------
(* Validates RateReq events emitted under the limiter mutex against TokenBucket. *)
EXTENDS TokenBucket, Json

VARIABLE l
tvars == <<vars, l>>
Trace == ndJsonDeserialize("trace.ndjson")
N == Len(Trace)
Ev == Trace[l]

TraceInit == Init /\ l = 1 /\ TLCSet(1, 0)

TReset ==
    /\ l <= N /\ Ev.ev = "Reset"
    /\ now' = 0 /\ bucket' = [c \in Clients |-> Absent] /\ log' = <<>> /\ hist' = <<>>
    /\ lastReq' = [c \in Clients |-> -1] /\ compliant' = [c \in Clients |-> TRUE] /\ unfair' = FALSE
    /\ l' = l + 1

TReq ==
    /\ l <= N /\ Ev.ev = "Req"
    /\ \E r \in Reqs :
         /\ Ident(r) = Ev.c
         /\ Request(r)
    /\ now = Ev.now
    /\ bucket'[Ev.c].tokens = Ev.tokens
    /\ (Len(log') > Len(log)) = Ev.admitted
    /\ l' = l + 1

TTick == l <= N /\ Ev.ev = "Tick" /\ Tick /\ now' = Ev.now /\ l' = l + 1
\* a jump of the clock = several Ticks in one line
TAdvance ==
    /\ l <= N /\ Ev.ev = "Advance" /\ Ev.now > now
    /\ now' = Ev.now
    /\ UNCHANGED <<bucket, log, hist, lastReq, compliant, unfair>>
    /\ l' = l + 1

TraceNext == TReset \/ TReq \/ TTick \/ TAdvance
TraceSpec == TraceInit /\ [][TraceNext]_tvars
HighWater == TLCSet(1, IF l > TLCGet(1) THEN l ELSE TLCGet(1))
TraceAccepted == IF TLCGet(1) = N + 1 THEN TRUE ELSE PrintT(<<"REJECT", TLCGet(1)>>) /\ FALSE
=============================================================================
