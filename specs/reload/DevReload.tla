---------------------------- MODULE DevReload ----------------------------
(***************************************************************************)
(* Reload on file change: `glyph dev` (hotReloadManager.startServer) and   *)
(* the library hotreload.ReloadManager.handleChanges it is modelled on.    *)
(*                                                                         *)
(* The watched file is in one of the states                                *)
(*    "v1","v2" (valid versions) | "parse" | "sem" | "empty" | "missing"   *)
(* "empty" is a valid program without routes (every request gets 404; its  *)
(* observable version is "none").  Each reload is, under one mutex:        *)
(*    Prepare (read, parse, build routes / compile)  -> ok | fail          *)
(*    StopOld . ListenNew        (only after a successful Prepare)         *)
(* Several reloads may be requested concurrently (debounce timers); the    *)
(* mutex makes them atomic with respect to each other (`lock`).            *)
(*                                                                         *)
(* Deviations:                                                             *)
(*  "DEV_StopsBeforePrepare"  the old server is shut down first; a failing *)
(*        Prepare leaves nothing listening (code before the fix: commit)   *)
(*  "RM_NoLock"  Prepare and the switch-over of different reloads may      *)
(*        interleave (a slow older build can overwrite a newer one)        *)
(***************************************************************************)
EXTENDS Integers, Sequences, FiniteSets, TLC

CONSTANTS RefuseSwitch, \* TRUE: the server may refuse the prepared version (the library manager's Reload returns an error)
          FileStates,   \* subset of {"v1","v2","parse","sem","empty","missing"}
          MaxReloads,   \* concurrent reloads in flight
          Deviations,
          RecordHist

VARIABLES file,       \* current content class of the watched file
          serving,    \* "down" | version being served
          lastGood,   \* version of the last reload that succeeded ("down" before the first)
          rel,        \* in-flight reloads: sequence of [id, pc, snap]   (snap = file content read by Prepare)
          lock,       \* id of the reload holding the mutex, 0 = free
          nextId,
          latestOk,   \* history: count and version of the most recent successful Prepare (= the newest content read)
          hist
vars == <<file, serving, lastGood, rel, lock, nextId, latestOk, hist>>
View == <<file, serving, lastGood, rel, lock, latestOk>>

Dev(d) == d \in Deviations
Loads(f) == f \in {"v1", "v2", "empty"}
VersionOf(f) == IF f = "empty" THEN "none" ELSE f

Done(rec) == hist' = IF RecordHist THEN Append(hist, rec) ELSE hist

Init ==
    /\ file = "v1" /\ serving = "v1" /\ lastGood = "v1"     \* `glyph dev f` started on a valid file
    /\ rel = <<>> /\ lock = 0 /\ nextId = 1 /\ latestOk = [id |-> 0, v |-> "v1"] /\ hist = <<>>

Edit(f) ==
    /\ f # file
    /\ file' = f
    /\ UNCHANGED <<serving, lastGood, rel, lock, nextId, latestOk>>
    /\ Done([op |-> "Edit", f |-> f])

\* the watcher's debounce timer fires: a reload is requested
Request ==
    /\ Len(rel) < MaxReloads
    /\ rel' = Append(rel, [id |-> nextId, pc |-> "wait", snap |-> ""])
    /\ nextId' = nextId + 1
    /\ UNCHANGED <<file, serving, lastGood, lock, latestOk, hist>>

Remove(i) == [j \in 1..(Len(rel) - 1) |-> IF j < i THEN rel[j] ELSE rel[j + 1]]
HoldsOrFree(i) == Dev("RM_NoLock") \/ lock = rel[i].id

Acquire(i) ==
    /\ rel[i].pc = "wait"
    /\ Dev("RM_NoLock") \/ lock = 0
    /\ lock' = IF Dev("RM_NoLock") THEN lock ELSE rel[i].id
    /\ rel' = [rel EXCEPT ![i].pc = IF Dev("DEV_StopsBeforePrepare") THEN "stopfirst" ELSE "prepare"]
    /\ UNCHANGED <<file, serving, lastGood, nextId, latestOk, hist>>

StopFirst(i) ==    \* deviation only
    /\ rel[i].pc = "stopfirst" /\ HoldsOrFree(i)
    /\ serving' = "down"
    /\ rel' = [rel EXCEPT ![i].pc = "prepare"]
    /\ UNCHANGED <<file, lastGood, lock, nextId, latestOk, hist>>

Prepare(i) ==
    /\ rel[i].pc = "prepare" /\ HoldsOrFree(i)
    /\ IF Loads(file)
         THEN /\ rel' = [rel EXCEPT ![i].pc = IF Dev("DEV_StopsBeforePrepare") THEN "listen" ELSE "stop", ![i].snap = file]
              /\ latestOk' = [id |-> latestOk.id + 1, v |-> VersionOf(file)]
              /\ UNCHANGED <<lock, hist>>
         ELSE /\ rel' = Remove(i)
              /\ lock' = IF lock = rel[i].id THEN 0 ELSE lock
              /\ UNCHANGED latestOk
              /\ Done([op |-> "Reload", ok |-> FALSE, serving |-> serving])
    /\ UNCHANGED <<file, serving, lastGood, nextId>>

StopOld(i) ==
    /\ rel[i].pc = "stop" /\ HoldsOrFree(i)
    /\ serving' = "down"
    /\ rel' = [rel EXCEPT ![i].pc = "listen"]
    /\ UNCHANGED <<file, lastGood, lock, nextId, latestOk, hist>>

ListenNew(i) ==
    /\ rel[i].pc = "listen" /\ HoldsOrFree(i)
    /\ serving' = VersionOf(rel[i].snap)
    /\ lastGood' = VersionOf(rel[i].snap)
    /\ rel' = Remove(i)
    /\ lock' = IF lock = rel[i].id THEN 0 ELSE lock
    /\ UNCHANGED <<file, nextId, latestOk>>
    /\ Done([op |-> "Reload", ok |-> TRUE, serving |-> serving'])

\* the server refuses the version that was prepared for it: the reload fails, what ran before goes on running, and
\* nothing is remembered of the attempt - saving the same content again is a reload like any other
ListenRefused(i) ==
    /\ RefuseSwitch
    /\ rel[i].pc = "listen" /\ HoldsOrFree(i)
    /\ serving' = lastGood
    /\ latestOk' = [latestOk EXCEPT !.v = lastGood]
    /\ rel' = Remove(i)
    /\ lock' = IF lock = rel[i].id THEN 0 ELSE lock
    /\ UNCHANGED <<file, lastGood, nextId>>
    /\ Done([op |-> "Reload", ok |-> FALSE, serving |-> serving', refused |-> TRUE])

\* a client request: observes `serving`
Poll ==
    /\ UNCHANGED <<file, serving, lastGood, rel, lock, nextId, latestOk>>
    /\ Done([op |-> "Poll", got |-> serving])

Next == (\E f \in FileStates : Edit(f)) \/ Request
        \/ (\E i \in 1..Len(rel) : Acquire(i) \/ StopFirst(i) \/ Prepare(i) \/ StopOld(i) \/ ListenNew(i) \/ ListenRefused(i))
Spec == Init /\ [][Next]_vars /\ WF_vars(\E i \in 1..Len(rel) : Acquire(i) \/ StopFirst(i) \/ Prepare(i) \/ StopOld(i) \/ ListenNew(i))

----------------------------------------------------------------------------
Switching == \E i \in 1..Len(rel) : rel[i].pc \in {"stop", "listen"} /\ rel[i].snap # ""
\* outside a successful switch-over the server answers with the last version that loaded
ServesLastGood == ~Switching => serving = lastGood
NeverDownAtRest == (rel = <<>>) => serving # "down"
\* when nothing is in flight, what is served is the version most recently read successfully:
\* an older, slower build never overwrites a newer one
LaterValidWins == (rel = <<>> /\ latestOk.id > 0) => serving = latestOk.v
\* a reload in flight always completes
Completes == (rel # <<>>) ~> (rel = <<>>)
=============================================================================
