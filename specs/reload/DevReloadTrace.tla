---------------------------- MODULE DevReloadTrace ----------------------------
(* Events of overlapping reloads observed at the compiler and server boundary of
   hotreload.ReloadManager (Read v = the build read content v, Switch v = the server was
   switched to v, Edit v, Final v) must be a behaviour of DevReload: with the manager's mutex
   a Read is always followed by its own Switch before another reload reads. *)
EXTENDS DevReload, Json

VARIABLE l
tvars == <<vars, l>>
Trace == ndJsonDeserialize("trace.ndjson")
N == Len(Trace)
Ev == Trace[l]
Is(e) == l <= N /\ Trace[l].ev = e

TraceInit == Init /\ l = 1 /\ TLCSet(1, 0)

TReset ==
    /\ Is("Reset")
    /\ file' = Ev.v /\ serving' = "v1" /\ lastGood' = "v1" /\ rel' = <<>> /\ lock' = 0
    /\ nextId' = 1 /\ latestOk' = [id |-> 0, v |-> "v1"] /\ hist' = <<>>
    /\ l' = l + 1

TEdit == Is("Edit") /\ Edit(Ev.v) /\ l' = l + 1

\* silent: a reload is requested and takes the mutex
SRequest == l <= N /\ Trace[l].ev = "Read" /\ Request /\ l' = l
SAcquire == l <= N /\ Trace[l].ev = "Read" /\ (\E i \in 1..Len(rel) : Acquire(i)) /\ l' = l

TRead ==
    /\ Is("Read") /\ file = Ev.v
    /\ \E i \in 1..Len(rel) : Prepare(i)
    /\ l' = l + 1

\* silent: the old server is stopped just before the switch
SStop == l <= N /\ Trace[l].ev = "Switch" /\ (\E i \in 1..Len(rel) : StopOld(i)) /\ l' = l
TSwitch ==
    /\ Is("Switch")
    /\ \E i \in 1..Len(rel) : ListenNew(i) /\ serving' = (IF Ev.v = "none" THEN "none" ELSE Ev.v)
    /\ l' = l + 1

\* at rest, every change notification delivered: what is served is what the model serves, and a valid file on disk
\* is the version being served (a change batch must not be lost because another reload was running)
TFinal == Is("Final") /\ rel = <<>> /\ serving = Ev.v /\ (file \in {"v1", "v2"} => serving = file) /\ UNCHANGED vars /\ l' = l + 1

TraceNext == TReset \/ TEdit \/ SRequest \/ SAcquire \/ TRead \/ SStop \/ TSwitch \/ TFinal
TraceSpec == TraceInit /\ [][TraceNext]_tvars
HighWater == TLCSet(1, IF l > TLCGet(1) THEN l ELSE TLCGet(1))
TraceAccepted == IF TLCGet(1) = N + 1 THEN TRUE ELSE PrintT(<<"REJECT", TLCGet(1)>>) /\ FALSE
=============================================================================
