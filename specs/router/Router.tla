---------------------------- MODULE Router ----------------------------
(***************************************************************************)
(* Route registration and dispatch of `glyph run`.                         *)
(*                                                                         *)
(* A declaration is [m |-> method, pat |-> sequence of segments]; a        *)
(* segment is [k |-> "s", v |-> static text] or [k |-> "p", v |-> name].   *)
(* A request is [m |-> method, path |-> sequence of segment values], where *)
(* "" is an empty segment (doubled or trailing slash).                     *)
(*                                                                         *)
(* Declarative meaning (DeclMatch): among the declarations of the method   *)
(* that match the normalised path, the one with the fewest parameter       *)
(* segments; ties go to the earliest declaration.  ScanMatch is the scan   *)
(* the code performs (server.Router.Match); TLC checks that they agree on  *)
(* every table and request of the bounded space.                           *)
(*                                                                         *)
(* State machine: declarations are registered in order; in compiled mode   *)
(* each route's bytecode is stored in a table (`ctab`) and looked up again *)
(* when the handler is registered.  Design: keyed by method and pattern,   *)
(* first declaration wins.  Deviation "CLI_CompiledKeyedByPath": keyed by  *)
(* pattern only, last declaration wins (the code before the fix: commit).  *)
(***************************************************************************)
EXTENDS Integers, Sequences, FiniteSets, TLC

CONSTANTS Decls,       \* the set of declaration tables (sequences) to explore
          Requests,    \* the set of requests to explore
          Deviations

VARIABLES decls,   \* the table being served (chosen in Init)
          n,       \* number of declarations registered so far
          ctab,    \* compiled-bytecode table: key -> index of the declaration whose body it holds
          resp     \* last dispatch: [req, interp, compiled]
vars == <<decls, n, ctab, resp>>

Dev(d) == d \in Deviations

(* ---- pure matching ----------------------------------------------------- *)
Norm(path) == SelectSeq(path, LAMBDA s : s # "")

SegMatches(pat, segs) ==
    /\ Len(pat) = Len(segs)
    /\ \A i \in 1..Len(pat) : pat[i].k = "s" => pat[i].v = segs[i]

NParams(pat) == Cardinality({i \in 1..Len(pat) : pat[i].k = "p"})

Candidates(table, req) ==
    {i \in 1..Len(table) : table[i].m = req.m /\ SegMatches(table[i].pat, Norm(req.path))}

\* declarative choice; 0 = no match (404)
DeclMatch(table, req) ==
    LET C == Candidates(table, req) IN
    IF C = {} THEN 0
    ELSE CHOOSE i \in C : \A j \in C : \/ NParams(table[i].pat) < NParams(table[j].pat)
                                      \/ (NParams(table[i].pat) = NParams(table[j].pat) /\ i <= j)

\* the scan of Router.Match: keep the first candidate, replace only by strictly fewer parameters
RECURSIVE Scan(_, _, _, _)
Scan(table, req, i, best) ==
    IF i > Len(table) THEN best
    ELSE IF table[i].m = req.m /\ SegMatches(table[i].pat, Norm(req.path))
              /\ (best = 0 \/ NParams(table[i].pat) < NParams(table[best].pat))
         THEN Scan(table, req, i + 1, i)
         ELSE Scan(table, req, i + 1, best)
ScanMatch(table, req) == Scan(table, req, 1, 0)

\* parameter bindings of declaration i for the request (a set of <<name, value>> pairs)
Bind(table, req, i) ==
    LET segs == Norm(req.path) IN
    {<<table[i].pat[j].v, segs[j]>> : j \in {x \in 1..Len(table[i].pat) : table[i].pat[x].k = "p"}}

(* ---- registration and dispatch ----------------------------------------- *)
Key(d) == IF Dev("CLI_CompiledKeyedByPath") THEN <<d.pat>> ELSE <<d.m, d.pat>>

Init ==
    /\ decls \in Decls
    /\ n = 0
    /\ ctab = <<>>           \* sequence of [key, idx]
    /\ resp = [done |-> FALSE]

Lookup(key) ==   \* index stored under key (0 if none)
    LET S == {j \in 1..Len(ctab) : ctab[j].key = key} IN
    IF S = {} THEN 0 ELSE ctab[CHOOSE j \in S : TRUE].idx

\* compile declaration n+1 and store its bytecode
Compile ==
    /\ n < Len(decls)
    /\ LET d == decls[n + 1]
           k == Key(d) IN
       IF Lookup(k) = 0
         THEN ctab' = Append(ctab, [key |-> k, idx |-> n + 1])
         ELSE IF Dev("CLI_CompiledKeyedByPath")
           THEN ctab' = [j \in 1..Len(ctab) |-> IF ctab[j].key = k THEN [key |-> k, idx |-> n + 1] ELSE ctab[j]]
           ELSE UNCHANGED ctab       \* first declaration wins, as in the router
    /\ n' = n + 1
    /\ UNCHANGED <<decls, resp>>

Dispatch(req) ==
    /\ n = Len(decls)
    /\ LET i == ScanMatch(decls, req) IN
       resp' = [done |-> TRUE, req |-> req, interp |-> i,
                compiled |-> IF i = 0 THEN 0 ELSE Lookup(Key(decls[i])),
                params |-> IF i = 0 THEN {} ELSE Bind(decls, req, i)]
    /\ UNCHANGED <<decls, n, ctab>>

Next == Compile \/ \E req \in Requests : Dispatch(req)
Spec == Init /\ [][Next]_vars

(* ---- properties -------------------------------------------------------- *)
\* the scan implements the declarative rule, for every request
ScanIsDecl == n = 0 => \A req \in Requests : ScanMatch(decls, req) = DeclMatch(decls, req)

\* the body that runs is the one declared for the method and most specific pattern
Specificity ==
    n = 0 => \A req \in Requests :
        LET i == DeclMatch(decls, req)
            C == Candidates(decls, req) IN
        /\ (i = 0) <=> (C = {})
        /\ i # 0 => /\ decls[i].m = req.m
                    /\ \A j \in C : NParams(decls[i].pat) <= NParams(decls[j].pat)
                    /\ \A j \in C : NParams(decls[i].pat) = NParams(decls[j].pat) => i <= j

\* compiled mode runs the body of the very declaration the router chose
ModeAgnostic == resp.done => resp.compiled = resp.interp

\* every parameter of the chosen pattern is bound to the segment at its position
BindsAll ==
    resp.done /\ resp.interp # 0 =>
        Cardinality(resp.params) = NParams(decls[resp.interp].pat)
=============================================================================
