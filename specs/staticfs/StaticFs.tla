---------------------------- MODULE StaticFs ----------------------------
(***************************************************************************)
(* Static file serving confined to a root directory (pkg/web:              *)
(* StaticFileServer.ServeHTTP and ResponseHelper.SendFile).                *)
(*                                                                         *)
(* File system: a tree below "/top" with regular files, directories and    *)
(* symbolic links; a *layout* chooses what three names are:                *)
(*    root/d/index.html   absent | regular file | link                     *)
(*    root/l              absent | link                                    *)
(*    root/d/m            absent | link                                    *)
(*    index.html (in the root's parent)   absent | regular file            *)
(* Links point to files and directories inside and outside the root, to    *)
(* the root itself, to its parent, to a look-alike sibling ("rootx"), to a sibling spelled like the root in another letter case ("ROOT"), to   *)
(* nothing, or to themselves.  Paths are sequences of names from "/top".   *)
(*                                                                         *)
(* Real(layout, p): resolution as the OS does it (links followed at every  *)
(* component, bounded fuel for cycles).  Serve: the algorithm of web.go.   *)
(* Theorem checked by TLC for every layout and request: whatever is served *)
(* is the content of a regular file whose real location is inside the root.*)
(* Deviation "STATIC_IndexNotRechecked": the index file of a directory is  *)
(* opened without resolving and confining it again (code before the fix).  *)
(***************************************************************************)
EXTENDS Integers, Sequences, FiniteSets, TLC

CONSTANTS Layouts,      \* set of layouts [idx, l, m] to explore
          Requests,     \* set of requests [mode, segs] ; mode "static" | "sendfile"
          Deviations

VARIABLES layout, req, result
vars == <<layout, req, result>>

Dev(d) == d \in Deviations

Root == <<"root">>
IsPrefix(p, q) == Len(p) <= Len(q) /\ SubSeq(q, 1, Len(p)) = p

(* ---- the file system ---------------------------------------------------- *)
File(c) == [t |-> "file", c |-> c]
Dir == [t |-> "dir"]
Link(tg) == [t |-> "link", tg |-> tg]
None == [t |-> "none"]

\* a choice is [k |-> "absent"] | [k |-> "file"] | [k |-> "link", tg |-> path]
Choice(x) == IF x.k = "absent" THEN None ELSE IF x.k = "file" THEN File("IDX") ELSE Link(x.tg)

Node(lay, p) ==
    CASE p = <<>> -> Dir
      [] p = <<"root">> -> Dir
      [] p = <<"root", "f.txt">> -> File("F")
      [] p = <<"root", "d">> -> Dir
      [] p = <<"root", "d", "g.txt">> -> File("G")
      [] p = <<"root", "d", "index.html">> -> Choice(lay.idx)
      [] p = <<"root", "l">> -> Choice(lay.l)
      [] p = <<"root", "d", "m">> -> Choice(lay.m)
      [] p = <<"ROOT">> -> Dir                          \* a sibling whose name differs from the root's only in letter case
      [] p = <<"ROOT", "c.txt">> -> File("CASE")
      [] p = <<"rootx">> -> Dir
      [] p = <<"rootx", "s.txt">> -> File("EVIL")
      [] p = <<"out">> -> Dir
      [] p = <<"out", "secret.txt">> -> File("SECRET")
      [] p = <<"out", "index.html">> -> File("OUTIDX")
      [] p = <<"index.html">> -> IF lay.ti.k = "file" THEN File("TOPIDX") ELSE None
      [] OTHER -> None

\* resolution: [ok |-> TRUE, p |-> real path] or [ok |-> FALSE, why |-> "noent"|"notdir"|"loop"|"inval"]
RECURSIVE Walk(_, _, _, _)
Walk(lay, cur, rest, fuel) ==
    IF rest = <<>> THEN [ok |-> TRUE, p |-> cur]
    ELSE IF fuel = 0 THEN [ok |-> FALSE, why |-> "loop"]
    ELSE LET nm == Head(rest)
             tl == Tail(rest) IN
         IF nm = "nul" THEN [ok |-> FALSE, why |-> "inval"]
         ELSE IF Node(lay, cur).t # "dir" THEN [ok |-> FALSE, why |-> "notdir"]
         ELSE IF nm = "." THEN Walk(lay, cur, tl, fuel)
         ELSE IF nm = ".." THEN Walk(lay, IF cur = <<>> THEN <<>> ELSE SubSeq(cur, 1, Len(cur) - 1), tl, fuel)
         ELSE LET nd == Node(lay, Append(cur, nm)) IN
              IF nd.t = "none" THEN [ok |-> FALSE, why |-> "noent"]
              ELSE IF nd.t = "link" THEN Walk(lay, <<>>, nd.tg \o tl, fuel - 1)
              ELSE Walk(lay, Append(cur, nm), tl, fuel)

Real(lay, p) == Walk(lay, <<>>, p, 8)

(* ---- lexical cleaning ---------------------------------------------------- *)
\* path.Clean("/" + urlPath): drop "" and ".", resolve ".." lexically, never above "/"
RECURSIVE CleanAbs(_, _)
CleanAbs(segs, acc) ==
    IF segs = <<>> THEN acc
    ELSE LET s == Head(segs) IN
         IF s = "" \/ s = "." THEN CleanAbs(Tail(segs), acc)
         ELSE IF s = ".." THEN CleanAbs(Tail(segs), IF acc = <<>> THEN <<>> ELSE SubSeq(acc, 1, Len(acc) - 1))
         ELSE CleanAbs(Tail(segs), Append(acc, s))

\* filepath.Clean of a relative path joined to the root: ".." may climb out of the root lexically
RECURSIVE CleanRel(_, _)
CleanRel(segs, acc) ==   \* acc: absolute path from /top
    IF segs = <<>> THEN acc
    ELSE LET s == Head(segs) IN
         IF s = "" \/ s = "." THEN CleanRel(Tail(segs), acc)
         ELSE IF s = ".." THEN CleanRel(Tail(segs), IF acc = <<>> THEN <<>> ELSE SubSeq(acc, 1, Len(acc) - 1))
         ELSE CleanRel(Tail(segs), Append(acc, s))

(* ---- the serving algorithm ------------------------------------------------ *)
Deny(code) == [served |-> FALSE, code |-> code]
Content(lay, real) == [served |-> TRUE, content |-> Node(lay, real).c, real |-> real]

DirName(p) == IF p = <<>> THEN "top" ELSE p[Len(p)]
\* with directory listing enabled a directory without index file is listed (names only)
Listing(p) == [served |-> TRUE, content |-> "LIST:" \o DirName(p), real |-> p, listing |-> TRUE]

ServeStatic(lay, segs, list) ==
    LET cand == Root \o CleanAbs(segs, <<>>)
        r == Real(lay, cand) IN
    IF ~r.ok THEN Deny(IF r.why = "noent" THEN 404 ELSE 403)
    ELSE IF ~IsPrefix(Root, r.p) THEN Deny(403)
    ELSE IF Node(lay, r.p).t = "dir"
      THEN LET ip == Append(r.p, "index.html")
               ir == Real(lay, ip) IN
           IF ~ir.ok \/ Node(lay, ir.p).t # "file" THEN (IF list THEN Listing(r.p) ELSE Deny(403))
           ELSE IF Dev("STATIC_IndexNotRechecked") THEN Content(lay, ir.p)
           ELSE IF ~IsPrefix(Root, ir.p) THEN Deny(403)
           ELSE Content(lay, ir.p)
      ELSE Content(lay, r.p)

SendFile(lay, segs) ==
    LET cand == CleanRel(segs, Root)
        r == Real(lay, cand) IN
    IF ~r.ok THEN Deny(404)
    ELSE IF ~IsPrefix(Root, r.p) THEN Deny(403)
    ELSE IF Node(lay, r.p).t = "dir" THEN Deny(403)
    ELSE Content(lay, r.p)

Serve(lay, rq) == IF rq.mode = "static" THEN ServeStatic(lay, rq.segs, FALSE)
                  ELSE IF rq.mode = "list" THEN ServeStatic(lay, rq.segs, TRUE)
                  ELSE SendFile(lay, rq.segs)

(* ---- state machine: pick a layout, then answer requests -------------------- *)
Init == layout \in Layouts /\ req = [mode |-> "none"] /\ result = Deny(0)
Answer(rq) == req' = rq /\ result' = Serve(layout, rq) /\ UNCHANGED layout
Next == \E rq \in Requests : Answer(rq)
Spec == Init /\ [][Next]_vars

(* ---- properties -------------------------------------------------------------- *)
\* only the bytes of a regular file really located inside the root are ever returned
Confined ==
    result.served => /\ Node(layout, result.real).t = (IF "listing" \in DOMAIN result THEN "dir" ELSE "file")
                     /\ IsPrefix(Root, result.real)
                     /\ Real(layout, result.real) = [ok |-> TRUE, p |-> result.real]
NoOutsideContent == result.served => result.content \notin {"SECRET", "EVIL", "OUTIDX", "TOPIDX"}
DenyIsQuiet == ~result.served => result.code \in {0, 403, 404}
=============================================================================
