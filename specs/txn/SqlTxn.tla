---------------------------- MODULE SqlTxn ----------------------------
(***************************************************************************)
(* Database.Transaction(ctx, fn) and BulkInsert of pkg/database, at the    *)
(* level of database/sql driver calls:                                     *)
(*   Begin . (Exec ok | Exec fails)* . (Commit | Rollback [. re-panic])    *)
(* A *plan* is a sequence of jobs; a job is a transaction script (inserts  *)
(* of row ids, with a fault: the callback returns an error, panics, or the *)
(* context is cancelled, at a given position; a failing statement is       *)
(* either returned or ignored by the callback) or a bulk insert.           *)
(* Table: one PRIMARY KEY column, so inserting an existing id fails and    *)
(* has no effect.                                                          *)
(*                                                                         *)
(* Deviations:                                                             *)
(*  "TX_NoRollbackOnError"   error path returns without Rollback           *)
(*  "TX_CommitAfterPanic"    recover() commits instead of rolling back     *)
(*  "BULK_RowByRow"          bulk insert is not a single statement         *)
(***************************************************************************)
EXTENDS Integers, Sequences, FiniteSets, TLC

CONSTANTS Plans,        \* set of plans (sequences of jobs) to explore
          Deviations,
          RecordHist

VARIABLES plan, j,      \* the plan and the index of the current job
          committed,    \* durable table contents (set of ids)
          pending,      \* ids written by the open transaction
          tx,           \* "none" | "open"
          pos,          \* next script position of the current job
          ctxdead,      \* the job's context has been cancelled
          ignored,      \* a statement failed and the callback ignored it
          fired,        \* the job's fault has happened
          calls,        \* driver-level calls of the current job (observation)
          results,      \* per finished job: [res, table]
          leaked        \* a transaction was left open (connection never released)
vars == <<plan, j, committed, pending, tx, pos, ctxdead, ignored, fired, calls, results, leaked>>

Dev(d) == d \in Deviations
Job == plan[j]
Active == j <= Len(plan)

Init ==
    /\ plan \in Plans /\ j = 1 /\ committed = {} /\ pending = {} /\ tx = "none" /\ pos = 1
    /\ ctxdead = FALSE /\ ignored = FALSE /\ fired = FALSE /\ calls = <<>> /\ results = <<>> /\ leaked = FALSE

Finish(res) ==
    /\ results' = Append(results, [res |-> res, table |-> committed',
                                    calls |-> IF res \in {"committed", "commit-failed"} /\ Job.k = "tx" THEN Append(calls, "Commit")
                                              ELSE IF res = "panicked" THEN Append(calls, "Rollback") ELSE calls])
    /\ j' = j + 1 /\ pos' = 1 /\ ctxdead' = FALSE /\ ignored' = FALSE /\ fired' = FALSE /\ calls' = <<>>
    /\ UNCHANGED plan

(* ---- transaction job ---------------------------------------------------- *)
Begin ==
    /\ Active /\ Job.k = "tx" /\ tx = "none" /\ pos = 1 /\ calls = <<>>
    /\ IF leaked
         THEN \* the only connection is still held by a leaked transaction: Begin cannot succeed
              /\ committed' = committed /\ UNCHANGED <<pending, tx, leaked>>
              /\ Finish("begin-failed")
         ELSE /\ tx' = "open" /\ pending' = {} /\ calls' = <<"Begin">>
              /\ UNCHANGED <<plan, j, committed, pos, ctxdead, ignored, fired, results, leaked>>

AtFault == Job.fault.kind # "none" /\ Job.fault.at = pos /\ ~fired

\* the callback executes its next statement
Exec ==
    /\ Active /\ Job.k = "tx" /\ tx = "open" /\ pos <= Len(Job.ins) /\ ~AtFault
    /\ LET r == Job.ins[pos]
           fails == ctxdead \/ r \in committed \cup pending IN
       IF ~fails
         THEN /\ pending' = pending \cup {r} /\ calls' = Append(calls, "ExecOk") /\ pos' = pos + 1
              /\ UNCHANGED <<tx, committed, ignored, fired, results, j, plan, ctxdead, leaked>>
         ELSE IF Job.onerr = "ignore" /\ ~ctxdead
           THEN /\ calls' = Append(calls, "ExecFail") /\ pos' = pos + 1 /\ ignored' = TRUE
                /\ UNCHANGED <<tx, committed, pending, fired, results, j, plan, ctxdead, leaked>>
           ELSE \* the callback returns the statement's error
                /\ calls' = Append(calls, "ExecFail")
                /\ pos' = Len(Job.ins) + 2          \* marks "callback returned an error"
                /\ UNCHANGED <<tx, committed, pending, ignored, fired, results, j, plan, ctxdead, leaked>>

\* the context is cancelled while the callback runs: database/sql rolls the transaction back
\* itself; every later statement fails
Cancel ==
    /\ Active /\ Job.k = "tx" /\ tx = "open" /\ AtFault /\ Job.fault.kind = "cancel" /\ ~ctxdead
    /\ ctxdead' = TRUE /\ pending' = {}
    /\ calls' = Append(calls, "CtxCancel")
    /\ fired' = TRUE
    /\ UNCHANGED <<plan, j, committed, tx, pos, ignored, results, leaked>>

\* the callback returns an error of its own
\* ("ctxerr": the error wraps context.Canceled / DeadlineExceeded of an unrelated context -
\* the transaction's own context is alive, so it is an error like any other; "txdone": the error
\* wraps sql.ErrTxDone of some other, already finished transaction handle - this transaction is
\* still open and must be rolled back all the same)
ReturnsErr ==
    /\ Active /\ Job.k = "tx" /\ tx = "open" /\ AtFault /\ Job.fault.kind \in {"err", "ctxerr", "txdone"}
    /\ pos' = Len(Job.ins) + 2
    /\ fired' = TRUE
    /\ UNCHANGED <<plan, j, committed, pending, tx, ctxdead, ignored, calls, results, leaked>>

Rollback ==
    /\ Active /\ Job.k = "tx" /\ tx = "open" /\ pos = Len(Job.ins) + 2
    /\ IF Dev("TX_NoRollbackOnError")
         THEN /\ leaked' = TRUE /\ UNCHANGED committed
         ELSE /\ UNCHANGED leaked /\ committed' = committed
    /\ tx' = "none" /\ pending' = {} /\ calls' = <<>>
    /\ results' = Append(results, [res |-> "rolledback", table |-> committed,
                                    calls |-> IF Dev("TX_NoRollbackOnError") THEN calls ELSE Append(calls, "Rollback")])
    /\ j' = j + 1 /\ pos' = 1 /\ ctxdead' = FALSE /\ ignored' = FALSE /\ fired' = FALSE
    /\ UNCHANGED plan

Panics ==
    /\ Active /\ Job.k = "tx" /\ tx = "open" /\ AtFault /\ Job.fault.kind = "panic"
    /\ tx' = "none" /\ pending' = {}
    /\ committed' = IF Dev("TX_CommitAfterPanic") THEN committed \cup pending ELSE committed
    /\ UNCHANGED leaked
    /\ Finish("panicked")

\* the callback returned nil
Commit ==
    /\ Active /\ Job.k = "tx" /\ tx = "open" /\ pos = Len(Job.ins) + 1 /\ ~AtFault
    /\ tx' = "none" /\ pending' = {}
    /\ UNCHANGED leaked
    /\ IF ctxdead
         THEN \* Commit on a transaction the context already rolled back fails
              /\ committed' = committed /\ Finish("commit-failed")
         ELSE /\ committed' = committed \cup pending /\ Finish("committed")

(* ---- bulk insert job ------------------------------------------------------- *)
NoDup(s) == \A a, b \in 1..Len(s) : s[a] = s[b] => a = b
Bulk ==
    /\ Active /\ Job.k = "bulk" /\ tx = "none"
    /\ LET rows == Job.ins
           \* pad = 1: a block of many more rows (id 1000 stands for the whole block) precedes the listed ones
           S == {rows[i] : i \in 1..Len(rows)} \cup (IF Job.pad = 1 THEN {1000} ELSE {})
           ok == NoDup(rows) /\ S \cap committed = {} IN
       IF leaked THEN /\ committed' = committed /\ Finish("begin-failed")
       ELSE IF ok THEN /\ committed' = committed \cup S /\ Finish("committed")
       ELSE IF Dev("BULK_RowByRow")
         THEN \* rows before the first offending one stay
              LET bad == CHOOSE i \in 1..Len(rows) : (rows[i] \in committed \/ \E a \in 1..(i - 1) : rows[a] = rows[i])
                                  /\ \A b \in 1..(i - 1) : ~(rows[b] \in committed \/ \E a \in 1..(b - 1) : rows[a] = rows[b]) IN
              /\ committed' = committed \cup {rows[i] : i \in 1..(bad - 1)} \cup (IF Job.pad = 1 THEN {1000} ELSE {}) /\ Finish("failed")
         ELSE /\ committed' = committed /\ Finish("failed")
    /\ UNCHANGED <<pending, tx, leaked>>

Next == Begin \/ Exec \/ Cancel \/ ReturnsErr \/ Rollback \/ Panics \/ Commit \/ Bulk
Spec == Init /\ [][Next]_vars

(* ---- properties -------------------------------------------------------------- *)
Before(i) == IF i = 1 THEN {} ELSE results[i - 1].table
Rows(job) == {job.ins[i] : i \in 1..Len(job.ins)} \cup (IF job.pad = 1 THEN {1000} ELSE {})

\* every finished job left either exactly its successful writes (and only when it reported
\* success) or nothing
Atomic ==
    \A i \in 1..Len(results) :
        LET b == Before(i)
            t == results[i].table IN
        /\ results[i].res # "committed" => t = b
        /\ results[i].res = "committed" => b \subseteq t /\ t \subseteq b \cup Rows(plan[i])
        /\ (results[i].res = "committed" /\ plan[i].k = "bulk") => t = b \cup Rows(plan[i])
ConnUsable == ~leaked
NothingPendingAtRest == tx = "none" => pending = {}
=============================================================================
