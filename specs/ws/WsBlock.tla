---------------------------- MODULE WsBlock ----------------------------
(* One connection's outbound queue under the "block" back-pressure         *)
(* strategy, at the grain of its locks (pkg/websocket/connection.go):      *)
(*                                                                         *)
(*   Send:      sendMu.RLock; if sendClosed -> "closed"; try to enqueue;   *)
(*              queue full -> wait, STILL HOLDING the read lock, for room  *)
(*              in the queue or for `done` to be closed; RUnlock           *)
(*   closeSend: close(done); sendMu.Lock; sendClosed := true; close(send); *)
(*              Unlock        (the hub calls it on unregister / eviction)  *)
(*   Drain:     the write pump takes one message (while the queue is open) *)
(*                                                                         *)
(* The order inside closeSend is the point: `done` must be closed BEFORE   *)
(* the write lock is requested, because a blocked sender keeps the read    *)
(* lock until `done` wakes it.  Deviation "DoneUnderLock" closes `done`    *)
(* inside the locked section: the hub then waits for the lock, the sender  *)
(* for `done`, and the hub never serves another request.                   *)
(*                                                                         *)
(* Properties: HubReturns (closeSend always finishes), SendersReturn (no   *)
(* sender waits for ever once the hub has been asked to close the          *)
(* connection), NoSendOnClosed (nothing is enqueued after close(send):     *)
(* that would be a panic in Go).                                           *)
EXTENDS Naturals, Sequences, FiniteSets, TLC

CONSTANTS Senders,      \* sender ids
          QCap,         \* queue capacity
          MaxMsgs,      \* messages each sender tries to send
          PumpRuns,     \* whether a write pump drains the queue
          Deviations

VARIABLES rlock,        \* set of senders holding sendMu.RLock
          wlock,        \* hub holds sendMu.Lock
          done,         \* `done` closed
          sendClosed,
          qlen,
          spc,          \* sender -> "idle" | "locked" | "waiting" | "unlock"
          sres,         \* sender -> result of the last Send ("", "queued", "closed")
          sent,         \* sender -> number of Send calls made
          hpc,          \* hub: "idle" | "asked" | "doneClosed" | "wantLock" | "locked" | "finished"
          crashed       \* a send on a closed channel happened

vars == <<rlock, wlock, done, sendClosed, qlen, spc, sres, sent, hpc, crashed>>
Dev(d) == d \in Deviations

Init == /\ rlock = {} /\ wlock = FALSE /\ done = FALSE /\ sendClosed = FALSE /\ qlen = 0
        /\ spc = [s \in Senders |-> "idle"] /\ sres = [s \in Senders |-> ""] /\ sent = [s \in Senders |-> 0]
        /\ hpc = "idle" /\ crashed = FALSE

\* ---- a sender -------------------------------------------------------------------------
SendLock(s) == /\ spc[s] = "idle" /\ sent[s] < MaxMsgs /\ ~wlock
               /\ rlock' = rlock \cup {s} /\ spc' = [spc EXCEPT ![s] = "locked"] /\ sent' = [sent EXCEPT ![s] = @ + 1]
               /\ UNCHANGED <<wlock, done, sendClosed, qlen, sres, hpc, crashed>>
SendTry(s) == /\ spc[s] = "locked"
              /\ IF sendClosed
                   THEN /\ sres' = [sres EXCEPT ![s] = "closed"] /\ spc' = [spc EXCEPT ![s] = "unlock"] /\ UNCHANGED qlen
                   ELSE IF qlen < QCap
                     THEN /\ qlen' = qlen + 1 /\ sres' = [sres EXCEPT ![s] = "queued"] /\ spc' = [spc EXCEPT ![s] = "unlock"]
                     ELSE /\ spc' = [spc EXCEPT ![s] = "waiting"] /\ UNCHANGED <<qlen, sres>>
              /\ UNCHANGED <<rlock, wlock, done, sendClosed, sent, hpc, crashed>>
\* blocked: room in the queue, or done closed (either may be taken when both are ready, as a Go select does)
SendWakeRoom(s) == /\ spc[s] = "waiting" /\ qlen < QCap
                   /\ crashed' = (crashed \/ sendClosed)          \* cannot be: the write lock is needed to close send
                   /\ qlen' = qlen + 1 /\ sres' = [sres EXCEPT ![s] = "queued"] /\ spc' = [spc EXCEPT ![s] = "unlock"]
                   /\ UNCHANGED <<rlock, wlock, done, sendClosed, sent, hpc>>
SendWakeDone(s) == /\ spc[s] = "waiting" /\ done
                   /\ sres' = [sres EXCEPT ![s] = "closed"] /\ spc' = [spc EXCEPT ![s] = "unlock"]
                   /\ UNCHANGED <<rlock, wlock, done, sendClosed, qlen, sent, hpc, crashed>>
SendUnlock(s) == /\ spc[s] = "unlock"
                 /\ rlock' = rlock \ {s} /\ spc' = [spc EXCEPT ![s] = "idle"]
                 /\ UNCHANGED <<wlock, done, sendClosed, qlen, sres, sent, hpc, crashed>>

\* ---- the write pump ---------------------------------------------------------------------
Drain == /\ PumpRuns /\ qlen > 0 /\ ~sendClosed
         /\ qlen' = qlen - 1
         /\ UNCHANGED <<rlock, wlock, done, sendClosed, spc, sres, sent, hpc, crashed>>

\* ---- the hub: unregister / evict -> closeSend ---------------------------------------------
HubAsk == /\ hpc = "idle" /\ hpc' = "asked"
          /\ UNCHANGED <<rlock, wlock, done, sendClosed, qlen, spc, sres, sent, crashed>>
HubCloseDone == /\ hpc = "asked" /\ ~Dev("DoneUnderLock")
                /\ done' = TRUE /\ hpc' = "wantLock"
                /\ UNCHANGED <<rlock, wlock, sendClosed, qlen, spc, sres, sent, crashed>>
HubSkipDone == /\ hpc = "asked" /\ Dev("DoneUnderLock")
               /\ hpc' = "wantLock"
               /\ UNCHANGED <<rlock, wlock, done, sendClosed, qlen, spc, sres, sent, crashed>>
HubLock == /\ hpc = "wantLock" /\ rlock = {}
           /\ wlock' = TRUE /\ hpc' = "locked"
           /\ UNCHANGED <<rlock, done, sendClosed, qlen, spc, sres, sent, crashed>>
HubClose == /\ hpc = "locked"
            /\ sendClosed' = TRUE /\ done' = TRUE /\ wlock' = FALSE /\ hpc' = "finished"
            /\ UNCHANGED <<rlock, qlen, spc, sres, sent, crashed>>

Next == \/ \E s \in Senders : SendLock(s) \/ SendTry(s) \/ SendWakeRoom(s) \/ SendWakeDone(s) \/ SendUnlock(s)
        \/ Drain \/ HubAsk \/ HubCloseDone \/ HubSkipDone \/ HubLock \/ HubClose
        \/ (hpc = "finished" /\ \A s \in Senders : spc[s] = "idle" /\ sent[s] = MaxMsgs /\ UNCHANGED vars)

Fair == /\ \A s \in Senders : WF_vars(SendTry(s)) /\ WF_vars(SendWakeDone(s)) /\ WF_vars(SendUnlock(s)) /\ WF_vars(SendLock(s))
        /\ WF_vars(HubCloseDone) /\ WF_vars(HubSkipDone) /\ WF_vars(HubLock) /\ WF_vars(HubClose) /\ WF_vars(HubAsk)
        /\ WF_vars(Drain)
Spec == Init /\ [][Next]_vars /\ Fair

TypeOK == /\ rlock \subseteq Senders /\ wlock \in BOOLEAN /\ qlen \in 0..QCap /\ hpc \in {"idle", "asked", "wantLock", "locked", "finished"}
          /\ \A s \in Senders : spc[s] \in {"idle", "locked", "waiting", "unlock"}
LockDiscipline == ~(wlock /\ rlock # {})
NoSendOnClosed == ~crashed
HeldOnlyWhileSending == \A s \in Senders : (s \in rlock) <=> (spc[s] # "idle")
\* the hub's closeSend finishes, whatever the senders do
HubReturns == (hpc = "asked") ~> (hpc = "finished")
\* no sender stays blocked once the connection is being closed
SendersReturn == \A s \in Senders : (spc[s] = "waiting" /\ hpc = "asked") ~> (spc[s] = "idle")
=============================================================================
