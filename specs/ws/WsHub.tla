---------------------------- MODULE WsHub ----------------------------
(***************************************************************************)
(* WebSocket hub, rooms and connections (pkg/websocket), one action per    *)
(* critical section of the code:                                           *)
(*                                                                         *)
(*  hub loop (one goroutine, commands taken from its channels):            *)
(*    HubRegister / HubRegisterReject                                      *)
(*    HubUnreg1 (drop from connection set, connMu) . HubCloseSend (sendMu) *)
(*      . HubMarkClosed (roomsMu) . HubRoomRemove(r)* (room.mu each)       *)
(*      . HubClearView (roomsMu)                                           *)
(*    HubBroadcastStep(c): enqueue, or evict a connection whose queue is   *)
(*      full (same tear-down steps)                                        *)
(*    HubRoomCast(r): under room.mu (read) - membership frozen             *)
(*  handler goroutines (any number, one operation per connection at a time *)
(*  because JoinRoom/LeaveRoom hold the connection's roomsMu throughout):  *)
(*    JoinBegin . JoinAdd . JoinMark      LeaveBegin . LeaveRemove         *)
(*    Send (sendMu read lock)             Drain (the write pump)           *)
(*                                                                         *)
(* Deviations = the code before the fix: commits:                          *)
(*  "WS_JoinMarksBeforeAdd"  own view marked before (and regardless of)    *)
(*        the capacity check; no roomsMu across the join                   *)
(*  "WS_NoClosedFlag"  a disconnected connection can still join rooms;     *)
(*        its own view is never cleared                                    *)
(*  "WS_UnguardedSend"  senders do not look at the closed flag: a send on  *)
(*        a closed queue is a crash (variable `crashed`)                   *)
(***************************************************************************)
EXTENDS Integers, Sequences, FiniteSets, TLC

CONSTANTS Conns, Rooms, Msgs,
          MaxConns,     \* 0 = unlimited
          RoomCap,      \* 0 = unlimited
          QCap,         \* capacity of a connection's outbound queue
          Strategy,     \* "drop_newest" | "drop_oldest" | "block"
          Serial,       \* TRUE: an operation runs to completion before the next starts (replay configs)
          Deviations,
          RecordHist

VARIABLES life,        \* c -> "new" | "pending" (register requested) | "live" | "gone" | "rejected"
          registered,  \* the hub's connection set
          open,        \* c -> outbound queue not closed
          closed,      \* c -> closed flag (joins refused)
          q,           \* c -> outbound queue
          members,     \* r -> set of connections
          view,        \* c -> set of rooms (the connection's own view)
          mu,          \* c -> holder of the connection's roomsMu: "free" | "op" | "hub"
          hub,         \* hub loop state: [pc |-> "idle"] or the operation in progress
          pend,        \* pending hub commands (set of records)
          cop,         \* c -> handler operation in progress: [pc |-> "idle"] | [pc, r]
          crashed,     \* a send on a closed queue happened
          hist
vars == <<life, registered, open, closed, q, members, view, mu, hub, pend, cop, crashed, hist>>
View == <<life, registered, open, closed, q, members, view, mu, hub, pend, cop, crashed>>

Dev(d) == d \in Deviations
H(pc, c, why, rest, m, todo) == [pc |-> pc, c |-> c, why |-> why, rest |-> rest, m |-> m, todo |-> todo]
Idle == H("idle", "", "", {}, "", {})
CIdle == [pc |-> "idle", r |-> ""]

Busy == hub.pc # "idle" \/ \E c \in Conns : cop[c].pc # "idle"
\* in Serial mode a new operation may start only when nothing is in progress
\* and the hub has no command pending
MayStart == ~Serial \/ (~Busy /\ pend = {})

Done(rec) == hist' = IF RecordHist THEN Append(hist, rec) ELSE hist
Proj == [registered |-> registered', open |-> open', members |-> members', view |-> view',
         qlen |-> [c \in Conns |-> Len(q'[c])], closed |-> closed']
NoHist == UNCHANGED hist

Init ==
    /\ life = [c \in Conns |-> "new"]
    /\ registered = {}
    /\ open = [c \in Conns |-> TRUE]
    /\ closed = [c \in Conns |-> FALSE]
    /\ q = [c \in Conns |-> <<>>]
    /\ members = [r \in Rooms |-> {}]
    /\ view = [c \in Conns |-> {}]
    /\ mu = [c \in Conns |-> "free"]
    /\ hub = Idle
    /\ pend = {}
    /\ cop = [c \in Conns |-> CIdle]
    /\ crashed = FALSE
    /\ hist = <<>>

(* ---- requests to the hub (channel sends) ------------------------------- *)
ReqRegister(c) ==
    /\ UNCHANGED <<registered, open, closed, q, members, view, mu, hub, cop, crashed>>
    /\ MayStart /\ life[c] = "new"
    /\ life' = [life EXCEPT ![c] = "pending"]
    /\ pend' = pend \cup {[k |-> "reg", c |-> c]}
    /\ NoHist

ReqUnregister(c) ==   \* the read pump ends, or Close(): may be asked for any known connection, repeatedly - also for
                      \* one whose registration the hub refused (the hub finds nothing and does nothing)
    /\ UNCHANGED <<life, registered, open, closed, q, members, view, mu, hub, cop, crashed>>
    /\ MayStart /\ life[c] \in {"live", "gone", "rejected"}
    /\ [k |-> "unreg", c |-> c] \notin pend
    /\ pend' = pend \cup {[k |-> "unreg", c |-> c]}
    /\ NoHist

ReqBroadcast(m) ==
    /\ UNCHANGED <<life, registered, open, closed, q, members, view, mu, hub, cop, crashed>>
    /\ MayStart /\ [k |-> "bcast", m |-> m] \notin pend
    /\ pend' = pend \cup {[k |-> "bcast", m |-> m]}
    /\ NoHist

ReqRoomCast(r, m) ==
    /\ UNCHANGED <<life, registered, open, closed, q, members, view, mu, hub, cop, crashed>>
    /\ MayStart /\ [k |-> "room", r |-> r, m |-> m] \notin pend
    /\ pend' = pend \cup {[k |-> "room", r |-> r, m |-> m]}
    /\ NoHist

(* ---- hub loop ------------------------------------------------------------- *)
HubRegister ==
    /\ UNCHANGED <<open, closed, q, members, view, mu, hub, cop, crashed>>
    /\ hub.pc = "idle"
    /\ \E cmd \in pend :
        /\ cmd.k = "reg"
        /\ pend' = pend \ {cmd}
        /\ IF MaxConns > 0 /\ Cardinality(registered) >= MaxConns
             THEN /\ life' = [life EXCEPT ![cmd.c] = "rejected"]
                  /\ UNCHANGED registered
                  /\ Done([op |-> "Register", c |-> cmd.c, ok |-> FALSE, st |-> Proj])
             ELSE /\ registered' = registered \cup {cmd.c}
                  /\ life' = [life EXCEPT ![cmd.c] = "live"]
                  /\ Done([op |-> "Register", c |-> cmd.c, ok |-> TRUE, st |-> Proj])

\* tear-down of connection c, shared by unregister and eviction:
\*   "close" -> "mark" -> "rooms" (one room per step) -> "clear" -> idle
HubUnreg1 ==
    /\ UNCHANGED <<open, closed, q, members, view, mu, cop, crashed>>
    /\ hub.pc = "idle"
    /\ \E cmd \in pend :
        /\ cmd.k = "unreg"
        /\ pend' = pend \ {cmd}
        /\ IF cmd.c \in registered
             THEN /\ registered' = registered \ {cmd.c}
                  /\ life' = [life EXCEPT ![cmd.c] = "gone"]
                  /\ hub' = H("close", cmd.c, "Unregister", {}, "", {})
                  /\ NoHist
             ELSE /\ UNCHANGED <<registered, life, hub>>
                  /\ Done([op |-> "Unregister", c |-> cmd.c, ok |-> FALSE, st |-> Proj])

HubCloseSend ==
    /\ UNCHANGED <<life, registered, closed, q, members, view, mu, pend, cop, crashed>>
    /\ hub.pc = "close"
    /\ open' = [open EXCEPT ![hub.c] = FALSE]
    /\ hub' = [hub EXCEPT !.pc = "mark"]
    /\ NoHist

HubMarkClosed ==
    /\ UNCHANGED <<life, registered, open, q, members, view, mu, pend, cop, crashed>>
    /\ hub.pc = "mark"
    /\ mu[hub.c] = "free"                      \* roomsMu
    /\ closed' = [closed EXCEPT ![hub.c] = ~Dev("WS_NoClosedFlag")]
    /\ hub' = [hub EXCEPT !.pc = "rooms", !.todo = Rooms]
    /\ NoHist

HubRoomRemove ==
    /\ UNCHANGED <<life, registered, open, closed, q, view, mu, pend, cop, crashed>>
    /\ hub.pc = "rooms"
    /\ IF hub.todo = {}
         THEN /\ hub' = [hub EXCEPT !.pc = "clear"]
              /\ UNCHANGED members
         ELSE \E r \in hub.todo :
              /\ members' = [members EXCEPT ![r] = members[r] \ {hub.c}]
              /\ hub' = [hub EXCEPT !.todo = hub.todo \ {r}]
    /\ NoHist

HubClearView ==
    /\ UNCHANGED <<life, registered, open, closed, q, members, mu, pend, cop, crashed>>
    /\ hub.pc = "clear"
    /\ mu[hub.c] = "free"
    /\ view' = IF Dev("WS_NoClosedFlag") THEN view ELSE [view EXCEPT ![hub.c] = {}]
    /\ IF hub.why = "Unregister"
         THEN /\ hub' = Idle
              /\ Done([op |-> "Unregister", c |-> hub.c, ok |-> TRUE, st |-> Proj])
         ELSE \* eviction during a broadcast: continue with the remaining connections
              /\ hub' = H("bcast", "", "", hub.rest, hub.m, {})
              /\ NoHist

HubBroadcastBegin ==
    /\ UNCHANGED <<life, registered, open, closed, q, members, view, mu, cop, crashed>>
    /\ hub.pc = "idle"
    /\ \E cmd \in pend :
        /\ cmd.k = "bcast"
        /\ pend' = pend \ {cmd}
        /\ hub' = H("bcast", "", "", registered, cmd.m, {})
    /\ NoHist

HubBroadcastStep ==
    /\ UNCHANGED <<open, closed, members, view, mu, pend, cop, crashed>>
    /\ hub.pc = "bcast"
    /\ IF hub.rest = {}
         THEN /\ hub' = Idle
              /\ UNCHANGED <<q, registered, life>>
              /\ Done([op |-> "Broadcast", m |-> hub.m, st |-> Proj])
         ELSE \E c \in hub.rest :
              IF Len(q[c]) < QCap
                THEN /\ q' = [q EXCEPT ![c] = Append(q[c], hub.m)]
                     /\ hub' = [hub EXCEPT !.rest = hub.rest \ {c}]
                     /\ UNCHANGED <<registered, life>> /\ NoHist
                ELSE \* slow consumer: evict
                     /\ registered' = registered \ {c}
                     /\ life' = [life EXCEPT ![c] = "gone"]
                     /\ hub' = H("close", c, "Evict", hub.rest \ {c}, hub.m, {})
                     /\ UNCHANGED q /\ NoHist

\* room broadcast: room.mu (read) is held for the whole loop, so membership is frozen;
\* each member's queue takes the message if it is open and has space
HubRoomCast ==
    /\ UNCHANGED <<life, registered, open, closed, members, view, mu, hub, cop>>
    /\ hub.pc = "idle"
    /\ \E cmd \in pend :
        /\ cmd.k = "room"
        /\ pend' = pend \ {cmd}
        /\ crashed' = (crashed \/ (Dev("WS_UnguardedSend") /\ \E c \in members[cmd.r] : ~open[c]))
        /\ q' = [c \in Conns |-> IF c \in members[cmd.r] /\ open[c] /\ Len(q[c]) < QCap
                                   THEN Append(q[c], cmd.m) ELSE q[c]]
        /\ Done([op |-> "RoomCast", r |-> cmd.r, m |-> cmd.m, st |-> Proj])

(* ---- handler goroutines --------------------------------------------------- *)
Known(c) == life[c] \in {"pending", "live", "gone"}   \* a handler may hold a connection before the hub has
                                                    \* processed its registration and after it is gone

JoinBegin(c, r) ==
    /\ UNCHANGED <<life, registered, open, closed, q, members, hub, pend, crashed>>
    /\ MayStart /\ Known(c) /\ cop[c].pc = "idle"
    /\ IF Dev("WS_JoinMarksBeforeAdd")
         THEN \* old code: mark the view first, without holding the lock across
              /\ view' = [view EXCEPT ![c] = view[c] \cup {r}]
              /\ cop' = [cop EXCEPT ![c] = [pc |-> "add", r |-> r]]
              /\ UNCHANGED mu /\ NoHist
         ELSE /\ mu[c] = "free"
              /\ IF closed[c]
                   THEN /\ UNCHANGED <<mu, cop, view>>
                        /\ Done([op |-> "Join", c |-> c, r |-> r, ok |-> FALSE, st |-> Proj])
                   ELSE /\ mu' = [mu EXCEPT ![c] = "op"]
                        /\ cop' = [cop EXCEPT ![c] = [pc |-> "add", r |-> r]]
                        /\ UNCHANGED view /\ NoHist

JoinAdd(c) ==
    /\ UNCHANGED <<life, registered, open, closed, q, view, hub, pend, crashed>>
    /\ cop[c].pc = "add"
    /\ LET r == cop[c].r IN
       IF RoomCap > 0 /\ Cardinality(members[r]) >= RoomCap
         THEN \* room full (also for a member joining again: nothing changes); ok = "is a member afterwards"
              /\ UNCHANGED members
              /\ cop' = [cop EXCEPT ![c] = CIdle]
              /\ mu' = [mu EXCEPT ![c] = "free"]
              /\ Done([op |-> "Join", c |-> c, r |-> r, ok |-> (c \in members[r]), st |-> Proj])
         ELSE /\ members' = [members EXCEPT ![r] = members[r] \cup {c}]
              /\ IF Dev("WS_JoinMarksBeforeAdd")
                   THEN /\ cop' = [cop EXCEPT ![c] = CIdle]
                        /\ UNCHANGED mu
                        /\ Done([op |-> "Join", c |-> c, r |-> r, ok |-> TRUE, st |-> Proj])
                   ELSE /\ cop' = [cop EXCEPT ![c] = [pc |-> "mark", r |-> r]]
                        /\ UNCHANGED mu /\ NoHist

JoinMark(c) ==
    /\ UNCHANGED <<life, registered, open, closed, q, members, hub, pend, crashed>>
    /\ cop[c].pc = "mark"
    /\ view' = [view EXCEPT ![c] = view[c] \cup {cop[c].r}]
    /\ cop' = [cop EXCEPT ![c] = CIdle]
    /\ mu' = [mu EXCEPT ![c] = "free"]
    /\ Done([op |-> "Join", c |-> c, r |-> cop[c].r, ok |-> TRUE, st |-> Proj])

LeaveBegin(c, r) ==
    /\ UNCHANGED <<life, registered, open, closed, q, members, hub, pend, crashed>>
    /\ MayStart /\ Known(c) /\ cop[c].pc = "idle"
    /\ mu[c] = "free"
    /\ mu' = [mu EXCEPT ![c] = "op"]
    /\ view' = [view EXCEPT ![c] = view[c] \ {r}]
    /\ cop' = [cop EXCEPT ![c] = [pc |-> "remove", r |-> r]]
    /\ NoHist

LeaveRemove(c) ==
    /\ UNCHANGED <<life, registered, open, closed, q, view, hub, pend, crashed>>
    /\ cop[c].pc = "remove"
    /\ members' = [members EXCEPT ![cop[c].r] = members[cop[c].r] \ {c}]
    /\ cop' = [cop EXCEPT ![c] = CIdle]
    /\ mu' = [mu EXCEPT ![c] = "free"]
    /\ Done([op |-> "Leave", c |-> c, r |-> cop[c].r, st |-> Proj])

\* Connection.Send from a handler
Send(c, m) ==
    /\ UNCHANGED <<life, registered, open, closed, members, view, mu, hub, pend, cop>>
    /\ MayStart /\ Known(c)
    /\ IF ~open[c]
         THEN /\ crashed' = (crashed \/ Dev("WS_UnguardedSend"))
              /\ UNCHANGED q
              /\ Done([op |-> "Send", c |-> c, m |-> m, res |-> "closed", st |-> Proj])
         ELSE /\ UNCHANGED crashed
              /\ IF Len(q[c]) < QCap
                   THEN /\ q' = [q EXCEPT ![c] = Append(q[c], m)]
                        /\ Done([op |-> "Send", c |-> c, m |-> m, res |-> "queued", st |-> Proj])
                   ELSE IF Strategy = "drop_oldest" /\ QCap > 0
                     THEN /\ q' = [q EXCEPT ![c] = Append(Tail(q[c]), m)]
                          /\ Done([op |-> "Send", c |-> c, m |-> m, res |-> "queued", st |-> Proj])
                     ELSE IF Strategy = "drop_newest"
                       THEN /\ UNCHANGED q
                            /\ Done([op |-> "Send", c |-> c, m |-> m, res |-> "dropped", st |-> Proj])
                       ELSE \* block: the caller waits (not modelled as a step); nothing happens now
                            /\ FALSE

Drain(c) ==
    /\ UNCHANGED <<life, registered, open, closed, members, view, mu, hub, pend, cop, crashed>>
    /\ MayStart /\ q[c] # <<>>
    /\ q' = [q EXCEPT ![c] = Tail(q[c])]
    /\ Done([op |-> "Drain", c |-> c, m |-> Head(q[c]), st |-> Proj])

HubStep == HubRegister \/ HubUnreg1 \/ HubCloseSend \/ HubMarkClosed \/ HubRoomRemove \/ HubClearView
           \/ HubBroadcastBegin \/ HubBroadcastStep \/ HubRoomCast
OpStep == \E c \in Conns : JoinAdd(c) \/ JoinMark(c) \/ LeaveRemove(c)
Start == \/ \E c \in Conns : ReqRegister(c) \/ ReqUnregister(c) \/ Drain(c)
         \/ \E m \in Msgs : ReqBroadcast(m)
         \/ \E r \in Rooms, m \in Msgs : ReqRoomCast(r, m)
         \/ \E c \in Conns, r \in Rooms : JoinBegin(c, r) \/ LeaveBegin(c, r)
         \/ \E c \in Conns, m \in Msgs : Send(c, m)

Next == HubStep \/ OpStep \/ Start
\* the hub competes with handlers for a connection's roomsMu: strong fairness = the mutex is not starved
Spec == Init /\ [][Next]_vars /\ SF_vars(HubStep)
        /\ \A c \in Conns : WF_vars(JoinAdd(c) \/ JoinMark(c) \/ LeaveRemove(c))

(* ---- properties ----------------------------------------------------------- *)
NoCrash == ~crashed
Limits == /\ (MaxConns > 0 => Cardinality(registered) <= MaxConns)
          /\ (RoomCap > 0 => \A r \in Rooms : Cardinality(members[r]) <= RoomCap)
          /\ \A c \in Conns : Len(q[c]) <= QCap
\* when nothing is in progress on c, its own view is exactly the rooms it is a member of
AtRest(c) == cop[c].pc = "idle" /\ ~(hub.pc \in {"close", "mark", "rooms", "clear"} /\ hub.c = c)
ViewsAgreeAtRest == \A c \in Conns : AtRest(c) => \A r \in Rooms : (r \in view[c] <=> c \in members[r])
\* a disconnected connection is in no room and its queue is closed
ClosedIsNowhere == \A c \in Conns : (AtRest(c) /\ life[c] = "gone" /\ [k |-> "unreg", c |-> c] \notin pend)
                        => (c \notin registered /\ (\A r \in Rooms : c \notin members[r]))
\* nothing is ever queued for a connection after its queue is closed (queues only shrink then)
ClosedQueuesOnlyShrink == [][\A c \in Conns : ~open[c] => Len(q'[c]) <= Len(q[c])]_vars
\* a registered connection has an open queue
RegisteredOpen == \A c \in registered : open[c]
\* the hub always gets back to its select loop, and every handler operation returns
HubReturns == (hub.pc # "idle") ~> (hub.pc = "idle")
OpsReturn == \A c \in Conns : (cop[c].pc # "idle") ~> (cop[c].pc = "idle")
=============================================================================
