---------------------------- MODULE WsHubTrace ----------------------------
(***************************************************************************)
(* Validates the hook events of pkg/websocket (one per critical section,   *)
(* globally sequenced while the protecting lock is held) against WsHub.    *)
(* Membership, registration, queue-open, closed-flag and view state are    *)
(* followed exactly with the actions of WsHub; queue contents are not      *)
(* followed (drains are not ordered against sends), so for sends the trace *)
(* checks the safety side only: nothing is queued on a closed queue, and a *)
(* room message is queued only for a member of that room while the room's  *)
(* lock is held.  Requests to the hub (channel sends) are not logged:      *)
(* silent Req* steps are composed before the event they enable.            *)
(***************************************************************************)
EXTENDS WsHub, Json, SequencesExt

VARIABLES l, casting,   \* casting: room whose broadcast loop is running ("" = none)
          made,         \* rooms that exist (created by the first join attempt)
          snap          \* the rooms that existed when the hub began taking the current connection out of all rooms:
                        \* RemoveConnectionFromAllRooms walks the room list as it is then; a room created meanwhile
                        \* may or may not be visited
tvars == <<vars, l, casting, made, snap>>
Trace == ndJsonDeserialize("trace.ndjson")
N == Len(Trace)
Ev == Trace[l]
Is(e) == l <= N /\ Trace[l].ev = e
Consume == l' = l + 1
Stay == l' = l

TraceInit == Init /\ l = 1 /\ casting = "" /\ made = {} /\ snap = {} /\ TLCSet(1, 0)

TReset ==
    /\ Is("Reset")
    /\ life' = [c \in Conns |-> "new"] /\ registered' = {} /\ open' = [c \in Conns |-> TRUE]
    /\ closed' = [c \in Conns |-> FALSE] /\ q' = [c \in Conns |-> <<>>]
    /\ members' = [r \in Rooms |-> {}] /\ view' = [c \in Conns |-> {}] /\ mu' = [c \in Conns |-> "free"]
    /\ hub' = Idle /\ pend' = {} /\ cop' = [c \in Conns |-> CIdle] /\ crashed' = FALSE /\ hist' = <<>>
    /\ casting' = "" /\ made' = {} /\ snap' = {} /\ Consume

\* ---- silent requests, enabled only in front of the event that needs them
SReqRegister == l <= N /\ "c" \in DOMAIN Ev /\ life[Ev.c] = "new" /\ ReqRegister(Ev.c) /\ Stay /\ UNCHANGED <<casting, made, snap>>
SReqUnregister == Is("Unreg1") /\ [k |-> "unreg", c |-> Ev.c] \notin pend /\ ReqUnregister(Ev.c) /\ Stay /\ UNCHANGED <<casting, made, snap>>
SReqBroadcast == Is("BcastBegin") /\ pend = {x \in pend : x.k # "bcast"} /\ ReqBroadcast("m") /\ Stay /\ UNCHANGED <<casting, made, snap>>

TReg ==
    /\ Is("Reg") /\ [k |-> "reg", c |-> Ev.c] \in pend
    /\ HubRegister /\ life'[Ev.c] = (IF Ev.ok THEN "live" ELSE "rejected")
    /\ pend' = pend \ {[k |-> "reg", c |-> Ev.c]}
    /\ Consume /\ UNCHANGED <<casting, made, snap>>

TUnreg1 ==
    /\ Is("Unreg1") /\ [k |-> "unreg", c |-> Ev.c] \in pend
    /\ HubUnreg1 /\ pend' = pend \ {[k |-> "unreg", c |-> Ev.c]}
    /\ Ev.found <=> (Ev.c \in registered)
    /\ Consume /\ UNCHANGED <<casting, made, snap>>

\* CloseSend: either the tear-down step of an unregister, or the start of an eviction
TCloseSend ==
    /\ Is("CloseSend")
    /\ \/ hub.pc = "close" /\ hub.c = Ev.c /\ HubCloseSend
       \/ /\ hub.pc = "bcast" /\ Ev.c \in hub.rest
          /\ open' = [open EXCEPT ![Ev.c] = FALSE]
          /\ hub' = H("evict1", Ev.c, "Evict", hub.rest \ {Ev.c}, hub.m, {})
          /\ UNCHANGED <<life, registered, closed, q, members, view, mu, pend, cop, crashed, hist>>
    /\ Consume /\ UNCHANGED <<casting, made, snap>>

TEvict1 ==
    /\ Is("Evict1") /\ hub.pc = "evict1" /\ hub.c = Ev.c
    /\ registered' = registered \ {Ev.c}
    /\ life' = [life EXCEPT ![Ev.c] = "gone"]
    /\ hub' = [hub EXCEPT !.pc = "mark"]
    /\ UNCHANGED <<open, closed, q, members, view, mu, pend, cop, crashed, hist>>
    /\ Consume /\ UNCHANGED <<casting, made, snap>>

TMarkClosed == Is("MarkClosed") /\ hub.c = Ev.c /\ HubMarkClosed /\ Consume /\ snap' = made /\ UNCHANGED <<casting, made>>

\* RoomRemove: a hub tear-down removal, or the second half of LeaveRoom
TRoomRemove ==
    /\ Is("RoomRemove")
    /\ \/ /\ hub.pc = "rooms" /\ hub.c = Ev.c /\ Ev.r \in hub.todo
          /\ members' = [members EXCEPT ![Ev.r] = members[Ev.r] \ {Ev.c}]
          /\ hub' = [hub EXCEPT !.todo = hub.todo \ {Ev.r}]
          /\ UNCHANGED <<life, registered, open, closed, q, view, mu, pend, cop, crashed, hist>>
       \/ /\ cop[Ev.c].pc = "remove" /\ cop[Ev.c].r = Ev.r
          /\ LeaveRemove(Ev.c)
    /\ Consume /\ UNCHANGED <<casting, made, snap>>

\* rooms that were never created produce no RoomRemove event: they may be skipped when the
\* connection is not a member (a member that is not removed makes the trace stall)
SRoomsDone ==
    /\ Is("ClearView") /\ hub.pc = "rooms" /\ hub.c = Ev.c
    /\ hub.todo \cap snap = {}
    /\ hub' = [hub EXCEPT !.pc = "clear", !.todo = {}]
    /\ UNCHANGED <<life, registered, open, closed, q, members, view, mu, pend, cop, crashed, hist>>
    /\ Stay /\ UNCHANGED <<casting, made, snap>>

TClearView == Is("ClearView") /\ hub.pc = "clear" /\ hub.c = Ev.c /\ HubClearView /\ Consume /\ UNCHANGED <<casting, made, snap>>

TBcastBegin == Is("BcastBegin") /\ HubBroadcastBegin /\ Consume /\ UNCHANGED <<casting, made, snap>>
TBcastEnd ==
    /\ Is("BcastEnd") /\ hub.pc = "bcast"
    /\ hub' = Idle
    /\ UNCHANGED <<life, registered, open, closed, q, members, view, mu, pend, cop, crashed, hist>>
    /\ Consume /\ UNCHANGED <<casting, made, snap>>

\* a non-blocking enqueue attempt: by the hub broadcast loop (connection in hub.rest), by a room
\* broadcast (connection is a member of the room being cast), never successful on a closed queue
TTrySend ==
    /\ Is("TrySend")
    /\ Ev.queued => open[Ev.c]
    /\ \/ /\ hub.pc = "bcast" /\ Ev.c \in hub.rest /\ casting = ""
          /\ IF Ev.queued THEN hub' = [hub EXCEPT !.rest = hub.rest \ {Ev.c}] ELSE UNCHANGED hub
       \/ /\ casting # "" /\ Ev.c \in members[casting]
          /\ UNCHANGED hub
    /\ UNCHANGED <<life, registered, open, closed, q, members, view, mu, pend, cop, crashed, hist>>
    /\ Consume /\ UNCHANGED <<casting, made, snap>>

TRoomCastBegin == Is("RoomCastBegin") /\ casting = "" /\ casting' = Ev.r /\ UNCHANGED <<vars, made, snap>> /\ Consume
TRoomCastEnd == Is("RoomCastEnd") /\ casting = Ev.r /\ casting' = "" /\ UNCHANGED <<vars, made, snap>> /\ Consume

TSend ==
    /\ Is("Send")
    /\ (Ev.res = "closed") <=> ~open[Ev.c]
    /\ UNCHANGED vars /\ Consume /\ UNCHANGED <<casting, made, snap>>

\* JoinRoom: JoinBegin is silent in front of RoomAdd; a refused join is one logged step
SJoinBegin ==
    /\ Is("RoomAdd") /\ cop[Ev.c].pc = "idle" /\ ~closed[Ev.c]
    /\ casting # Ev.r                     \* room.mu is held by the broadcaster
    /\ JoinBegin(Ev.c, Ev.r) /\ Stay /\ UNCHANGED <<casting, made, snap>>
TJoinRefused == Is("JoinRefused") /\ closed[Ev.c] /\ JoinBegin(Ev.c, Ev.r) /\ Consume /\ UNCHANGED <<casting, made, snap>>
TRoomAdd ==
    /\ Is("RoomAdd") /\ cop[Ev.c].pc = "add" /\ cop[Ev.c].r = Ev.r
    /\ casting # Ev.r
    /\ JoinAdd(Ev.c)
    /\ Ev.ok <=> (Ev.c \in members'[Ev.r] /\ cop'[Ev.c].pc = "mark")
    /\ made' = made \cup {Ev.r} /\ UNCHANGED snap
    /\ Consume /\ UNCHANGED casting
TViewAdd == Is("ViewAdd") /\ cop[Ev.c].pc = "mark" /\ cop[Ev.c].r = Ev.r /\ JoinMark(Ev.c) /\ Consume /\ UNCHANGED <<casting, made, snap>>
TViewDel == Is("ViewDel") /\ LeaveBegin(Ev.c, Ev.r) /\ Consume /\ UNCHANGED <<casting, made, snap>>

SLeaveDone ==   \* LeaveRoom on a room that does not exist logs no RoomRemove
    /\ l <= N
    /\ \E c \in Conns : cop[c].pc = "remove" /\ cop[c].r \notin made /\ LeaveRemove(c)
    /\ Stay /\ UNCHANGED <<casting, made, snap>>

\* the projected real state at quiescence equals the specification's state
TFinal ==
    /\ Is("Final")
    /\ hub.pc = "idle" /\ \A c \in Conns : cop[c].pc = "idle"
    /\ registered = ToSet(Ev.st.registered)
    /\ \A r \in Rooms : members[r] = ToSet(Ev.st.members[r])
    /\ \A c \in Conns : view[c] = ToSet(Ev.st.view[c]) /\ open[c] = Ev.st.open[c] /\ closed[c] = Ev.st.closed[c]
    /\ UNCHANGED vars /\ Consume /\ UNCHANGED <<casting, made, snap>>

TraceNext == TFinal \/ SLeaveDone \/ TReset \/ SReqRegister \/ SReqUnregister \/ SReqBroadcast \/ TReg \/ TUnreg1 \/ TCloseSend
             \/ TEvict1 \/ TMarkClosed \/ TRoomRemove \/ SRoomsDone \/ TClearView \/ TBcastBegin \/ TBcastEnd
             \/ TTrySend \/ TRoomCastBegin \/ TRoomCastEnd \/ TSend \/ SJoinBegin \/ TJoinRefused \/ TRoomAdd
             \/ TViewAdd \/ TViewDel
TraceSpec == TraceInit /\ [][TraceNext]_tvars
HighWater == TLCSet(1, IF l > TLCGet(1) THEN l ELSE TLCGet(1))
TraceAccepted == IF TLCGet(1) = N + 1 THEN TRUE ELSE PrintT(<<"REJECT", TLCGet(1)>>) /\ FALSE
=============================================================================
