#!/usr/bin/env python3
import importlib, os, sys, traceback, json
sys.path.insert(0, os.path.dirname(os.path.abspath(__file__)))
sys.path.insert(0, os.path.join(os.path.dirname(os.path.abspath(__file__)), "..", "checks"))
import vf


def main():
    if len(sys.argv) < 3:
        print(__doc__ or "usage: check <Cxx> quick|thorough|--replay <file>|--selftest")
        return 2
    pid = sys.argv[1]
    mode = sys.argv[2]
    seed = int(os.environ.get("VERIF_SEED", "1") or 1)
    mod = importlib.import_module(pid.lower())
    try:
        if mode == "--replay":
            return mod.replay(sys.argv[3], seed)
        if mode == "--selftest":
            return mod.selftest(seed)
        tier = mode
        if tier not in ("quick", "thorough"):
            print("tier must be quick or thorough")
            return 2
        ck = vf.Check(pid, tier, seed, getattr(mod, "LEVEL", "model_checking"))
        mod.run(ck, tier, seed)
        return ck.finish()
    except vf.InfraError as e:
        print("INFRA-ERROR %s: %s" % (pid, e), file=sys.stderr)
        return 2
    except Exception:
        traceback.print_exc()
        return 2
    finally:
        vf.cleanup()


if __name__ == "__main__":
    sys.exit(main())
