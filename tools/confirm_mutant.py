#!/usr/bin/env python3
"""confirm a sub-agent's seeded change in its scratch worktree and file it under /verif/seeded/.
usage: confirm_mutant.py <Cxx> <mk> [extra test pkgs...]"""
import json, os, re, shutil, subprocess, sys
pid, mk = sys.argv[1], sys.argv[2]
import os as _os
root = _os.environ.get("MUT_ROOT", "/tmp/mut")
suffix = _os.environ.get("MUT_SUFFIX", "")
wt = root + "/" + pid
src = os.path.join(wt, "out", mk)
meta = json.load(open(os.path.join(src, "meta.json")))
env = dict(os.environ, GOFLAGS="-mod=mod", GOPROXY="off")
def sh(cmd, **kw):
    p = subprocess.run(cmd, shell=True, cwd=wt, env=env, stdout=subprocess.PIPE, stderr=subprocess.STDOUT, text=True, **kw)
    return p.returncode, p.stdout
def clean():
    sh("git checkout -- . && git clean -fdq -e out")
clean()
demo = [f for f in os.listdir(src) if f.endswith("_test.go")][0]
pkg = meta["demo_pkg"].rstrip("/")
pkg = re.sub(r"/\.\.\.$", "", pkg)
run = meta["demo_run"]
files = meta.get("files", [])
pkgs = sorted({"./" + os.path.dirname(f) for f in files if f.endswith(".go")} | {pkg} | set(sys.argv[3:]))
log = {}
# baseline demo passes
shutil.copy(os.path.join(src, demo), os.path.join(wt, pkg, demo))
rc, out = sh(run, timeout=1200); log["demo_without_patch"] = "pass" if rc == 0 else "FAIL"
os.remove(os.path.join(wt, pkg, demo))
rc, out = sh("git apply out/%s/patch.diff" % mk); assert rc == 0, out
rc, out = sh("go build ./... && go vet " + " ".join(pkgs), timeout=1800); log["build_vet_with_patch"] = "ok" if rc == 0 else "FAIL: " + out[-500:]
rc, out = sh("go test -count=1 " + " ".join(pkgs + ["./cmd/glyph"] if "./cmd/glyph" not in pkgs else pkgs), timeout=3000); log["existing_tests_with_patch"] = "pass" if rc == 0 else "FAIL: " + out[-800:]
shutil.copy(os.path.join(src, demo), os.path.join(wt, pkg, demo))
rc, out = sh(run, timeout=1200); log["demo_with_patch"] = "fails (as required)" if rc != 0 else "PASSES (bad)"
clean()
ok = log["demo_without_patch"] == "pass" and log["build_vet_with_patch"] == "ok" and log["existing_tests_with_patch"] == "pass" and log["demo_with_patch"].startswith("fails")
print(json.dumps(log, indent=1)); print("CONFIRMED" if ok else "NOT CONFIRMED")
if ok:
    dst = "/verif/seeded/%s-%s%s" % (pid, mk, suffix)
    os.makedirs(dst, exist_ok=True)
    shutil.copy(os.path.join(src, "patch.diff"), dst)
    shutil.copy(os.path.join(src, demo), dst)
    meta2 = {"property": pid, "summary": meta.get("summary"), "needs": meta.get("needs"), "files": files,
             "demo_pkg": pkg, "demo_run": run, "confirmed": log, "tests_run_with_patch": pkgs + ["./cmd/glyph"],
             "detected_by": None}
    json.dump(meta2, open(os.path.join(dst, "meta.json"), "w"), indent=1)
