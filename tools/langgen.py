"""Program sources for specs/lang/GlyphCore.tla: exhaustive tables and seeded random programs,
as JSON abstract syntax (the records GlyphCore evaluates).  No expected results here: those
come from TLC."""
import random

# ---- value / expression / statement constructors (mirror the TLA+ records) ----
def vnull(): return {"k": "null"}
def vbool(b): return {"k": "bool", "v": b}
def vint(n): return {"k": "int", "v": n}
def vfloat(x): return {"k": "float", "q": int(round(x * 4))}
def vstr(s): return {"k": "str", "v": s}
def vbig(n): return {"k": "int", "v": 0, "sp": "big", "hi": n >> 30, "lo": n & ((1 << 30) - 1), "s": str(n)}      # an integer >= 2^30: exact, compare-only
def vnan(): return {"k": "float", "q": 0, "sp": "nan"}
def varr(es): return {"k": "arr", "e": es}
def vobj(fs): return {"k": "obj", "f": [{"name": n, "v": v} for n, v in fs]}

def lit(v): return {"e": "lit", "v": v}
def var(n): return {"e": "var", "n": n}
def un(op, a): return {"e": "un", "op": op, "a": a}
def bin_(op, a, b): return {"e": "bin", "op": op, "a": a, "b": b}
def arr(es): return {"e": "arr", "es": es}
def obj(fs): return {"e": "obj", "fs": [{"name": n, "v": v} for n, v in fs]}
def field(o, n): return {"e": "field", "o": o, "n": n}
def idx(o, i): return {"e": "idx", "o": o, "i": i}
def call(fn, a): return {"e": "call", "fn": fn, "a": a}

def decl(n, x): return {"s": "decl", "n": n, "x": x}
def set_(n, x): return {"s": "set", "n": n, "x": x}
def pset(n, path, x, dollar=True):
    """path: list of field names (str) and index expressions (dict)"""
    return {"s": "pset", "n": n, "x": x, "dollar": dollar,
            "path": [{"k": "f", "name": a, "x": lit(vnull())} if isinstance(a, str) else {"k": "i", "name": "", "x": a} for a in path]}
def check_(x): return {"s": "check", "x": x}
def expr(x): return {"s": "expr", "x": x}
def ret(x, status=0): return {"s": "ret", "x": x, "status": status}
def guard_(c, status, msg): return {"s": "guard", "c": c, "status": status, "msg": msg}
def brk(): return {"s": "break"}
def cont(): return {"s": "continue"}
def if_(c, t, f=None): return {"s": "if", "c": c, "t": t, "f": f or [], "haselse": f is not None}
def while_(c, b): return {"s": "while", "c": c, "b": b}
def for_(k, v, it, b): return {"s": "for", "k": k or "", "v": v, "it": it, "b": b}
def switch(x, cases, d=None): return {"s": "switch", "x": x, "cases": [{"v": v, "b": b} for v, b in cases], "d": d or [], "hasdef": d is not None}

BINOPS = ["+", "-", "*", "/", "%", "==", "!=", "<", "<=", ">", ">=", "&&", "||"]
KEYS = ["a", "b", "c", "k1", "k2", "n", "x", "y"]          # ascending: the spec's KeyOrder

REPS = {   # two representatives per shape
    "null": [vnull()],
    "bool": [vbool(True), vbool(False)],
    "int": [vint(3), vint(0), vint(-7)],
    "float": [vfloat(2.5), vfloat(0.0), vfloat(3.0)],
    "str": [vstr("ab"), vstr("")],
    "arr": [varr([vint(1)]), varr([])],
    "obj": [vobj([("a", vint(1))]), vobj([])],
}


def fcall(fn, *args): return {"e": "fcall", "fn": fn, "as": list(args)}
def func(name, params, body, ret=""):
    """params: names, or (name, type[, required[, default value]]) tuples; types: any int float str bool [int] int?"""
    names, pts = [], []
    for q in params:
        q = (q,) if isinstance(q, str) else tuple(q)
        names.append(q[0])
        pts.append({"ty": q[1] if len(q) > 1 else "any", "req": bool(q[2]) if len(q) > 2 else False, "hasdef": len(q) > 3, "def": q[3] if len(q) > 3 else vnull()})
    return {"name": name, "params": names, "ptypes": pts, "body": body, "ret": ret}
def calln(fn, *args): return {"e": "calln", "fn": fn, "as": list(args)}
def callh(fn, a, *rest, f=""): return {"e": "callh", "fn": fn, "as": [a] + list(rest), "f": f}
def pipe(x, fn, *args, bare=False): return {"e": "pipe", "x": x, "fn": fn, "as": list(args), "bare": bare}
def match_(x, cases): return {"e": "match", "x": x, "cases": [{"p": p, "hasg": g is not None, "g": g if g is not None else lit(vnull()), "b": b} for p, g, b in cases]}
def plit(v): return {"k": "lit", "v": v, "n": "", "ps": [], "rest": "", "fs": []}
def pvar(n): return {"k": "var", "v": vnull(), "n": n, "ps": [], "rest": "", "fs": []}
def pwild(): return {"k": "wild", "v": vnull(), "n": "", "ps": [], "rest": "", "fs": []}
def parr(ps, rest=""): return {"k": "arr", "v": vnull(), "n": "", "ps": ps, "rest": rest, "fs": []}
def pobj(fs): return {"k": "obj", "v": vnull(), "n": "", "ps": [], "rest": "", "fs": [{"key": k, "hasp": p is not None, "p": p if p is not None else pwild()} for k, p in fs]}
def async_(b): return {"e": "async", "b": b}
def await_(a): return {"e": "await", "a": a}


def prog(pid, body, vars_=(), tags=(), funcs=(), consts=()):
    return {"id": pid, "body": body, "vars": [{"n": n, "v": v} for n, v in vars_], "tags": list(tags), "funcs": list(funcs), "consts": [{"n": n, "v": v} for n, v in consts]}


def operator_table():
    """every binary/unary operator x every ordered pair of operand shapes, operands as literals
    and through variables (so that constant folding cannot hide the runtime rule)"""
    out = []
    for op in BINOPS:
        for sa, ra in REPS.items():
            for sb, rb in REPS.items():
                for i, a in enumerate(ra):
                    for j, b in enumerate(rb):
                        if i + j > 1 and not (sa in ("int", "float") and sb in ("int", "float")):
                            continue
                        out.append(prog("", [ret(bin_(op, lit(a), lit(b)))], tags=["optable", "lit", op, sa, sb]))
                        out.append(prog("", [decl("p", lit(a)), decl("q", lit(b)), ret(bin_(op, var("p"), var("q")))],
                                        tags=["optable", "var", op, sa, sb]))
    for op in ("!", "neg"):
        for sa, ra in REPS.items():
            for a in ra:
                out.append(prog("", [ret(un(op, lit(a)))], tags=["optable", "un", op, sa]))
                out.append(prog("", [decl("p", lit(a)), ret(un(op, var("p")))], tags=["optable", "unvar", op, sa]))
    # short circuit: the right operand would fail if evaluated
    boom = bin_("/", lit(vint(1)), lit(vint(0)))
    for op, l in (("&&", False), ("||", True), ("&&", True), ("||", False)):
        out.append(prog("", [ret(bin_(op, lit(vbool(l)), bin_("==", boom, lit(vint(1)))))], tags=["optable", "shortcircuit", op]))
        out.append(prog("", [decl("u", lit(vnull())), ret(bin_(op, bin_("==" if op == "||" else "!=", var("u"), lit(vnull())),
                                                            bin_(">", field(var("u"), "a"), lit(vint(1)))))], tags=["optable", "nullguard", op]))
    return out


def precedence_table():
    """a op1 b op2 c for all operator pairs, unparenthesised, over operands for which both
    groupings are mostly evaluable; plus unary/postfix interplay"""
    out = []
    ints = [vint(7), vint(2), vint(3)]
    for o1 in BINOPS:
        for o2 in BINOPS:
            for shape in ("left", "right"):
                # the tree says which grouping is meant; the text must reproduce it with minimal parentheses
                def operand(op, k):
                    if op in ("&&", "||"):
                        return lit(vbool(k % 2 == 0))
                    return lit(ints[k])
                a, b, c = operand(o1, 0), None, operand(o2, 2)
                # middle operand must suit both
                b = lit(vbool(True)) if (o1 in ("&&", "||") and o2 in ("&&", "||")) else lit(ints[1])
                tree = bin_(o2, bin_(o1, a, b), c) if shape == "left" else bin_(o1, a, bin_(o2, b, c))
                out.append(prog("", [ret(tree)], tags=["prec", o1, o2, shape]))
    for op in BINOPS[:11]:
        out.append(prog("", [ret(bin_(op, un("neg", lit(vint(4))), lit(vint(2))))], tags=["prec", "neg-left", op]))
        out.append(prog("", [ret(un("neg", bin_(op, lit(vint(4)), lit(vint(2)))))], tags=["prec", "neg-over", op]))
        out.append(prog("", [decl("o", obj([("a", lit(vint(4)))])), ret(bin_(op, field(var("o"), "a"), lit(vint(2))))], tags=["prec", "field", op]))
        out.append(prog("", [decl("r", arr([lit(vint(4)), lit(vint(9))])), ret(bin_(op, idx(var("r"), lit(vint(1))), lit(vint(2))))], tags=["prec", "index", op]))
    out.append(prog("", [ret(un("!", bin_("&&", lit(vbool(True)), lit(vbool(False)))))], tags=["prec", "not-over-and"]))
    out.append(prog("", [ret(bin_("&&", un("!", lit(vbool(True))), lit(vbool(False))))], tags=["prec", "not-left"]))
    out.append(prog("", [ret(un("!", un("!", lit(vbool(True)))))], tags=["prec", "notnot"]))
    out.append(prog("", [ret(un("neg", un("neg", lit(vint(3)))))], tags=["prec", "negneg"]))
    return out


def control_table():
    """statement kinds x exit kinds x nesting, and the $-vs-reassign scoping matrix"""
    out = []
    I = lambda n: lit(vint(n))
    T, F = lit(vbool(True)), lit(vbool(False))
    lt = lambda a, b: bin_("<", a, b)
    add = lambda a, b: bin_("+", a, b)
    # scoping
    out += [
        prog("", [decl("x", I(1)), if_(T, [decl("x", I(2))]), ret(var("x"))], tags=["scope", "decl-in-if-updates-outer"]),
        prog("", [decl("x", I(1)), if_(T, [set_("x", I(2))]), ret(var("x"))], tags=["scope", "set-in-if"]),
        prog("", [if_(T, [decl("y", I(5))]), ret(var("y"))], tags=["scope", "inner-decl-not-visible-after"]),
        prog("", [decl("x", I(1)), decl("x", I(2)), ret(var("x"))], tags=["scope", "redeclare-same-scope"]),
        prog("", [decl("x", I(1)), if_(T, [decl("y", I(2)), decl("y", I(3))]), ret(var("x"))], tags=["scope", "redeclare-inner"]),
        prog("", [set_("z", I(1)), ret(I(0))], tags=["scope", "set-undeclared"]),
        prog("", [ret(var("nope"))], tags=["scope", "undefined"]),
        prog("", [decl("x", I(1)), if_(F, [set_("x", I(2))], [set_("x", I(3))]), ret(var("x"))], tags=["scope", "else-branch"]),
        prog("", [decl("v", I(10)), for_(None, "v", arr([I(1), I(2)]), [decl("t", var("v"))]), ret(var("v"))], tags=["scope", "for-var-shadows-outer"]),
        prog("", [decl("k", I(10)), decl("s", I(0)), for_("k", "v", arr([I(5), I(6)]), [set_("s", add(var("s"), var("k")))]), ret(arr([var("k"), var("s")]))],
             tags=["scope", "for-key-shadows-outer"]),
        prog("", [decl("s", I(0)), for_(None, "v", arr([I(1), I(2)]), [decl("t", var("v")), set_("s", add(var("s"), var("t")))]), ret(var("s"))],
             tags=["scope", "fresh-scope-per-iteration"]),
        prog("", [decl("i", I(0)), while_(lt(var("i"), I(3)), [decl("t", var("i")), set_("i", add(var("i"), I(1)))]), ret(var("i"))],
             tags=["scope", "fresh-scope-per-while-iteration"]),
        prog("", [decl("x", I(1)), switch(I(2), [(I(2), [decl("x", I(9))])]), ret(var("x"))], tags=["scope", "decl-in-case-updates-outer"]),
    ]
    # loops and exits
    body_sum = lambda extra: [decl("s", I(0)), decl("i", I(0)),
                              while_(lt(var("i"), I(6)), [set_("i", add(var("i"), I(1)))] + extra + [set_("s", add(var("s"), var("i")))]),
                              ret(arr([var("s"), var("i")]))]
    out += [
        prog("", body_sum([]), tags=["loop", "while-plain"]),
        prog("", body_sum([if_(bin_("==", var("i"), I(3)), [brk()])]), tags=["loop", "while-break"]),
        prog("", body_sum([if_(bin_("==", bin_("%", var("i"), I(2)), I(0)), [cont()])]), tags=["loop", "while-continue"]),
        prog("", body_sum([if_(bin_("==", var("i"), I(4)), [ret(var("s"))])]), tags=["loop", "while-return"]),
        prog("", body_sum([if_(bin_("==", var("i"), I(2)), [decl("z", bin_("/", I(1), I(0)))])]), tags=["loop", "while-error"]),
        prog("", [decl("i", I(0)), while_(F, [set_("i", I(9))]), ret(var("i"))], tags=["loop", "while-zero-trip"]),
        prog("", [decl("i", I(0)), while_(T, [set_("i", add(var("i"), I(1)))]), ret(var("i"))], tags=["loop", "while-forever", "nonterminating"]),
        prog("", [decl("i", I(0)), while_(lt(var("i"), I(10)), [if_(bin_("==", bin_("%", var("i"), I(2)), I(0)), [cont()]), set_("i", add(var("i"), I(1)))]), ret(var("i"))],
             tags=["loop", "while-continue-forever", "nonterminating"]),
        prog("", [while_(I(1), [brk()]), ret(I(0))], tags=["loop", "while-nonbool"]),
        prog("", [decl("s", I(0)), for_(None, "v", arr([I(1), I(2), I(3), I(4)]), [if_(bin_("==", var("v"), I(3)), [brk()]), set_("s", add(var("s"), var("v")))]), ret(var("s"))], tags=["loop", "for-break"]),
        prog("", [decl("s", I(0)), for_(None, "v", arr([I(1), I(2), I(3), I(4)]), [if_(bin_("==", var("v"), I(3)), [cont()]), set_("s", add(var("s"), var("v")))]), ret(var("s"))], tags=["loop", "for-continue"]),
        prog("", [for_(None, "v", arr([I(1), I(2)]), [if_(bin_("==", var("v"), I(2)), [ret(var("v"))])]), ret(I(0))], tags=["loop", "for-return"]),
        prog("", [decl("s", I(0)), for_(None, "v", arr([]), [set_("s", I(1))]), ret(var("s"))], tags=["loop", "for-empty"]),
        prog("", [for_(None, "v", I(5), [decl("t", var("v"))]), ret(I(0))], tags=["loop", "for-nonarray"]),
        prog("", [decl("s", lit(vstr(""))), for_("k", "v", obj([("b", I(2)), ("a", I(1)), ("c", I(3))]), [set_("s", add(var("s"), var("k")))]), ret(var("s"))], tags=["loop", "for-object-order"]),
        prog("", [decl("s", I(0)), for_("k", "v", obj([("a", I(4))]), [set_("s", add(var("s"), var("v")))]), ret(var("s"))], tags=["loop", "for-object-one"]),
        prog("", [decl("s", I(0)), for_(None, "r", arr([arr([I(1), I(2)]), arr([I(3)])]), [for_(None, "c", var("r"), [if_(bin_("==", var("c"), I(2)), [brk()]), set_("s", add(var("s"), var("c")))])]), ret(var("s"))], tags=["loop", "nested-break-inner-only"]),
        prog("", [brk(), ret(I(1))], tags=["loop", "break-outside"]),
        prog("", [cont(), ret(I(1))], tags=["loop", "continue-outside"]),
    ]
    # switch
    sw = lambda v, extra=None: [decl("r", lit(vstr("none"))), switch(v, [(I(1), [set_("r", lit(vstr("one")))]), (lit(vstr("1")), [set_("r", lit(vstr("str")))]),
                                                               (lit(vfloat(2.0)), [set_("r", lit(vstr("two")))])], extra), ret(var("r"))]
    for v, name in ((I(1), "int"), (lit(vstr("1")), "str"), (I(2), "int-matches-float"), (lit(vfloat(1.0)), "float-matches-int"), (I(9), "nomatch"), (lit(vnull()), "null")):
        out.append(prog("", sw(v), tags=["switch", name]))
        out.append(prog("", sw(v, [set_("r", lit(vstr("dflt")))]), tags=["switch", name, "default"]))
    out.append(prog("", [decl("n", I(0)), decl("i", I(0)), while_(lt(var("i"), I(4)), [set_("i", add(var("i"), I(1))),
                         switch(var("i"), [(I(2), [brk()]), (I(3), [cont()])]), set_("n", add(var("n"), I(1)))]), ret(arr([var("n"), var("i")]))], tags=["switch", "break-in-case-leaves-loop"]))
    out.append(prog("", [switch(arr([I(1)]), [(arr([I(1)]), [ret(I(1))])], [ret(I(2))]), ret(I(3))], tags=["switch", "array-never-matches"]))
    # values
    out += [
        prog("", [decl("o", obj([("a", I(1)), ("b", obj([("c", lit(vstr("x")))]))])), ret(arr([field(var("o"), "a"), field(field(var("o"), "b"), "c"), field(var("o"), "zz")]))], tags=["value", "field"]),
        prog("", [decl("o", lit(vnull())), ret(field(var("o"), "a"))], tags=["value", "field-on-null"]),
        prog("", [decl("o", I(3)), ret(field(var("o"), "a"))], tags=["value", "field-on-int"]),
        prog("", [decl("r", arr([I(1), I(2)])), ret(idx(var("r"), I(2)))], tags=["value", "index-oob"]),
        prog("", [decl("r", arr([I(1), I(2)])), ret(idx(var("r"), un("neg", I(1))))], tags=["value", "index-negative"]),
        prog("", [decl("r", arr([I(1), I(2)])), ret(idx(var("r"), lit(vfloat(1.0))))], tags=["value", "index-float"]),
        prog("", [decl("o", obj([("a", I(1))])), ret(idx(var("o"), lit(vstr("a"))))], tags=["value", "index-object"]),
        prog("", [decl("o", obj([("a", I(1))])), ret(idx(var("o"), lit(vstr("b"))))], tags=["value", "index-object-missing"]),
        prog("", [ret(bin_("==", arr([I(1), I(2)]), arr([I(1), I(2)])))], tags=["value", "array-eq"]),
        prog("", [decl("p", arr([I(1)])), decl("q", arr([I(1)])), ret(bin_("==", var("p"), var("q")))], tags=["value", "array-eq-var"]),
        prog("", [decl("p", obj([("a", I(1))])), decl("q", obj([("a", I(1))])), ret(bin_("!=", var("p"), var("q")))], tags=["value", "object-ne-var"]),
        prog("", [ret(call("length", arr([I(1), I(2), I(3)])))], tags=["value", "length-array"]),
        prog("", [ret(call("length", lit(vstr("abcd"))))], tags=["value", "length-string"]),
        prog("", [ret(call("length", I(3)))], tags=["value", "length-int"]),
        prog("", [ret(call("abs", un("neg", I(3))))], tags=["value", "abs"]),
        prog("", [decl("b", add(arr([I(1)]), arr([I(2)]))), decl("l", add(var("b"), arr([I(10)]))), decl("r", add(var("b"), arr([I(20)]))), ret(arr([var("l"), var("r")]))], tags=["value", "array-concat-independent"]),
        prog("", [decl("b", arr([I(1)])), set_("b", add(var("b"), arr([I(2)]))), set_("b", add(var("b"), arr([I(3)]))), decl("l", add(var("b"), arr([I(10)]))), decl("r", add(var("b"), arr([I(20)]))), ret(arr([var("l"), var("r")]))],
             tags=["value", "array-concat-after-growth"]),
        prog("", [ret(obj([("a", I(1)), ("a", I(2))]))], tags=["value", "duplicate-key"]),
        prog("", [ret(bin_("/", un("neg", I(7)), I(2)))], tags=["value", "int-div-truncates"]),
        prog("", [ret(bin_("%", un("neg", I(7)), I(2)))], tags=["value", "int-mod-sign"]),
        prog("", [ret(bin_("/", I(7), lit(vfloat(2.0))))], tags=["value", "mixed-div-is-float"]),
        prog("", [ret(bin_("%", lit(vfloat(7.5)), I(2)))], tags=["value", "float-mod"]),
        prog("", [ret(bin_("/", I(1), lit(vfloat(0.0))))], tags=["value", "float-div-zero"]),
    ]
    # inputs bound by the request
    out += [
        prog("", [ret(add(var("qi"), I(1)))], vars_=[("qi", vint(41))], tags=["input", "int"]),
        prog("", [ret(add(var("qs"), lit(vstr("!"))))], vars_=[("qs", vstr("hey"))], tags=["input", "str"]),
        prog("", [if_(var("qb"), [ret(I(1))], [ret(I(2))])], vars_=[("qb", vbool(False))], tags=["input", "bool"]),
        prog("", [decl("qi", I(5)), ret(var("qi"))], vars_=[("qi", vint(41))], tags=["input", "redeclare-bound-name"]),
    ]
    return out


def optimizer_table():
    """the enabling shape of every rewrite the optimizer has - folding, identities, strength reduction,
    constant/copy propagation across joins, CSE, loop-invariant motion, branch elimination, dead code -
    over operands of every type and more than one runtime input"""
    out = []
    I = lambda n: lit(vint(n))
    Fl = lambda x: lit(vfloat(x))
    T, F = lit(vbool(True)), lit(vbool(False))
    lt = lambda a, b: bin_("<", a, b)
    add = lambda a, b: bin_("+", a, b)
    mul = lambda a, b: bin_("*", a, b)
    inputs = [vint(5), vint(-2), vint(0)]
    # constant-condition branch elimination around guards, returns and trailing code
    for qv in inputs:
        q = [("qi", qv)]
        out += [
            prog("", [if_(bin_(">", I(1), I(2)), [ret(I(0))], [if_(lt(var("qi"), I(0)), [ret(un("neg", I(1)))])]), decl("t", I(15)), ret(var("t"))], q, ["opt", "const-branch", "guard-in-else"]),
            prog("", [if_(T, [if_(lt(var("qi"), I(0)), [ret(un("neg", I(1)))])]), ret(I(15))], q, ["opt", "const-branch", "guard-in-then"]),
            prog("", [decl("flag", T), if_(var("flag"), [if_(lt(var("qi"), I(0)), [ret(un("neg", I(1)))], [])]), decl("u", add(var("qi"), I(1))), ret(var("u"))], q, ["opt", "const-branch", "guard-via-propagated-flag"]),
            prog("", [if_(T, [if_(lt(var("qi"), I(0)), [ret(I(1))], [ret(I(2))])]), ret(I(3))], q, ["opt", "const-branch", "both-arms-return"]),
            prog("", [if_(F, [ret(I(1))]), ret(I(2))], q, ["opt", "const-branch", "false-no-else"]),
            prog("", [if_(T, [while_(lt(var("qi"), I(0)), [ret(I(7))])]), ret(I(8))], q, ["opt", "const-branch", "return-in-loop-in-then"]),
            # propagation across joins
            prog("", [decl("x", I(1)), if_(lt(var("qi"), I(0)), [set_("x", I(2))]), ret(var("x"))], q, ["opt", "propagate", "assign-in-then"]),
            prog("", [decl("x", I(1)), if_(lt(var("qi"), I(0)), [], [set_("x", I(2))]), ret(var("x"))], q, ["opt", "propagate", "assign-in-else"]),
            prog("", [decl("x", I(1)), decl("y", var("x")), if_(lt(var("qi"), I(0)), [set_("x", I(9))]), ret(arr([var("x"), var("y")]))], q, ["opt", "propagate", "copy-then-source-changes-in-branch"]),
            prog("", [decl("x", I(1)), decl("i", I(0)), while_(lt(var("i"), var("qi")), [set_("x", add(var("x"), I(1))), set_("i", add(var("i"), I(1)))]), ret(var("x"))], q, ["opt", "propagate", "assign-in-loop"]),
            prog("", [decl("x", I(1)), switch(var("qi"), [(I(5), [set_("x", I(50))]), (I(0), [set_("x", I(60))])], [set_("x", I(70))]), ret(var("x"))], q, ["opt", "propagate", "assign-in-switch"]),
            prog("", [decl("a", var("qi")), set_("qi", I(100)), ret(arr([var("a"), var("qi")]))], q, ["opt", "propagate", "copy-then-source-reassigned"]),
            prog("", [decl("mode", I(1)), decl("hits", I(0)), switch(var("qi"), [(I(5), [set_("hits", I(10))]), (I(0), [set_("hits", I(20))])], [set_("mode", I(99))]), ret(add(var("mode"), var("hits")))], q, ["opt", "propagate", "assign-only-in-default"]),
            prog("", [decl("mode", I(1)), decl("hits", I(0)), switch(var("qi"), [(I(5), [set_("mode", I(99))]), (I(0), [set_("hits", I(20))])], [set_("hits", I(30))]), ret(add(var("mode"), var("hits")))], q, ["opt", "propagate", "assign-only-in-one-case"]),
            prog("", [decl("mode", I(1)), if_(lt(var("qi"), I(0)), [switch(var("qi"), [(I(-2), [set_("mode", I(7))])], [set_("mode", I(8))])]), ret(var("mode"))], q, ["opt", "propagate", "assign-in-switch-in-if"]),
            # common subexpressions
            prog("", [decl("a", add(var("qi"), I(1))), set_("qi", I(7)), decl("b", add(var("qi"), I(1))), ret(arr([var("a"), var("b")]))], q, ["opt", "cse", "operand-reassigned-between"]),
            prog("", [decl("a", mul(var("qi"), I(3))), decl("b", mul(var("qi"), I(3))), ret(add(var("a"), var("b")))], q, ["opt", "cse", "plain"]),
            # the same operands in the other order are another expression when + joins strings or arrays
            prog("", [decl("s", add(lit(vstr("<")), calln("toString", var("qi")))), decl("t", add(var("s"), lit(vstr(">")))), decl("p", add(var("s"), var("t"))), decl("q", add(var("t"), var("s"))), ret(arr([var("p"), var("q")]))], q, ["opt", "cse", "operands-swapped", "strings"]),
            prog("", [decl("s", arr([var("qi")])), decl("t", arr([var("qi"), I(1)])), decl("p", add(var("s"), var("t"))), decl("q", add(var("t"), var("s"))), ret(arr([var("p"), var("q")]))], q, ["opt", "cse", "operands-swapped", "arrays"]),
            prog("", [decl("s", mul(var("qi"), I(2))), decl("t", add(var("qi"), I(1))), decl("p", bin_("-", var("s"), var("t"))), decl("q", bin_("-", var("t"), var("s"))), decl("m", mul(var("s"), var("t"))), decl("n", mul(var("t"), var("s"))), ret(arr([var("p"), var("q"), var("m"), var("n")]))], q, ["opt", "cse", "operands-swapped", "numbers"]),
            # names of which one is the beginning of another (x, xy): a remembered expression is keyed by its text
            prog("", [decl("x", mul(var("qi"), I(3))), decl("xy", add(var("qi"), I(10))), decl("t", add(var("xy"), var("x"))), set_("x", add(var("x"), I(2))), decl("u", add(var("xy"), var("x"))), ret(arr([var("t"), var("u")]))], q, ["opt", "cse", "operand-name-is-a-prefix-of-another", "shorter-reassigned"]),
            prog("", [decl("x", mul(var("qi"), I(3))), decl("xy", add(var("qi"), I(10))), set_("x", add(var("xy"), var("x"))), decl("u", add(var("xy"), var("x"))), ret(arr([var("x"), var("u")]))], q, ["opt", "cse", "operand-name-is-a-prefix-of-another", "holder-is-an-operand"]),
            prog("", [decl("x", mul(var("qi"), I(3))), decl("xy", add(var("qi"), I(10))), decl("t", mul(var("x"), var("xy"))), set_("xy", add(var("xy"), I(1))), decl("u", mul(var("x"), var("xy"))), ret(arr([var("t"), var("u")]))], q, ["opt", "cse", "operand-name-is-a-prefix-of-another", "longer-reassigned"]),
            prog("", [decl("a", mul(var("qi"), I(5))), decl("ab", add(var("qi"), I(3))), decl("abc", mul(var("qi"), I(4))), decl("t", add(add(var("abc"), var("ab")), var("a"))), set_("ab", I(30)), decl("u", add(add(var("abc"), var("ab")), var("a"))), set_("a", I(100)), decl("w", add(add(var("abc"), var("ab")), var("a"))), ret(arr([var("t"), var("u"), var("w")]))], q, ["opt", "cse", "operand-name-is-a-prefix-of-another", "three-names"]),
            prog("", [decl("a", mul(var("qi"), I(3))), if_(lt(var("qi"), I(0)), [set_("a", I(0))]), decl("b", mul(var("qi"), I(3))), ret(arr([var("a"), var("b")]))], q, ["opt", "cse", "first-holder-changed-in-branch"]),
            # loop-invariant motion
            prog("", [decl("i", I(0)), decl("s", I(0)), while_(lt(var("i"), I(3)), [decl("t", mul(var("qi"), I(2))), set_("s", add(var("s"), var("t"))), set_("i", add(var("i"), I(1)))]), ret(var("s"))], q, ["opt", "licm", "plain"]),
            prog("", [decl("i", I(0)), while_(lt(var("i"), var("qi")), [decl("t", bin_("/", I(10), var("qi"))), set_("i", add(var("i"), I(1)))]), ret(var("i"))], q, ["opt", "licm", "hoisted-expression-may-fail-when-loop-does-not-run"]),
            prog("", [decl("i", I(0)), decl("t", I(1)), while_(lt(var("i"), var("qi")), [decl("t", I(2)), set_("i", add(var("i"), I(1)))]), ret(var("t"))], q, ["opt", "licm", "hoisted-declaration-shadows"]),
            prog("", [decl("i", I(0)), decl("s", I(0)), while_(lt(var("i"), I(2)), [decl("t", add(var("s"), I(1))), set_("s", var("t")), set_("i", add(var("i"), I(1)))]), ret(var("s"))], q, ["opt", "licm", "depends-on-modified"]),
            # dead code
            prog("", [if_(lt(var("qi"), I(0)), [ret(I(1)), set_("qi", I(3))]), ret(var("qi"))], q, ["opt", "dce", "after-return-in-branch"]),
            prog("", [decl("i", I(0)), while_(lt(var("i"), I(5)), [set_("i", add(var("i"), I(1))), if_(bin_("==", var("i"), var("qi")), [brk()]), cont(), set_("i", I(99))]), ret(var("i"))], q, ["opt", "dce", "after-continue"]),
        ]
    # identities and strength reduction over every operand type, operand behind a variable
    shapes = {"int": vint(-7), "zero": vint(0), "float": vfloat(2.5), "str": vstr("ab"), "bool": vbool(True), "null": vnull(),
              "arr": None, "obj": None}
    def operand(kind):
        if kind == "arr":
            return arr([I(1)])
        if kind == "obj":
            return obj([("a", I(1))])
        return lit(shapes[kind])
    ids = [("+", I(0)), ("+", Fl(0.0)), ("-", I(0)), ("*", I(1)), ("*", Fl(1.0)), ("*", I(0)), ("*", Fl(0.0)), ("*", I(2)), ("*", I(4)), ("*", I(8)),
           ("/", I(1)), ("/", I(2)), ("/", I(4)), ("%", I(1)), ("%", I(2)), ("&&", T), ("&&", F), ("||", T), ("||", F), ("==", T), ("!=", F)]
    for kind in shapes:
        for op, k in ids:
            out.append(prog("", [decl("x", operand(kind)), ret(bin_(op, var("x"), k))], (), ["opt", "identity", "%s %s k" % (kind, op)]))
            out.append(prog("", [decl("x", operand(kind)), ret(bin_(op, k, var("x")))], (), ["opt", "identity", "k %s %s" % (op, kind)]))
        for op in ("-", "/", "%", "==", "!=", "<", "<=", "&&", "||"):
            out.append(prog("", [decl("x", operand(kind)), ret(bin_(op, var("x"), var("x")))], (), ["opt", "identity", "%s %s self" % (kind, op)]))
        out.append(prog("", [decl("x", operand(kind)), ret(un("neg", un("neg", var("x"))))], (), ["opt", "identity", "negneg %s" % kind]))
        out.append(prog("", [decl("x", operand(kind)), ret(un("!", un("!", var("x"))))], (), ["opt", "identity", "notnot %s" % kind]))
    # the same with the operand unknown at compile time (request input)
    for qv in [vint(-7), vint(0), vint(3)]:
        for op, k in ids:
            if op in ("&&", "||", "==", "!="):
                continue
            out.append(prog("", [ret(bin_(op, var("qi"), k))], [("qi", qv)], ["opt", "identity-runtime", "qi %s k" % op]))
            out.append(prog("", [ret(bin_(op, k, var("qi")))], [("qi", qv)], ["opt", "identity-runtime", "k %s qi" % op]))
    # literal folding: every operator on literal pairs incl. failing ones
    lits = [I(7), I(-2) if False else un("neg", I(2)), I(0), Fl(2.5), Fl(0.0), lit(vstr("ab")), T, lit(vnull())]
    for op in BINOPS:
        for a in lits:
            for b in lits:
                out.append(prog("", [ret(bin_(op, a, b))], (), ["opt", "fold", op]))
    return out


class Gen:
    """seeded random programs, mostly well-typed, always terminating within the model's limits
    unless tagged otherwise"""

    def __init__(self, rnd, maxdepth=3):
        self.r = rnd
        self.maxdepth = maxdepth

    def lit_of(self, t):
        r = self.r
        if t == "int":
            return lit(vint(r.choice([0, 1, 2, 3, 5, 7, 10])))
        if t == "float":
            return lit(vfloat(r.choice([0.5, 1.0, 1.5, 2.0, 2.5, 4.0])))
        if t == "bool":
            return lit(vbool(r.random() < 0.5))
        if t == "str":
            return lit(vstr(r.choice(["", "a", "ab", "xyz"])))
        if t == "null":
            return lit(vnull())
        if t == "arr":
            return arr([self.lit_of("int") for _ in range(r.randint(0, 3))])
        return obj([(k, self.lit_of(r.choice(["int", "str"]))) for k in r.sample(KEYS[:4], r.randint(0, 2))])

    def expr(self, t, env, d=0):
        r = self.r
        vs = [n for n, ty in env.items() if ty == t]
        if d >= self.maxdepth or r.random() < 0.25:
            if vs and r.random() < 0.6:
                return var(r.choice(vs))
            return self.lit_of(t)
        if r.random() < 0.02:      # sprinkle ill-typed operands
            t2 = r.choice(["int", "float", "bool", "str", "null", "arr", "obj"])
            return self.expr(t2, env, d + 1)
        if t == "int":
            c = r.random()
            if c < 0.6:
                return bin_(r.choice(["+", "-", "*", "/", "%"]), self.expr("int", env, d + 1), self.expr("int", env, d + 1))
            if c < 0.7:
                return un("neg", self.expr("int", env, d + 1))
            if c < 0.8:
                return call("length", self.expr(r.choice(["arr", "str"]), env, d + 1))
            avs = [n for n, ty in env.items() if ty == "arr"]
            if c < 0.9 and avs:
                return idx(var(r.choice(avs)), lit(vint(r.randint(0, 2))))      # only names can be indexed
            return self.lit_of("int")
        if t == "float":
            a, b = r.choice([("int", "float"), ("float", "int"), ("float", "float")])
            return bin_(r.choice(["+", "-", "*"]), self.expr(a, env, d + 1), self.expr(b, env, d + 1))
        if t == "bool":
            c = r.random()
            if c < 0.35:
                nt = r.choice(["int", "float"])
                return bin_(r.choice(["<", "<=", ">", ">="]), self.expr(nt, env, d + 1), self.expr(r.choice(["int", "float"]), env, d + 1))
            if c < 0.6:
                et = r.choice(["int", "str", "bool", "float", "null", "arr"])
                return bin_(r.choice(["==", "!="]), self.expr(et, env, d + 1), self.expr(r.choice([et, et, "int", "float"]), env, d + 1))
            if c < 0.85:
                return bin_(r.choice(["&&", "||"]), self.expr("bool", env, d + 1), self.expr("bool", env, d + 1))
            return un("!", self.expr("bool", env, d + 1))
        if t == "str":
            if r.random() < 0.7:
                return bin_("+", self.expr("str", env, d + 1), self.expr("str", env, d + 1))
            return self.lit_of("str")
        if t == "arr":
            c = r.random()
            if c < 0.4:
                return bin_("+", self.expr("arr", env, d + 1), self.expr("arr", env, d + 1))
            return arr([self.expr("int", env, d + 1) for _ in range(r.randint(0, 3))])
        if t == "obj":
            return obj([(k, self.expr(r.choice(["int", "str", "bool"]), env, d + 1)) for k in r.sample(KEYS[:4], r.randint(0, 3))])
        return self.lit_of(t)

    def block(self, env, depth, inloop, n=None):
        r = self.r
        out = []
        env = dict(env)
        local = set()
        for _ in range(n if n is not None else r.randint(1, 4)):
            c = r.random()
            if c < 0.3:
                t = r.choice(["int", "int", "float", "bool", "str", "arr", "obj"])
                name = r.choice(["a", "b", "c", "d", "e"])
                if name in local:
                    if env.get(name) is not None and r.random() < 0.9:
                        out.append(set_(name, self.expr(env[name], env)))
                    else:
                        out.append(decl(name, self.expr(t, env)))      # redeclaration error
                    continue
                if name in env and r.random() < 0.5:
                    t = env[name]
                out.append(decl(name, self.expr(t, env)))
                env[name] = t if name not in env else env[name]
                local.add(name)
            elif c < 0.45 and env:
                name = r.choice(list(env))
                out.append(set_(name, self.expr(env[name], env)))
            elif c < 0.6 and depth < 2:
                t = self.block(env, depth + 1, inloop)
                f = self.block(env, depth + 1, inloop) if r.random() < 0.5 else None
                out.append(if_(self.expr("bool", env), t, f))
            elif c < 0.7 and depth < 2:
                # bounded counting loop
                cname = "i%d" % depth
                if cname in env:
                    continue
                body = self.block(dict(env, **{cname: "int"}), depth + 1, True) + [set_(cname, bin_("+", var(cname), lit(vint(1))))]
                if r.random() < 0.3:
                    body.insert(r.randint(0, len(body) - 1), if_(self.expr("bool", dict(env, **{cname: "int"})), [r.choice([brk(), cont()])] if r.random() < 0.5 else [brk()]))
                out.append(decl(cname, lit(vint(0))))
                out.append(while_(bin_("<", var(cname), lit(vint(r.randint(0, 4)))), body))
                env[cname] = "int"
                local.add(cname)
            elif c < 0.8 and depth < 2:
                v = "v%d" % depth
                k = ("k%d" % depth) if r.random() < 0.4 else None
                inner = dict(env, **{v: "int"})
                if k:
                    inner[k] = "int"
                out.append(for_(k, v, self.expr("arr", env), self.block(inner, depth + 1, True)))
            elif c < 0.87 and depth < 2:
                t = r.choice(["int", "str"])
                cases = [(self.lit_of(t), self.block(env, depth + 1, inloop, n=r.randint(1, 2))) for _ in range(r.randint(1, 3))]
                out.append(switch(self.expr(t, env), cases, self.block(env, depth + 1, inloop, n=1) if r.random() < 0.6 else None))
            elif c < 0.91 and inloop:
                out.append(if_(self.expr("bool", env), [r.choice([brk(), cont()])]))
            elif c < 0.95:
                out.append(if_(self.expr("bool", env), [ret(self.expr(r.choice(["int", "str", "arr", "obj"]), env))]))
            else:
                out.append(expr(call("length", self.expr(r.choice(["arr", "str"]), env))))      # a statement must be a call
        return out

    def program(self):
        r = self.r
        vars_ = []
        env = {}
        if r.random() < 0.5:
            vars_.append(("qi", vint(r.choice([0, 1, 4, 9]))))
            env["qi"] = "int"
        if r.random() < 0.3:
            vars_.append(("qs", vstr(r.choice(["", "a", "zz"]))))
            env["qs"] = "str"
        if r.random() < 0.3:
            vars_.append(("qb", vbool(r.random() < 0.5)))
            env["qb"] = "bool"
        body = self.block(env, 0, False, n=r.randint(2, 6))
        names = {}
        # final return mentions the variables of the outermost scope
        for s in body:
            if s["s"] == "decl":
                names[s["n"]] = True
        rv = arr([var(n) for n in list(names)[:4]] + [self.expr("int", env)])
        return prog("", body + [ret(rv)], vars_=vars_, tags=["random"])


def all_programs(tier, seed):
    rnd = random.Random(seed)
    progs = operator_table() + precedence_table() + control_table() + optimizer_table() + match_table() + string_table() + status_table() + function_table() + special_numbers_table() + builtin_table() + module_table() + element_table() + equality_table() + validation_table() + typed_function_table()
    g = Gen(rnd)
    for _ in range(600 if tier == "quick" else 8000):
        progs.append(g.program())
    for i, p in enumerate(progs):
        p["id"] = i
    return progs


# ---- async / await (C09) -------------------------------------------------------------------------------
def async_table():
    """blocks and parents that overlap: the parent keeps declaring and assigning while blocks run, blocks read
    (and write) names of the parent, nest, contain control flow, fail; futures awaited late, twice, never"""
    out = []
    I = lambda n: lit(vint(n))
    T, F = lit(vbool(True)), lit(vbool(False))
    add = lambda a, b: bin_("+", a, b)
    mul = lambda a, b: bin_("*", a, b)
    lt = lambda a, b: bin_("<", a, b)
    spin = lambda name, n, body: [decl(name, I(0)), while_(lt(var(name), I(n)), body + [set_(name, add(var(name), I(1)))])]
    P = lambda body, tags, vars_=(): out.append(prog("", body, vars_, ["async"] + tags))
    P([decl("f", async_([ret(add(I(1), I(2)))])), ret(await_(var("f")))], ["simple"])
    P([decl("f", async_([decl("x", I(10)), decl("y", I(20)), ret(add(var("x"), var("y")))])), decl("r", await_(var("f"))), ret(obj([("value", var("r"))]))], ["locals-in-block"])
    P([decl("f1", async_([ret(I(100))])), decl("f2", async_([ret(I(200))])), decl("f3", async_([ret(I(300))])),
       decl("r3", await_(var("f3"))), decl("r1", await_(var("f1"))), decl("r2", await_(var("f2"))), ret(arr([var("r1"), var("r2"), var("r3")]))], ["three-awaited-out-of-order"])
    P([decl("f", async_([ret(I(7))])), ret(arr([await_(var("f")), await_(var("f")), await_(var("f"))]))], ["await-thrice"])
    P([decl("f", async_([ret(I(7))])), decl("g", var("f")), ret(arr([await_(var("g")), await_(var("f"))]))], ["two-awaiters-via-copy"])
    # the parent goes on declaring and assigning while the block reads
    P([decl("a", I(1)), decl("f", async_(spin("i", 20, [decl("t", add(var("a"), var("i")))]) + [ret(mul(var("a"), I(2)))])),
       decl("b", I(5)), set_("a", I(7)), decl("c", arr([var("a"), var("b")])), decl("d", I(9)), decl("e", add(var("d"), var("b"))),
       ret(arr([await_(var("f")), var("a"), var("c"), var("e")]))], ["parent-declares-and-assigns-while-block-reads"])
    P([decl("a", I(1))] + [decl("f", async_(spin("i", 20, [decl("t", add(var("a"), var("i")))]) + [ret(var("a"))]))]
      + spin("j", 20, [decl("u", add(var("j"), I(1))), set_("a", add(var("a"), I(1)))]) + [ret(arr([await_(var("f")), var("a")]))], ["parent-loop-assigns-what-block-reads"])
    # the block writes names of the parent: the write stays in the block
    P([decl("a", I(1)), decl("f", async_([set_("a", I(99)), ret(var("a"))])), decl("r", await_(var("f"))), ret(arr([var("r"), var("a")]))], ["block-assigns-parent-name"])
    P([decl("a", I(1)), decl("f", async_([decl("a", I(50)), ret(var("a"))])), decl("r", await_(var("f"))), ret(arr([var("r"), var("a")]))], ["block-declares-parent-name"])
    P([decl("f", async_([decl("z", I(5)), ret(var("z"))])), decl("r", await_(var("f"))), decl("z", I(6)), ret(arr([var("r"), var("z")]))], ["block-local-not-visible-to-parent"])
    P([decl("f", async_([decl("z", I(5)), ret(var("z"))])), decl("r", await_(var("f"))), ret(var("z"))], ["block-local-undefined-in-parent"])
    # two blocks, same parent names
    P([decl("n", I(3)), decl("f", async_([decl("s", I(0))] + [for_(None, "v", arr([I(1), I(2), I(3)]), [set_("s", add(var("s"), mul(var("v"), var("n"))))]), ret(var("s"))])),
       decl("g", async_([decl("s", I(100))] + [for_(None, "v", arr([I(1), I(2)]), [set_("s", add(var("s"), var("n")))]), ret(var("s"))])),
       set_("n", I(1000)), ret(arr([await_(var("f")), await_(var("g")), var("n")]))], ["two-blocks-same-names"])
    # control flow inside blocks
    for qv in (vint(5), vint(-2), vint(0)):
        q = [("qi", qv)]
        P([decl("f", async_([if_(lt(var("qi"), I(0)), [ret(I(-1))], [ret(I(1))])])), ret(await_(var("f")))], ["control", "if-else-returns"], q)
        P([decl("f", async_([if_(lt(var("qi"), I(0)), [ret(I(-1))]), decl("t", mul(var("qi"), I(2))), ret(var("t"))])), ret(await_(var("f")))], ["control", "guard-then-fallthrough"], q)
        P([decl("f", async_([decl("i", I(0)), decl("s", I(0)), while_(lt(var("i"), var("qi")), [set_("s", add(var("s"), var("i"))), set_("i", add(var("i"), I(1)))]), ret(var("s"))])),
           ret(await_(var("f")))], ["control", "while"], q)
        P([decl("f", async_([decl("s", I(0)), for_("k", "v", arr([I(4), I(5), I(6)]), [if_(bin_("==", var("k"), I(1)), [cont()]), if_(bin_("==", var("v"), var("qi")), [brk()]), set_("s", add(var("s"), var("v")))]), ret(var("s"))])),
           ret(await_(var("f")))], ["control", "for-break-continue"], q)
        P([decl("f", async_([switch(var("qi"), [(I(5), [ret(lit(vstr("five")))]), (I(0), [ret(lit(vstr("zero")))])], [ret(lit(vstr("other")))])])), ret(await_(var("f")))], ["control", "switch"], q)
        P([decl("f", async_([decl("i", I(0)), while_(T, [set_("i", add(var("i"), I(1))), if_(bin_(">", var("i"), I(3)), [ret(var("i"))])]), ret(I(-1))])), ret(await_(var("f")))], ["control", "return-from-loop"], q)
    # nesting
    P([decl("top", I(4)), decl("f", async_([decl("g", async_([ret(mul(var("top"), I(10)))])), ret(add(await_(var("g")), I(1)))])), ret(await_(var("f")))], ["nested", "inner-reads-outermost-only"])
    P([decl("top", I(4)), decl("f", async_([decl("mid", add(var("top"), I(1))), decl("g", async_([ret(add(var("top"), var("mid")))])), ret(await_(var("g")))])), ret(await_(var("f")))], ["nested", "inner-reads-both"])
    P([decl("f", async_([decl("g", async_([decl("h", async_([ret(I(3))])), ret(add(await_(var("h")), I(1)))])), ret(add(await_(var("g")), I(1)))])), ret(await_(var("f")))], ["nested", "three-deep"], [("qi", vint(2))])
    P([decl("top", I(4)), decl("f", async_([decl("g", async_([ret(var("qi"))])), ret(await_(var("g")))])), ret(await_(var("f")))], ["nested", "inner-reads-request-input"], [("qi", vint(41))])
    # failures
    P([decl("f", async_([ret(bin_("/", I(1), I(0)))])), ret(await_(var("f")))], ["error", "awaited"])
    P([decl("f", async_([ret(bin_("/", I(1), I(0)))])), ret(I(5))], ["error", "never-awaited"])
    P([decl("f", async_([ret(var("nope"))])), decl("g", async_([ret(I(2))])), decl("r", await_(var("g"))), ret(await_(var("f")))], ["error", "undefined-in-block"])
    P([decl("f", async_([ret(bin_("/", I(1), I(0)))])), decl("ok", I(1)), if_(F, [ret(await_(var("f")))]), ret(var("ok"))], ["error", "await-not-reached"])
    P([ret(await_(I(5)))], ["await-non-future"])
    P([decl("x", I(5)), ret(add(await_(var("x")), I(1)))], ["await-non-future-var"])
    P([decl("f", async_([brk(), ret(I(1))])), ret(await_(var("f")))], ["error", "break-outside-loop-in-block"])
    P([decl("f", async_([decl("s", I(3))])), ret(await_(var("f")))], ["block-without-return"])
    P([decl("f", async_([ret(arr([I(1), obj([("a", lit(vfloat(2.5)))]), lit(vnull())]))])), ret(await_(var("f")))], ["structured-value"])
    # the request body is the route's; a block works on the values it saw when it was started and changes nothing the
    # route sees (numbers of a JSON body are floats)
    IN = [("input", vobj([("n", vfloat(1.0)), ("tags", varr([vstr("a")])), ("p", vobj([("q", vfloat(2.0))]))]))]
    Fl = lambda x: lit(vfloat(x))
    out.append(prog("", [decl("f", async_([pset("input", ["n"], Fl(9.0)), ret(field(var("input"), "n"))])), decl("r", await_(var("f"))), ret(arr([var("r"), field(var("input"), "n")]))], IN, ["async", "request-body", "block-assigns-a-field"]))
    out.append(prog("", [decl("f", async_([pset("input", [lit(vstr("k"))], Fl(5.0), dollar=False), ret(field(var("input"), "k"))])), decl("r", await_(var("f"))), ret(arr([var("r"), var("input")]))], IN, ["async", "request-body", "block-adds-a-key"]))
    out.append(prog("", [decl("f", async_([pset("input", ["p", "q"], Fl(7.0)), ret(var("input"))])), pset("input", ["n"], Fl(3.0)), decl("r", await_(var("f"))), ret(arr([field(field(var("r"), "p"), "q"), field(var("r"), "n"), field(field(var("input"), "p"), "q"), field(var("input"), "n")]))], IN, ["async", "request-body", "both-sides-assign"]))
    out.append(prog("", [decl("f", async_([pset("input", ["tags", lit(vint(0))], lit(vstr("z"))), ret(field(var("input"), "tags"))])), decl("r", await_(var("f"))), ret(arr([var("r"), field(var("input"), "tags")]))], IN, ["async", "request-body", "block-assigns-an-element"]))
    out.append(prog("", [decl("f", async_([ret(field(var("input"), "n"))])), pset("input", ["n"], Fl(4.0)), ret(arr([await_(var("f")), field(var("input"), "n")]))], IN, ["async", "request-body", "route-assigns-after-the-start"]))
    return out


class AsyncGen(Gen):
    def program(self):
        r = self.r
        vars_ = []
        env = {}
        if r.random() < 0.6:
            vars_.append(("qi", vint(r.choice([0, 1, 4, 9]))))
            env["qi"] = "int"
        body = []
        pre = self.block(env, 1, False, n=r.randint(1, 3))
        body += pre
        for s_ in pre:
            if s_["s"] == "decl" and s_["x"]["e"] != "async":
                env.setdefault(s_["n"], self._type_of(s_, env))
        futs = []
        for k in range(r.randint(1, 3)):
            inner = self.block(dict(env), 1, False, n=r.randint(1, 3))
            ienv = dict(env)
            for s_ in inner:
                if s_["s"] == "decl":
                    ienv.setdefault(s_["n"], self._type_of(s_, ienv))
            if r.random() < 0.25:
                inner.append(decl("g%d" % k, async_(self.block(dict(ienv), 1, False, n=1) + [ret(self.expr("int", ienv))])))
                inner.append(ret(arr([await_(var("g%d" % k)), self.expr("int", ienv)])))
            else:
                inner.append(ret(self.expr(r.choice(["int", "arr", "str"]), ienv)))
            body.append(decl("f%d" % k, async_(inner)))
            futs.append("f%d" % k)
            # the parent goes on
            more = self.block(env, 1, False, n=r.randint(0, 3))
            body += more
            for s_ in more:
                if s_["s"] == "decl":
                    env.setdefault(s_["n"], self._type_of(s_, env))
        order = futs[:]
        r.shuffle(order)
        if r.random() < 0.3:
            order.append(r.choice(futs))
        outs = []
        for i, f in enumerate(order):
            body.append(decl("r%d" % i, await_(var(f))))
            outs.append(var("r%d" % i))
        names = [n for n in env if n not in ("qi",)][:3]
        return prog("", body + [ret(arr(outs + [var(n) for n in names]))], vars_=vars_, tags=["async", "random"])

    def _type_of(self, st, env):
        return self._ty(st["x"], env)

    def _ty(self, e, env):
        k = e["e"]
        if k == "lit":
            return e["v"]["k"]
        if k == "var":
            return env.get(e["n"], "int")
        if k == "arr":
            return "arr"
        if k == "obj":
            return "obj"
        if k == "un":
            return "bool" if e["op"] == "!" else self._ty(e["a"], env)
        if k == "bin":
            if e["op"] in ("==", "!=", "<", "<=", ">", ">=", "&&", "||"):
                return "bool"
            a, b = self._ty(e["a"], env), self._ty(e["b"], env)
            if a == "str" or b == "str":
                return "str"
            if a == "arr":
                return "arr"
            return "float" if "float" in (a, b) else "int"
        if k in ("idx", "call"):
            return "int"
        return "int"


def _no_continue_in_while(stmts, inwhile=False):
    """random while loops count upwards and increment last: a `continue` would skip the increment and spin to the
    iteration limit, which says nothing about async blocks and takes seconds"""
    out = []
    for pos, s_ in enumerate(stmts):
        k = s_["s"]
        if k == "continue" and inwhile:
            out.append(expr(call("length", lit(vstr("c")))))
            continue
        if k in ("set", "decl") and inwhile and len(s_["n"]) == 2 and s_["n"][0] == "i" and s_["n"][1].isdigit() and not (inwhile == "top" and pos == len(stmts) - 1):
            out.append(expr(call("length", lit(vstr("i")))))      # only the loop's own last statement moves its counter
            continue
        s_ = dict(s_)
        if k == "if":
            s_["t"] = _no_continue_in_while(s_["t"], inwhile and "nested")
            s_["f"] = _no_continue_in_while(s_["f"], inwhile and "nested")
        elif k == "while":
            s_["b"] = _no_continue_in_while(s_["b"], "top")
        elif k == "for":
            s_["b"] = _no_continue_in_while(s_["b"], False)
        elif k == "switch":
            s_["cases"] = [dict(c, b=_no_continue_in_while(c["b"], inwhile and "nested")) for c in s_["cases"]]
            s_["d"] = _no_continue_in_while(s_["d"], inwhile and "nested")
        if k in ("decl", "set") and s_["x"]["e"] == "async":
            s_["x"] = async_(_no_continue_in_while(s_["x"]["b"], False))
        out.append(s_)
    return out


def async_programs(tier, seed):
    rnd = random.Random(seed * 7919 + 11)
    progs = async_table()
    g = AsyncGen(rnd)
    for _ in range(150 if tier == "quick" else 3000):
        p = g.program()
        p["body"] = _no_continue_in_while(p["body"])
        progs.append(p)
    for i, p in enumerate(progs):
        p["id"] = i
    return progs


# ---- match expressions and string builtins (GlyphCore v2) ---------------------------------------------------
def match_table():
    out = []
    I = lambda n: lit(vint(n))
    S = lambda x: lit(vstr(x))
    T, F = lit(vbool(True)), lit(vbool(False))
    add = lambda a, b: bin_("+", a, b)
    P = lambda body, tags, vars_=(): out.append(prog("", body, vars_, ["match"] + tags))
    subjects = {"int": I(2), "float": lit(vfloat(2.0)), "str": S("ab"), "bool": T, "null": lit(vnull()), "arr": arr([I(1), I(2)]), "obj": obj([("a", I(1)), ("b", S("x"))])}
    lits = {"int": vint(2), "float": vfloat(2.0), "str": vstr("ab"), "bool": vbool(True), "null": vnull()}
    # literal patterns against every kind of subject (a type mismatch is "no match", never an error)
    for sk, sv in subjects.items():
        for lk, lv in lits.items():
            P([decl("v", sv), ret(match_(var("v"), [(plit(lv), None, S("hit")), (pwild(), None, S("miss"))]))], ["literal", "%s-vs-%s" % (sk, lk)])
        P([decl("v", sv), ret(match_(var("v"), [(plit(vint(77)), None, S("hit"))]))], ["no-case-matches", sk])
        P([decl("v", sv), ret(match_(var("v"), [(pvar("w"), None, arr([var("w"), var("w")]))]))], ["variable-binds", sk])
        P([decl("v", sv), ret(match_(var("v"), [(parr([pvar("p"), pvar("q")]), None, arr([var("q"), var("p")])), (parr([pvar("h")], "t"), None, var("t")), (pobj([("a", None)]), None, var("a")), (pwild(), None, S("other"))]))], ["shape-dispatch", sk])
    # order, guards
    for qv in (vint(1), vint(5), vint(50)):
        q = [("qi", qv)]
        P([ret(match_(var("qi"), [(plit(vint(1)), None, S("one")), (pvar("n"), bin_(">", var("n"), I(10)), S("big")), (pvar("n"), None, add(var("n"), I(100)))]))], ["guard", "falls-through-to-next"], q)
        P([ret(match_(var("qi"), [(pvar("n"), None, S("first")), (plit(vint(1)), None, S("second"))]))], ["order", "first-match-wins"], q)
        # a case that bound names and then failed must leave nothing behind
        P([decl("n", I(100)), ret(match_(var("qi"), [(pvar("n"), bin_(">", var("n"), I(10)), S("big")), (pwild(), None, var("n"))]))], ["bindings", "failed-guard-leaves-no-binding"], q)
        P([decl("limit", I(20)), ret(match_(arr([var("qi"), I(7)]), [(parr([pvar("limit"), plit(vint(8))]), None, S("never")), (parr([pvar("x"), pwild()]), bin_("<", var("x"), var("limit")), S("under")), (pwild(), None, S("over"))]))], ["bindings", "partial-destructure-leaves-no-binding"], q)
        P([decl("a", I(9)), ret(match_(obj([("a", var("qi")), ("b", I(2))]), [(pobj([("a", None), ("zz", None)]), None, S("never")), (pobj([("b", pvar("k"))]), None, arr([var("a"), var("k")]))]))], ["bindings", "object-field-binding-dropped-on-missing-key"], q)
        P([decl("n", I(100)), decl("r", match_(var("qi"), [(pvar("n"), None, add(var("n"), I(1)))])), ret(arr([var("r"), var("n")]))], ["bindings", "binding-shadows-not-overwrites"], q)
        P([ret(match_(var("qi"), [(pvar("n"), I(1), S("x"))]))], ["guard", "non-boolean-guard"], q)
        P([ret(match_(var("qi"), [(pvar("n"), bin_("==", bin_("/", I(1), I(0)), I(1)), S("x")), (pwild(), None, S("y"))]))], ["guard", "failing-guard-expression"], q)
        P([ret(match_(bin_("/", var("qi"), I(0)), [(pwild(), None, S("x"))]))], ["subject-fails"], q)
    # destructuring
    P([ret(match_(arr([I(1), I(2), I(3)]), [(parr([pvar("a"), pvar("b")]), None, S("two")), (parr([pvar("a"), pvar("b"), pvar("c")]), None, arr([var("c"), var("b"), var("a")]))]))], ["array", "exact-length"])
    P([ret(match_(arr([I(1), I(2), I(3)]), [(parr([pvar("h")], "t"), None, arr([var("h"), var("t")]))]))], ["array", "rest"])
    P([ret(match_(arr([I(1)]), [(parr([pvar("h")], "t"), None, arr([var("h"), var("t")]))]))], ["array", "rest-empty"])
    P([ret(match_(arr([]), [(parr([pvar("h")], "t"), None, S("some")), (parr([]), None, S("empty"))]))], ["array", "empty"])
    P([ret(match_(arr([I(1), arr([I(2), I(3)])]), [(parr([pvar("a"), parr([pvar("b"), plit(vint(9))])]), None, S("never")), (parr([pvar("a"), parr([pvar("b"), pvar("c")])]), None, arr([var("a"), var("b"), var("c")]))]))], ["array", "nested"])
    P([ret(match_(obj([("a", I(1)), ("b", obj([("c", S("deep"))]))]), [(pobj([("b", pobj([("c", pvar("x"))]))]), None, var("x"))]))], ["object", "nested"])
    P([ret(match_(obj([("a", I(1))]), [(pobj([("a", plit(vint(2)))]), None, S("two")), (pobj([("a", plit(vfloat(1.0)))]), None, S("one-as-float")), (pwild(), None, S("other"))]))], ["object", "literal-field"])
    P([decl("r", match_(I(3), [(plit(vint(3)), None, match_(S("in"), [(pvar("s"), None, add(var("s"), S("ner")))]))])), ret(var("r"))], ["nested-match"])
    return out


def string_table():
    out = []
    I = lambda n: lit(vint(n))
    S = lambda x: lit(vstr(x))
    P = lambda body, tags, vars_=(): out.append(prog("", body, vars_, ["strings"] + tags))
    cjk40 = "\u65e5\u672c\u8a9e\u6f22\u5b57" * 8          # 40 characters, 120 bytes
    cjk70 = "\u65e5\u672c\u8a9e\u6f22\u5b57\u4eee\u540d" * 10   # 70 characters
    acc51 = "na\u00efve caf\u00e9 " * 4 + "abc"            # 51 characters, more bytes
    strs = {"ascii": "Hello, World", "empty": "", "cjk": "\u65e5\u672c\u8a9e", "cjk40": cjk40, "cjk70": cjk70, "mixed": "a\u65e5b\u672cc", "accent51": acc51,
            "ascii64": "x" * 64, "ascii20": "short ascii string!!"}
    for name, sv in strs.items():
        n = len(sv)
        for a, b in [(0, 0), (0, 1), (0, n), (n, n), (0, n + 1), (n + 1, n + 1), (1, 0), (-1, 1), (0, 64), (0, 32), (0, 33), (2, min(5, n)), (n - 1 if n else 0, n)]:
            P([decl("s", S(sv)), ret(calln("substring", var("s"), I(a), I(b)))], ["substring", name, "%d:%d" % (a, b)])
        P([decl("s", S(sv)), ret(arr([call("length", var("s")), calln("upper", var("s")) if name not in ("accent51",) else I(0), calln("lower", var("s")) if name not in ("accent51",) else I(0), calln("trim", add_ws(var("s")))]))], ["case-trim-length", name])
        for t in ("", "o", "\u672c", "zz", sv):
            P([decl("s", S(sv)), ret(arr([calln("contains", var("s"), S(t)), calln("split", var("s"), S(t)) if n <= 12 else I(0)]))], ["contains-split", name, "t=%d" % len(t)])
    P([ret(calln("split", S("a,b,,c,"), S(",")))], ["split", "empty-pieces"])
    P([ret(calln("split", S("abc"), S("")))], ["split", "empty-separator"])
    P([ret(calln("join", arr([S("a"), I(2), S("c")]), S("-")))], ["join", "strings-and-ints"])
    P([ret(calln("join", arr([]), S("-")))], ["join", "empty"])
    P([ret(calln("join", calln("split", S("a b c"), S(" ")), S("+")))], ["join", "of-split"])
    # wrong types and arities are errors, not crashes
    for fn, good in (("upper", [S("a")]), ("lower", [S("a")]), ("trim", [S("a")]), ("contains", [S("ab"), S("a")]), ("substring", [S("abc"), I(0), I(1)]), ("split", [S("a b"), S(" ")]), ("join", [arr([S("a")]), S(",")])):
        bads = [I(1), lit(vnull()), arr([I(1)]), obj([("a", I(1))]), lit(vbool(True)), lit(vfloat(1.5))]
        for pos in range(len(good)):
            for bad in bads:
                args = list(good)
                args[pos] = bad
                P([ret(calln(fn, *args))], ["bad-argument", fn, "arg%d" % pos])
        P([ret(calln(fn, *good[:-1]))], ["arity", fn, "one-less"])
        P([ret(calln(fn, *(good + [S("x")])))], ["arity", fn, "one-more"])
    return out


def add_ws(e):
    return bin_("+", bin_("+", lit(vstr("  \t")), e), lit(vstr(" \n ")))


def v2_programs(tier, seed):
    progs = match_table() + string_table()
    for i, p in enumerate(progs):
        p["id"] = i
    return progs


# ---- guards and status returns -------------------------------------------------------------------------------
def status_table():
    out = []
    I = lambda n: lit(vint(n))
    S = lambda x: lit(vstr(x))
    T, F = lit(vbool(True)), lit(vbool(False))
    lt = lambda a, b: bin_("<", a, b)
    P = lambda body, tags, vars_=(): out.append(prog("", body, vars_, ["status"] + tags))
    for st in (200, 201, 202, 204, 301, 400, 401, 404, 409, 418, 422, 500, 503):
        P([ret(obj([("a", I(1))]), st)], ["return", str(st)])
        P([guard_(F, st, "no"), ret(I(1))], ["guard-fails", str(st)])
        P([guard_(T, st, "no"), ret(I(1))], ["guard-holds", str(st)])
    for qv in (vint(5), vint(-2), vint(0)):
        q = [("qi", qv)]
        P([guard_(bin_(">", var("qi"), I(0)), 400, "must be positive"), guard_(lt(var("qi"), I(3)), 422, "too big"), ret(var("qi"), 201)], ["guard-chain"], q)
        P([if_(lt(var("qi"), I(0)), [ret(S("neg"), 404)], [guard_(bin_("!=", var("qi"), I(0)), 409, "zero")]), ret(S("ok"))], ["in-branches"], q)
        P([decl("i", I(0)), while_(lt(var("i"), I(5)), [guard_(bin_("!=", var("i"), var("qi")), 418, "hit"), set_("i", bin_("+", var("i"), I(1)))]), ret(var("i"), 202)], ["guard-in-loop"], q)
        P([for_(None, "v", arr([I(1), I(5), I(9)]), [if_(bin_("==", var("v"), var("qi")), [ret(var("v"), 201)])]), ret(S("none"), 404)], ["return-in-for"], q)
        P([switch(var("qi"), [(I(5), [ret(S("five"), 201)]), (I(0), [guard_(F, 400, "zero")])], [ret(S("other"), 404)]), ret(S("after"))], ["in-switch"], q)
        P([decl("f", async_([guard_(lt(var("qi"), I(0)), 400, "in block"), ret(I(7), 201)])), ret(await_(var("f")))], ["inside-async-block"], q)
    P([guard_(I(1), 400, "x"), ret(I(1))], ["guard-non-boolean"])
    P([guard_(bin_("==", bin_("/", I(1), I(0)), I(1)), 400, "x"), ret(I(1))], ["guard-condition-fails"])
    P([guard_(F, 404, "a \"quoted\" message"), ret(I(1))], ["message-with-quotes"])
    P([ret(bin_("/", I(1), I(0)), 201)], ["failing-value-with-status"])
    return out


# ---- functions the module declares ------------------------------------------------------------------------------
def function_table():
    out = []
    I = lambda n: lit(vint(n))
    S = lambda x: lit(vstr(x))
    add = lambda a, b: bin_("+", a, b)
    mul = lambda a, b: bin_("*", a, b)
    lt = lambda a, b: bin_("<", a, b)
    P = lambda funcs, body, tags, vars_=(): out.append(prog("", body, vars_, ["functions"] + tags, funcs))
    addf = func("addf", ["a", "b"], [ret(add(var("a"), var("b")))])
    fact = func("fact", ["n"], [if_(bin_("<=", var("n"), I(1)), [ret(I(1))]), ret(mul(var("n"), fcall("fact", bin_("-", var("n"), I(1)))))])
    fib = func("fib", ["n"], [if_(lt(var("n"), I(2)), [ret(var("n"))]), ret(add(fcall("fib", bin_("-", var("n"), I(1))), fcall("fib", bin_("-", var("n"), I(2)))))])
    P([addf], [ret(fcall("addf", I(1), I(2)))], ["call"])
    P([addf], [ret(fcall("addf", S("a"), S("b")))], ["call", "strings"])
    P([addf], [ret(fcall("addf", I(1), arr([I(2)])))], ["call", "body-fails"])
    P([addf], [ret(fcall("addf", bin_("/", I(1), I(0)), I(2)))], ["call", "argument-fails"])
    P([addf], [ret(fcall("addf", I(1)))], ["arity", "one-less"])
    P([addf], [ret(fcall("addf", I(1), I(2), I(3)))], ["arity", "one-more"])
    P([], [ret(fcall("nosuch", I(1)))], ["undefined-function"])
    for n in (0, 1, 5, 8):
        P([fact], [ret(fcall("fact", I(n)))], ["recursion", "fact", str(n)])
        P([fib], [ret(fcall("fib", I(n)))], ["recursion", "fib", str(n)])
    P([func("f", ["a"], [ret(fcall("f", add(var("a"), I(1))))])], [ret(fcall("f", I(0)))], ["recursion", "without-end"])
    P([func("f", ["a"], [ret(add(I(1), fcall("f", var("a"))))])], [ret(fcall("f", I(0)))], ["recursion", "without-end", "pending-work"])
    P([func("ping", ["a"], [ret(fcall("pong", var("a")))]), func("pong", ["a"], [ret(fcall("ping", var("a")))])], [ret(fcall("ping", I(0)))], ["recursion", "mutual-without-end"])
    P([func("f", ["a"], [decl("r", I(0)), for_(None, "v", arr([var("a")]), [set_("r", fcall("f", var("v")))]), ret(var("r"))])], [ret(fcall("f", I(0)))], ["recursion", "without-end", "through-a-loop"])
    # scoping: a function sees neither the caller's variables nor leaves any behind
    P([func("f", [], [ret(var("x"))])], [decl("x", I(5)), ret(fcall("f"))], ["scope", "caller-variable-not-visible"])
    P([func("f", ["a"], [decl("x", add(var("a"), I(1))), ret(var("x"))])], [decl("x", I(5)), decl("r", fcall("f", I(1))), ret(arr([var("r"), var("x")]))], ["scope", "local-declaration-does-not-touch-caller"])
    P([func("f", ["a"], [set_("x", add(var("a"), I(1))), ret(var("x"))])], [decl("x", I(5)), decl("r", fcall("f", I(1))), ret(arr([var("r"), var("x")]))], ["scope", "assignment-to-caller-variable-is-undefined"])
    P([func("g", [], [ret(var("y"))]), func("f", [], [decl("y", I(7)), ret(fcall("g"))])], [ret(fcall("f"))], ["scope", "callee-does-not-see-callers-locals"])
    P([func("f", ["a"], [decl("t", mul(var("a"), I(2))), ret(var("t"))])], [decl("r", fcall("f", I(4))), ret(var("t"))], ["scope", "function-local-not-visible-after"])
    P([func("f", ["a"], [set_("a", add(var("a"), I(1))), ret(var("a"))])], [decl("a", I(10)), decl("r", fcall("f", var("a"))), ret(arr([var("r"), var("a")]))], ["scope", "parameter-is-a-copy"])
    P([func("f", ["xs"], [ret(add(var("xs"), arr([I(9)])))])], [decl("xs", arr([I(1)])), decl("r", fcall("f", var("xs"))), ret(arr([var("r"), var("xs")]))], ["scope", "array-argument-not-aliased"])
    P([func("f", ["n"], [decl("i", I(0)), decl("s", I(0)), while_(lt(var("i"), var("n")), [set_("s", add(var("s"), var("i"))), set_("i", add(var("i"), I(1)))]), ret(var("s"))])],
      [decl("i", I(100)), decl("r", fcall("f", I(4))), ret(arr([var("r"), var("i")]))], ["scope", "loop-counter-in-function-and-caller"])
    P([func("f", ["a"], [decl("t", var("a"))])], [ret(fcall("f", I(3)))], ["body-without-return"])
    P([func("pick", ["v"], [ret(match_(var("v"), [(plit(vint(1)), None, S("one")), (pvar("n"), None, add(var("n"), I(1)))]))])], [ret(arr([fcall("pick", I(1)), fcall("pick", I(5))]))], ["match-in-function"])
    P([addf, fact], [ret(fcall("addf", fcall("fact", I(3)), fcall("fact", I(4))))], ["nested-calls"])
    P([addf], [decl("f", async_([ret(fcall("addf", I(1), I(2)))])), ret(await_(var("f")))], ["call-in-async-block"])
    return out


# ---- the documented builtins of section 10 not in the string table, keys(), and the pipe operator -----------------
def builtin_table():
    out = []
    I = lambda n: lit(vint(n))
    F = lambda x: lit(vfloat(x))
    S = lambda x: lit(vstr(x))
    N = lit(vnull())
    P = lambda body, tags, vars_=(), funcs=(): out.append(prog("", body, vars_, ["builtins"] + tags, funcs))
    strs = {"ascii": "hello world", "empty": "", "cjk": "日本語日本", "mixed": "a日b本c日", "rep": "aaaa"}
    needles = ["", "h", "hello", "world", "o w", "l", "zz", "日", "本", "本c", "aa", "a", "hello world!", "日本語日本"]
    for name, sv in strs.items():
        for t in needles:
            P([decl("s", S(sv)), ret(arr([calln("startsWith", var("s"), S(t)), calln("endsWith", var("s"), S(t)), calln("indexOf", var("s"), S(t))]))], ["prefix-suffix-index", name, "t=" + repr(t)])
            if t:
                P([decl("s", S(sv)), ret(calln("replace", var("s"), S(t), S("<>")))], ["replace", name, "t=" + repr(t)])
        P([decl("s", S(sv)), ret(calln("replace", var("s"), S("a"), S("")))], ["replace", name, "delete"])
        P([decl("s", S(sv)), ret(calln("replace", var("s"), S("a"), S("aa")))], ["replace", name, "grow"])
        for i in (-1, 0, 1, len(sv) - 1, len(sv), len(sv) + 1):
            P([decl("s", S(sv)), ret(calln("charAt", var("s"), I(i)))], ["charAt", name, str(i)])
    P([ret(calln("charAt", S("abc"), lit(vbig(2 ** 53))))], ["charAt", "big-index"])
    P([ret(calln("charAt", S("abc"), var("i")))], ["charAt", "index-from-input"], [("i", vint(2))])
    nums = [I(3), I(7), I(-2), I(0), F(3.0), F(7.5), F(-2.25), F(0.0)]
    for a in nums:
        for b in nums:
            P([ret(arr([calln("min", a, b), calln("max", a, b)]))] if a["v"]["k"] == b["v"]["k"] else [ret(calln("min", a, b))],
              ["min-max", "%s-%s" % (a["v"]["k"], b["v"]["k"]), "%s,%s" % (a["v"].get("v", a["v"].get("q")), b["v"].get("v", b["v"].get("q")))])
            if a["v"]["k"] != b["v"]["k"]:
                P([ret(calln("max", a, b))], ["min-max", "%s-%s" % (a["v"]["k"], b["v"]["k"]), "max", "%s,%s" % (a["v"].get("v", a["v"].get("q")), b["v"].get("v", b["v"].get("q")))])
    P([ret(calln("min", var("x"), F(1.0)))], ["min-max", "nan"], [("x", vnan())])
    for sv in ("42", "-17", "+5", "0", "007", "  12  ", "\t9\n", "", " ", "abc", "12abc", "1.5", "1e3", "0x10", "--5", "+-5", "5-", "1 2", "999999", "1234567", "9223372036854775808", "-", "+", "1_000", "٤٢"):
        P([ret(calln("parseInt", S(sv)))], ["parseInt", repr(sv)])
    P([ret(bin_("+", calln("parseInt", var("q")), I(1)))], ["parseInt", "from-input"], [("q", vstr("41"))])
    for sv in ("3.5", "-0.25", "+2.75", "10", "0", "0.0", ".5", "5.", "-.5", "  1.5  ", "1.50", "1.500", "0.250", "3.14", "0.1", "", ".", "-", "abc", "1.2.3", "1..2", "1,5", "1 .5", "1e3", "1E-2", "inf", "-Inf", "nan", "NaN", "Infinity", "0x1p-2", "1_0.5", "12345.5", "123456.5", "0.12345"):
        P([ret(calln("parseFloat", S(sv)))], ["parseFloat", repr(sv)])
    P([ret(bin_("*", calln("parseFloat", var("q")), I(2)))], ["parseFloat", "from-input"], [("q", vstr("2.25"))])
    for name, v in (("int", I(42)), ("negative", I(-7)), ("zero", I(0)), ("string", S("a b")), ("empty-string", S("")), ("true", lit(vbool(True))), ("false", lit(vbool(False))), ("null", N),
                    ("float", F(3.5)), ("float-whole", F(3.0)), ("float-negative", F(-0.25)), ("float-zero", F(0.0)), ("big", lit(vbig(2 ** 53 + 1))), ("array", arr([I(1), I(2)])), ("object", obj([("a", I(1))])),
                    ("sum", bin_("+", I(40), I(2))), ("division", bin_("/", F(7.0), I(2)))):
        P([ret(calln("toString", v))], ["toString", name])
        P([ret(bin_("+", S("v="), calln("toString", v)))], ["toString", name, "concatenated"])
    P([ret(calln("toString", var("x")))], ["toString", "nan"], [("x", vnan())])
    P([ret(calln("parseInt", calln("toString", I(123))))], ["toString", "round-trip-int"])
    P([ret(calln("parseFloat", calln("toString", F(2.5))))], ["toString", "round-trip-float"])
    # keys(): ascending, the same every time
    for ks in (["b", "a", "c"], ["y", "x", "n", "k2", "k1", "c", "b", "a"], ["a"], []):
        P([decl("o", obj([(k, I(i)) for i, k in enumerate(ks)])), ret(calln("keys", var("o")))], ["keys", "literal", str(len(ks))])
        P([decl("o", obj([(k, I(i)) for i, k in enumerate(ks)])), decl("s", S("")), for_(None, "k", calln("keys", var("o")), [set_("s", bin_("+", var("s"), var("k")))]), ret(var("s"))], ["keys", "iterated", str(len(ks))])
    P([ret(call("length", calln("keys", obj([("a", I(1)), ("b", I(2))]))))], ["keys", "count"])
    # wrong types and arities
    goods = (("startsWith", [S("ab"), S("a")]), ("endsWith", [S("ab"), S("b")]), ("indexOf", [S("ab"), S("b")]), ("charAt", [S("ab"), I(0)]), ("replace", [S("ab"), S("a"), S("c")]),
             ("min", [I(1), I(2)]), ("max", [I(1), I(2)]), ("parseInt", [S("1")]), ("parseFloat", [S("1.5")]), ("keys", [obj([("a", I(1))])]))
    for fn, good in goods:
        bads = [I(1), N, arr([I(1)]), obj([("a", I(1))]), lit(vbool(True)), F(1.5), S("s")]
        for pos in range(len(good)):
            for bad in bads:
                goodk = good[pos]["v"]["k"] if good[pos]["e"] == "lit" else "obj"
                badk = bad["v"]["k"] if bad["e"] == "lit" else {"arr": "arr", "obj": "obj"}[bad["e"]]
                if badk == goodk:
                    continue
                args = list(good)
                args[pos] = bad
                P([ret(calln(fn, *args))], ["bad-argument", fn, "arg%d" % pos, badk])
        P([ret(calln(fn, *good[:-1]))], ["arity", fn, "one-less"])
        P([ret(calln(fn, *(good + [S("x")])))], ["arity", fn, "one-more"])
    P([ret(calln("toString"))], ["arity", "toString", "one-less"])
    P([ret(calln("toString", I(1), I(2)))], ["arity", "toString", "one-more"])
    # an argument that fails: the call fails, nothing after it runs
    P([decl("x", I(0)), decl("r", calln("min", bin_("/", I(1), var("x")), I(2))), ret(S("reached"))], ["argument-fails", "min"])
    # the pipe operator: x |> f is f(x), x |> f(a) is f(x, a); it binds weaker than every binary operator, chains to the left
    dbl = func("dbl", ["a"], [ret(bin_("*", var("a"), I(2)))])
    addf = func("addf", ["a", "b"], [ret(bin_("+", var("a"), var("b")))])
    sub = func("sub", ["a", "b"], [ret(bin_("-", var("a"), var("b")))])
    Q = lambda body, tags, vars_=(), funcs=(dbl, addf, sub): out.append(prog("", body, vars_, ["pipe"] + tags, list(funcs)))
    Q([ret(pipe(I(5), "dbl", bare=True))], ["bare"])
    Q([ret(pipe(I(5), "dbl"))], ["call-no-arguments"])
    Q([ret(pipe(I(5), "addf", I(1)))], ["extra-argument"])
    Q([ret(pipe(I(5), "sub", I(1)))], ["piped-value-is-the-first-argument"])
    Q([ret(pipe(pipe(I(5), "dbl", bare=True), "addf", I(1)))], ["chain"])
    Q([ret(pipe(pipe(pipe(I(1), "addf", I(2)), "dbl", bare=True), "sub", I(10)))], ["chain", "three"])
    Q([ret(pipe(bin_("+", I(1), I(2)), "dbl", bare=True))], ["binds-weaker-than-plus"])
    Q([ret(pipe(bin_("==", I(1), I(2)), "dbl", bare=True))], ["binds-weaker-than-comparison", "body-fails"])
    Q([ret(pipe(bin_("||", lit(vbool(False)), lit(vbool(True))), "addf", S("x")))], ["binds-weaker-than-or", "body-fails"])
    Q([ret(bin_("+", pipe(I(5), "dbl", bare=True), I(1)))], ["parenthesised-operand"])
    Q([decl("x", I(4)), decl("y", pipe(var("x"), "addf", var("x"))), ret(arr([var("x"), var("y")]))], ["variables"])
    Q([ret(pipe(bin_("/", I(1), I(0)), "dbl", bare=True))], ["left-fails"])
    Q([ret(pipe(I(1), "addf", bin_("/", I(1), I(0))))], ["argument-fails"])
    Q([ret(pipe(I(1), "nosuch", bare=True))], ["undefined-function"])
    Q([ret(pipe(I(1), "addf", I(2), I(3)))], ["too-many-arguments"])
    Q([ret(pipe(I(1), "addf", bare=True))], ["missing-argument-is-null", "body-fails"])
    Q([ret(pipe(arr([I(1), I(2)]), "addf", arr([I(3)])))], ["arrays"])
    Q([ret(pipe(var("q"), "dbl", bare=True))], ["from-input"], [("q", vint(21))])
    # array builtins (not in the language specification's tables; defined here as the interpreter's dispatch table has them,
    # with values as values: no call changes an array another variable holds)
    A = lambda body, tags, vars_=(), funcs=(): out.append(prog("", body, vars_, ["arrays"] + tags, list(funcs)))
    L = lambda *xs: arr([I(x) if isinstance(x, int) else (S(x) if isinstance(x, str) else x) for x in xs])
    dbl = func("dbl", ["a"], [ret(bin_("*", var("a"), I(2)))])
    big = func("big", ["a"], [ret(bin_(">", var("a"), I(1)))])
    addf = func("addf", ["a", "b"], [ret(bin_("+", var("a"), var("b")))])
    asc = func("asc", ["a", "b"], [ret(bin_("-", var("a"), var("b")))])
    desc = func("desc", ["a", "b"], [ret(bin_("-", var("b"), var("a")))])
    lessb = func("lessb", ["a", "b"], [ret(bin_("<", var("a"), var("b")))])
    bylen = func("bylen", ["a", "b"], [ret(bin_("-", call("length", var("a")), call("length", var("b"))))])
    viadbl = func("viadbl", ["a"], [ret(bin_("+", fcall("dbl", var("a")), I(1)))])
    notbool = func("notbool", ["a"], [ret(var("a"))])
    fails = func("fails", ["a"], [ret(bin_("/", I(1), bin_("-", var("a"), I(2))))])
    isstr = func("isstr", ["a"], [ret(bin_("==", call("length", var("a")), I(1)))])
    F = (dbl, big, addf, asc, desc, lessb, bylen, viadbl, notbool, fails, isstr)
    arrays = {"three": L(3, 1, 2), "empty": L(), "one": L(7), "dups": L(2, 1, 2, 1), "five": L(5, 4, 3, 2, 1), "sorted": L(1, 2, 3)}
    for name, xs in arrays.items():
        A([decl("xs", xs), ret(arr([callh("map", var("xs"), f="dbl"), callh("filter", var("xs"), f="big"), callh("reduce", var("xs"), I(0), f="addf"), var("xs")]))], ["map-filter-reduce", name], funcs=F)
        A([decl("xs", xs), ret(arr([callh("find", var("xs"), f="big"), callh("some", var("xs"), f="big"), callh("every", var("xs"), f="big")]))], ["find-some-every", name], funcs=F)
        A([decl("xs", xs), ret(arr([callh("sort", var("xs")), callh("sort", var("xs"), f="asc"), callh("sort", var("xs"), f="desc"), callh("sort", var("xs"), f="lessb"), callh("reverse", var("xs")), var("xs")]))], ["sort-reverse", name], funcs=F)
        n = len(xs["es"])
        for a, b in ((0, n), (1, 2), (-1, 1), (0, n + 3), (2, 1), (n, n), (n + 1, n + 2), (0, -1), (-5, -2)):
            A([decl("xs", xs), ret(callh("slice", var("xs"), I(a), I(b)))], ["slice", name, "%d:%d" % (a, b)])
        A([decl("xs", xs), decl("ys", callh("append", var("xs"), I(9))), ret(arr([var("xs"), var("ys")]))], ["append", name])
    # append: each result is a value of its own (growing one array twice from the same start)
    A([decl("a", callh("append", callh("append", L(1), I(2)), I(3))), decl("b", callh("append", var("a"), I(4))), decl("c", callh("append", var("a"), I(5))), ret(arr([var("a"), var("b"), var("c")]))], ["append", "two-results-from-one-array"])
    A([decl("a", L()), decl("i", I(0)), while_(bin_("<", var("i"), I(5)), [set_("a", callh("append", var("a"), var("i"))), set_("i", bin_("+", var("i"), I(1)))]), decl("b", callh("append", var("a"), I(100))), decl("c", callh("append", var("a"), I(200))), ret(arr([var("b"), var("c")]))],
      ["append", "grown-in-a-loop-then-branched"])
    A([decl("a", L(1, 2, 3)), decl("b", callh("slice", var("a"), I(0), I(2))), decl("c", callh("append", var("b"), I(9))), ret(arr([var("a"), var("b"), var("c")]))], ["append", "to-a-slice-leaves-the-source"])
    A([decl("a", L(1, 2, 3)), decl("b", callh("reverse", var("a"))), decl("c", callh("sort", var("a"))), ret(arr([var("a"), var("b"), var("c")]))], ["results-are-new-arrays"])
    A([ret(callh("flat", arr([L(1), L(2, L(3)), I(4), L(), S("s")])))], ["flat", "one-level"])
    A([ret(callh("flat", L()))], ["flat", "empty"])
    A([ret(callh("flat", L(1, 2)))], ["flat", "nothing-nested"])
    A([ret(callh("sort", L("pear", "apple", "fig", "Apple", "apple pie", "")))], ["sort", "strings"])
    A([ret(callh("sort", arr([lit(vfloat(2.5)), lit(vfloat(-1.0)), lit(vfloat(2.25))])))], ["sort", "floats"])
    A([ret(callh("sort", L(1, "a")))], ["sort", "mixed-kinds"])
    A([ret(callh("sort", arr([I(1), lit(vfloat(2.0))])))], ["sort", "int-and-float"])
    A([ret(callh("sort", arr([lit(vnull()), lit(vnull())])))], ["sort", "nulls"])
    A([ret(callh("sort", arr([lit(vnull())])))], ["sort", "single-null"])
    A([ret(callh("sort", L("bb", "a", "ccc", "dd", "e"), f="bylen"))], ["sort", "stable-by-length"], funcs=F)
    A([ret(callh("sort", L(3, 1, 2), f="notbool"))], ["sort", "comparator-of-one-parameter"], funcs=F)
    A([ret(callh("sort", L("b", "a"), f="isstr"))], ["sort", "comparator-answers-true-always"], funcs=F)
    A([ret(callh("map", L(1, 2), f="viadbl"))], ["callback-calls-another-function"], funcs=F)
    A([ret(fcall("rec", I(1)))], ["callback-recursion-without-end"], funcs=[func("rec", ["a"], [ret(callh("map", arr([var("a")]), f="rec"))])])
    A([ret(fcall("down", I(6)))], ["callback-recursion"], funcs=[func("down", ["a"], [if_(bin_("<=", var("a"), I(0)), [ret(arr([]))]), ret(callh("flat", callh("map", arr([bin_("-", var("a"), I(1)), bin_("-", var("a"), I(2))]), f="down")))])])
    A([ret(callh("map", L(1, 2, 3), f="fails"))], ["callback-fails", "map"], funcs=F)
    A([ret(callh("filter", L(1, 3), f="fails"))], ["callback-does-not-answer-a-boolean", "filter"], funcs=F)
    A([ret(arr([callh("filter", L(1, 2), f="notbool"), callh("some", L(1, 2), f="notbool"), callh("every", L(1, 2), f="notbool"), callh("find", L(1, 2), f="notbool")]))], ["callback-does-not-answer-a-boolean"], funcs=F)
    A([ret(callh("map", L(1, 2), f="nosuch"))], ["undefined-callback"], funcs=F)
    A([ret(callh("map", L(), f="nosuch"))], ["undefined-callback", "empty-array"], funcs=F)
    A([ret(callh("reduce", L("a", "b"), S(">"), f="addf"))], ["reduce", "strings"], funcs=F)
    A([ret(callh("reduce", L(L(1), L(2)), L(), f="addf"))], ["reduce", "arrays"], funcs=F)
    A([ret(callh("reduce", L(1, 2), bin_("/", I(1), I(0)), f="addf"))], ["reduce", "initial-value-fails"], funcs=F)
    A([decl("t", I(0)), for_(None, "v", callh("map", L(1, 2, 3), f="dbl"), [set_("t", bin_("+", var("t"), var("v")))]), ret(var("t"))], ["map", "iterated"], funcs=F)
    A([ret(call("length", callh("filter", L(1, 2, 3, 4), f="big")))], ["filter", "length"], funcs=F)
    A([ret(callh("map", callh("filter", L(1, 2, 3), f="big"), f="dbl"))], ["nested"], funcs=F)
    A([ret(callh("map", var("q"), f="dbl"))], ["map", "not-an-array"], [("q", vint(3))], funcs=F)
    for fn, extra in (("map", []), ("filter", []), ("find", []), ("some", []), ("every", []), ("reduce", [I(0)]), ("sort", []), ("reverse", []), ("flat", []), ("slice", [I(0), I(1)]), ("append", [I(1)])):
        for bad in (I(1), S("abc"), lit(vnull()), obj([("a", I(1))]), lit(vbool(True))):
            kw = {"f": "dbl"} if fn in ("map", "filter", "find", "some", "every") else ({"f": "addf"} if fn == "reduce" else {})
            A([ret(callh(fn, bad, *extra, **kw))], ["bad-argument", fn, bad["v"]["k"] if bad["e"] == "lit" else "obj"], funcs=F)
    for bad in (S("x"), lit(vnull()), lit(vfloat(1.5)), L(1)):
        A([ret(callh("slice", L(1, 2, 3), bad, I(2)))], ["bad-argument", "slice", "start"])
        A([ret(callh("slice", L(1, 2, 3), I(0), bad))], ["bad-argument", "slice", "end"])
    # set / remove: the object they answer
    A([ret(callh("set", obj([("a", I(1))]), S("b"), I(2)))], ["set", "new-key"])
    A([ret(callh("set", obj([("a", I(1)), ("b", I(2))]), S("a"), S("x")))], ["set", "existing-key"])
    A([ret(callh("remove", obj([("a", I(1)), ("b", I(2))]), S("a")))], ["remove", "existing-key"])
    A([ret(callh("remove", obj([("a", I(1))]), S("zz")))], ["remove", "absent-key"])
    A([ret(calln("keys", callh("set", callh("set", obj([]), S("b"), I(1)), S("a"), I(2))))], ["set", "then-keys"])
    for bad in (I(1), lit(vnull()), L(1)):
        A([ret(callh("set", bad, S("a"), I(1)))], ["bad-argument", "set", "object"])
        A([ret(callh("set", obj([("a", I(1))]), bad, I(1)))], ["bad-argument", "set", "key"])
        A([ret(callh("remove", bad, S("a")))], ["bad-argument", "remove", "object"])
        A([ret(callh("remove", obj([("a", I(1))]), bad))], ["bad-argument", "remove", "key"])
    # the names every route is given (query, input, headers): a route may declare a variable of its own with such a name
    for nm in ("query", "input", "headers"):
        R = lambda body, tags, vars_=(): out.append(prog("", body, vars_, ["request-names", nm] + tags))
        R([decl(nm, I(5)), ret(var(nm))], ["declared"])
        R([decl(nm, I(5)), set_(nm, bin_("+", var(nm), I(1))), ret(var(nm))], ["declared-then-assigned"])
        R([decl(nm, arr([I(1)])), if_(lit(vbool(True)), [set_(nm, bin_("+", var(nm), arr([I(2)])))]), ret(var(nm))], ["assigned-in-branch"])
        R([if_(lit(vbool(True)), [decl(nm, I(1)), set_(nm, I(2))]), ret(I(3))], ["declared-in-branch"])
        R([decl("t", I(0)), for_(None, nm, arr([I(1), I(2)]), [set_("t", bin_("+", var("t"), var(nm)))]), ret(var("t"))], ["loop-variable"])
        R([decl(nm, I(5)), decl(nm, I(6)), ret(var(nm))], ["declared-twice"])
        R([decl(nm, var("q")), ret(var(nm))], ["from-input"], [("q", vint(8))])
    return out


# ---- module constants and the module's functions: shared by every request, changed by none ------------------------
def module_table():
    out = []
    I = lambda n: lit(vint(n))
    S = lambda x: lit(vstr(x))
    add = lambda a, b: bin_("+", a, b)
    C = (("LIMIT", vint(10)), ("NAMES", varr([vstr("a"), vstr("b")])), ("CONF", vobj([("a", vint(1))])))
    over = func("over", ["n"], [ret(bin_(">", var("n"), var("LIMIT")))])
    P = lambda body, tags, vars_=(), funcs=(over,), consts=C: out.append(prog("", body, vars_, ["module"] + tags, list(funcs), consts))
    P([ret(arr([var("LIMIT"), var("NAMES"), field(var("CONF"), "a")]))], ["constants-read"])
    P([ret(arr([fcall("over", I(11)), fcall("over", I(3))]))], ["constant-read-in-function"])
    P([decl("LIMIT", add(var("LIMIT"), I(1))), ret(var("LIMIT"))], ["constant-declared-again"])
    P([set_("LIMIT", I(99)), ret(var("LIMIT"))], ["constant-assigned"])
    P([if_(lit(vbool(True)), [decl("LIMIT", I(5))]), ret(var("LIMIT"))], ["constant-declared-again", "in-a-block"])
    P([decl("t", I(0)), for_(None, "v", var("NAMES"), [set_("LIMIT", I(1))]), ret(var("t"))], ["constant-assigned", "in-a-loop"])
    P([ret(fcall("bump"))], ["constant-declared-again", "in-a-function"], funcs=(func("bump", [], [decl("LIMIT", I(1)), ret(var("LIMIT"))]),))
    P([ret(fcall("bump"))], ["constant-assigned", "in-a-function"], funcs=(func("bump", [], [set_("LIMIT", I(1)), ret(var("LIMIT"))]),))
    P([decl("xs", add(var("NAMES"), arr([S("c")]))), ret(arr([var("xs"), var("NAMES")]))], ["constant-array-extended-into-a-variable"])
    P([decl("xs", callh("append", var("NAMES"), S("c"))), ret(arr([var("xs"), var("NAMES")]))], ["constant-array-appended-into-a-variable"])
    P([decl("c", callh("set", var("CONF"), S("x"), I(1))), ret(arr([var("c"), var("CONF")]))], ["constant-object", "set-answers-a-new-object"])
    P([decl("c", callh("remove", var("CONF"), S("a"))), ret(arr([var("c"), var("CONF")]))], ["constant-object", "remove-answers-a-new-object"])
    P([ret(arr([fcall("grow"), var("CONF")]))], ["constant-object", "set-in-a-function"], funcs=(func("grow", [], [ret(callh("set", var("CONF"), S("y"), I(2)))]),))
    P([ret(fcall("shadow", I(3)))], ["parameter-named-like-a-constant"], funcs=(func("shadow", ["LIMIT"], [set_("LIMIT", add(var("LIMIT"), I(1))), ret(var("LIMIT"))]),))
    P([decl("t", I(0)), for_(None, "LIMIT", arr([I(1), I(2)]), [set_("t", add(var("t"), var("LIMIT")))]), ret(arr([var("t"), var("LIMIT")]))], ["loop-variable-named-like-a-constant"])
    P([decl("f", async_([ret(add(var("LIMIT"), I(1)))])), ret(await_(var("f")))], ["constant-read-in-async-block"])
    P([decl("f", async_([decl("LIMIT", I(1)), ret(var("LIMIT"))])), ret(await_(var("f")))], ["constant-declared-again", "in-async-block"])
    # the module's functions
    P([decl("over", I(5)), ret(var("over"))], ["variable-named-like-a-function"])
    P([decl("over", I(5)), ret(fcall("over", I(50)))], ["variable-named-like-a-function", "then-called"])
    P([if_(lit(vbool(True)), [decl("over", I(5)), set_("over", add(var("over"), I(1)))]), ret(fcall("over", I(50)))], ["variable-named-like-a-function", "in-a-block-then-called-outside"])
    P([set_("over", I(6)), ret(I(1))], ["function-assigned"])
    P([ret(fcall("g"))], ["function-assigned", "in-a-function"], funcs=(over, func("g", [], [set_("over", I(6)), ret(I(1))])))
    P([ret(fcall("g"))], ["variable-named-like-a-function", "in-a-function"], funcs=(over, func("g", [], [decl("over", I(6)), ret(var("over"))])))
    return out


# ---- assignment to an element: $ o.a.b = v, a[i] = v, $ o.items[i] = v ------------------------------------------------
def element_table():
    out = []
    I = lambda n: lit(vint(n))
    S = lambda x: lit(vstr(x))
    add = lambda a, b: bin_("+", a, b)
    P = lambda body, tags, vars_=(), funcs=(), consts=(): out.append(prog("", body, vars_, ["elements"] + tags, list(funcs), consts))
    O = lambda: obj([("x", I(1)), ("p", obj([("q", I(2)), ("items", arr([I(3), I(4)]))])), ("items", arr([I(5), I(6)]))])
    A = lambda: arr([arr([I(1), I(2)]), arr([I(3)]), I(9)])
    # field paths
    P([decl("o", O()), pset("o", ["x"], I(7)), ret(var("o"))], ["field", "existing"])
    P([decl("o", O()), pset("o", ["y"], I(7)), ret(var("o"))], ["field", "new"])
    P([decl("o", O()), pset("o", ["p", "q"], I(7)), ret(var("o"))], ["field", "nested"])
    P([decl("o", O()), pset("o", ["p", "r"], S("n")), ret(var("o"))], ["field", "nested-new"])
    P([decl("o", O()), pset("o", ["zz", "q"], I(7)), ret(var("o"))], ["field", "through-a-missing-field"])
    P([decl("o", O()), pset("o", ["x", "q"], I(7)), ret(var("o"))], ["field", "through-a-number"])
    P([decl("o", I(1)), pset("o", ["x"], I(7)), ret(var("o"))], ["field", "of-a-number"])
    P([decl("o", arr([I(1)])), pset("o", ["x"], I(7)), ret(var("o"))], ["field", "of-an-array"])
    P([pset("nosuch", ["x"], I(7)), ret(I(1))], ["field", "of-an-undeclared-variable"])
    P([decl("o", O()), pset("o", ["x"], bin_("/", I(1), I(0))), ret(var("o"))], ["field", "value-fails"])
    P([decl("o", O()), pset("o", ["x"], add(field(var("o"), "x"), I(1))), pset("o", ["x"], add(field(var("o"), "x"), I(1))), ret(field(var("o"), "x"))], ["field", "read-modify-write-twice"])
    P([decl("o", O()), if_(lit(vbool(True)), [pset("o", ["x"], I(7))]), ret(var("o"))], ["field", "of-an-outer-variable-from-a-block"])
    P([decl("o", O()), decl("i", I(0)), while_(bin_("<", var("i"), I(3)), [pset("o", ["x"], add(field(var("o"), "x"), var("i"))), set_("i", add(var("i"), I(1)))]), ret(field(var("o"), "x"))], ["field", "in-a-loop"])
    P([decl("o", O()), pset("o", ["x"], I(7), dollar=False), ret(var("o"))], ["field", "written-without-dollar"])
    P([decl("o", O()), pset("o", ["p", "q"], I(7), dollar=False), ret(var("o"))], ["field", "nested", "written-without-dollar"])
    # index paths
    P([decl("a", A()), pset("a", [I(2)], I(7), dollar=False), ret(var("a"))], ["index", "existing"])
    P([decl("a", A()), pset("a", [I(2)], I(7)), ret(var("a"))], ["index", "existing", "with-dollar"])
    P([decl("a", A()), pset("a", [I(0), I(1)], I(7), dollar=False), ret(var("a"))], ["index", "nested"])
    P([decl("a", A()), pset("a", [I(3)], I(7), dollar=False), ret(var("a"))], ["index", "one-past-the-end"])
    P([decl("a", A()), pset("a", [I(-1)], I(7), dollar=False), ret(var("a"))], ["index", "negative"])
    P([decl("a", A()), pset("a", [S("x")], I(7), dollar=False), ret(var("a"))], ["index", "string-into-array"])
    P([decl("a", A()), pset("a", [I(2), I(0)], I(7), dollar=False), ret(var("a"))], ["index", "into-a-number"])
    P([decl("a", A()), pset("a", [I(5), I(0)], I(7), dollar=False), ret(var("a"))], ["index", "through-out-of-bounds"])
    P([decl("a", A()), pset("a", [bin_("-", I(2), I(1)), I(0)], add(idx(idx(var("a"), I(0)), I(1)), I(10)), dollar=False), ret(var("a"))], ["index", "computed-index-and-value-from-the-array"])
    P([decl("a", A()), pset("a", [bin_("/", I(1), I(0))], I(7), dollar=False), ret(var("a"))], ["index", "index-fails"])
    P([decl("a", A()), pset("a", [I(0)], bin_("/", I(1), I(0)), dollar=False), ret(var("a"))], ["index", "value-fails"])
    P([pset("nosuch", [I(0)], I(7), dollar=False), ret(I(1))], ["index", "of-an-undeclared-variable"])
    P([decl("a", I(5)), pset("a", [I(0)], I(7), dollar=False), ret(var("a"))], ["index", "of-a-number"])
    P([decl("a", S("abc")), pset("a", [I(0)], S("z"), dollar=False), ret(var("a"))], ["index", "of-a-string"])
    P([decl("o", O()), pset("o", [S("x")], I(7), dollar=False), ret(var("o"))], ["key", "existing"])
    P([decl("o", O()), pset("o", [S("k")], I(7), dollar=False), ret(var("o"))], ["key", "new"])
    P([decl("o", O()), pset("o", [S("p"), S("q")], I(7), dollar=False), ret(var("o"))], ["key", "nested"])
    P([decl("o", O()), pset("o", [S("zz"), S("q")], I(7), dollar=False), ret(var("o"))], ["key", "through-a-missing-key"])
    P([decl("o", O()), pset("o", [I(0)], I(7), dollar=False), ret(var("o"))], ["key", "number-into-object"])
    P([decl("o", O()), pset("o", [S("p"), "q"], I(7), dollar=False), ret(var("o"))], ["key", "then-field"])
    # fields then an index (the `$` form is the one the language has)
    P([decl("o", O()), pset("o", ["items", I(1)], I(7)), ret(var("o"))], ["field-then-index"])
    P([decl("o", O()), pset("o", ["p", "items", I(0)], I(7)), ret(var("o"))], ["field-then-index", "two-fields"])
    P([decl("o", O()), pset("o", ["items", I(2)], I(7)), ret(var("o"))], ["field-then-index", "out-of-bounds"])
    P([decl("o", O()), pset("o", ["items", I(1)], I(7), dollar=False), ret(var("o"))], ["field-then-index", "written-without-dollar"])
    P([decl("o", O()), pset("o", ["zz", I(0)], I(7)), ret(var("o"))], ["field-then-index", "missing-field"])
    P([decl("a", arr([obj([("n", I(1))]), obj([("n", I(2))])])), pset("a", [I(1), "n"], I(7), dollar=False), ret(var("a"))], ["index-then-field"])
    # loops filling an array
    P([decl("a", arr([I(0), I(0), I(0)])), decl("i", I(0)), while_(bin_("<", var("i"), I(3)), [pset("a", [var("i")], bin_("*", var("i"), var("i")), dollar=False), set_("i", add(var("i"), I(1)))]), ret(var("a"))], ["index", "filled-in-a-loop"])
    P([decl("a", arr([I(3), I(1), I(2)])), decl("t", idx(var("a"), I(0))), pset("a", [I(0)], idx(var("a"), I(2)), dollar=False), pset("a", [I(2)], var("t"), dollar=False), ret(var("a"))], ["index", "swap"])
    # a function's parameter is the caller's value, not the caller's variable
    # (the implementation shares the array: outside the definition, not judged) -- kept out of the table
    # constants cannot be assigned into
    C = (("CONF", vobj([("a", vint(1))])), ("NAMES", varr([vstr("a"), vstr("b")])))
    P([pset("CONF", ["a"], I(2)), ret(var("CONF"))], ["constant", "field"], consts=C)
    P([pset("NAMES", [I(0)], S("z"), dollar=False), ret(var("NAMES"))], ["constant", "index"], consts=C)
    P([pset("CONF", [S("k")], I(2), dollar=False), ret(var("CONF"))], ["constant", "key"], consts=C)
    P([ret(fcall("poke"))], ["constant", "field", "in-a-function"], consts=C, funcs=(func("poke", [], [pset("CONF", ["a"], I(2)), ret(var("CONF"))]),))
    return out


# ---- equality looks through containers: numbers compare by value at every depth -------------------------------------
def equality_table():
    out = []
    I = lambda n: lit(vint(n))
    F = lambda x: lit(vfloat(x))
    S = lambda x: lit(vstr(x))
    P = lambda body, tags, vars_=(): out.append(prog("", body, vars_, ["equality"] + tags))
    pairs = {
        "array-int-float": (arr([I(1), I(2)]), arr([F(1.0), F(2.0)])),
        "array-float-int-differs": (arr([I(1), I(2)]), arr([F(1.0), F(2.5)])),
        "nested-array": (arr([arr([I(1)]), arr([I(2), arr([I(3)])])]), arr([arr([F(1.0)]), arr([F(2.0), arr([F(3.0)])])])),
        "object-field": (obj([("x", I(0))]), obj([("x", F(0.0))])),
        "object-in-array": (arr([obj([("a", I(1)), ("b", S("s"))])]), arr([obj([("b", S("s")), ("a", F(1.0))])])),
        "array-in-object": (obj([("k1", arr([I(1), I(2)]))]), obj([("k1", arr([F(1.0), F(2.0)]))])),
        "mixed-positions": (arr([I(1), F(2.0), I(3)]), arr([F(1.0), I(2), F(3.0)])),
        "int-vs-string-inside": (arr([I(1)]), arr([S("1")])),
        "bool-vs-int-inside": (arr([lit(vbool(True))]), arr([I(1)])),
        "null-vs-zero-inside": (arr([lit(vnull())]), arr([I(0)])),
    }
    for name, (a, b) in pairs.items():
        P([ret(arr([bin_("==", a, b), bin_("!=", a, b), bin_("==", b, a)]))], ["literals", name])
        P([decl("a", a), decl("b", b), ret(arr([bin_("==", var("a"), var("b")), bin_("!=", var("a"), var("b"))]))], ["variables", name])
        P([decl("a", a), switch(var("a"), [(b, [ret(S("case"))])], [ret(S("default"))])], ["switch", name])
        P([decl("a", a), decl("r", S("none")), for_(None, "v", arr([b, a]), [if_(bin_("==", var("v"), var("a")), [set_("r", bin_("+", var("r"), S("+")))])]), ret(var("r"))], ["in-a-loop", name])
    P([ret(bin_("==", arr([var("x"), I(2)]), arr([I(1), I(2)])))], ["from-input", "float-input-against-int-literal"], [("x", vfloat(1.0))])
    P([ret(bin_("==", obj([("p", arr([var("x")]))]), obj([("p", arr([F(3.0)]))])))], ["from-input", "int-input-against-float-literal"], [("x", vint(3))])
    P([ret(match_(arr([F(1.0), F(2.0)]), [(parr([plit(vint(1)), plit(vint(2))]), None, S("ints")), (pwild(), None, S("other"))]))], ["match-literal-patterns"])
    return out


# ---- validation statements: ? f(args) ----------------------------------------------------------------------------------
def validation_table():
    out = []
    I = lambda n: lit(vint(n))
    S = lambda x: lit(vstr(x))
    ok = func("ok", ["a"], [ret(bin_(">", var("a"), I(0)))])
    nothing = func("nothing", ["a"], [decl("t", var("a"))])
    P = lambda body, tags, vars_=(), funcs=(): out.append(prog("", body, vars_, ["validation"] + tags, list(funcs)))
    P([check_(calln("contains", S("hello"), S("ell"))), ret(I(1))], ["holds"])
    P([check_(calln("contains", S("hello"), S("zz"))), ret(I(1))], ["fails"])
    P([check_(call("length", S("abc"))), ret(I(1))], ["answers-a-number"])
    P([check_(calln("contains", I(5), S("zz"))), ret(I(1))], ["the-call-fails"])
    P([check_(fcall("nosuch", I(1))), ret(I(1))], ["undefined-function"])
    P([check_(calln("startsWith", var("q"), S("a"))), ret(var("q"))], ["input", "holds"], [("q", vstr("abc"))])
    P([check_(calln("startsWith", var("q"), S("a"))), ret(var("q"))], ["input", "fails"], [("q", vstr("xbc"))])
    P([if_(lit(vbool(True)), [check_(calln("startsWith", S("ab"), S("b")))]), ret(I(1))], ["in-a-block", "fails"])
    P([decl("n", I(0)), for_(None, "v", arr([I(1), I(2), I(-3), I(4)]), [check_(bin_(">", var("v"), I(0))) if False else check_(calln("contains", S("124"), calln("toString", var("v")))), set_("n", bin_("+", var("n"), I(1)))]), ret(var("n"))], ["in-a-loop", "fails-at-the-third"])
    P([check_(calln("contains", S("a"), S("a"))), check_(calln("contains", S("a"), S("b"))), ret(I(1))], ["second-fails"])
    P([ret(I(1)), check_(calln("contains", S("a"), S("b")))], ["after-return", "never-reached"])
    P([check_(fcall("ok", I(1))), ret(I(1))], ["declared-function", "holds"], funcs=(ok,))
    P([check_(fcall("ok", I(-1))), ret(I(1))], ["declared-function", "fails"], funcs=(ok,))
    P([check_(fcall("nothing", I(1))), ret(I(1))], ["declared-function", "answers-nothing"], funcs=(nothing,))
    P([guard_(bin_(">", var("q"), I(0)), 422, "positive"), check_(calln("contains", S("a"), S("b"))), ret(I(1))], ["after-a-guard-that-holds"], [("q", vint(1))])
    return out


# ---- declared types of function parameters and results ----------------------------------------------------------------
def typed_function_table():
    out = []
    I = lambda n: lit(vint(n))
    F = lambda x: lit(vfloat(x))
    S = lambda x: lit(vstr(x))
    N = lit(vnull())
    P = lambda funcs, body, tags, vars_=(): out.append(prog("", body, vars_, ["typed-functions"] + tags, funcs))
    values = {"int": I(3), "float": F(2.5), "whole-float": F(4.0), "negative-whole-float": F(-2.0), "str": S("s"), "bool": lit(vbool(True)), "null": N, "array-of-int": arr([I(1), I(2)]),
              "array-of-mixed": arr([I(1), S("x")]), "array-of-whole-floats": arr([F(1.0), I(2)]), "empty-array": arr([]), "object": obj([("a", I(1))])}
    for ty in ("int", "float", "str", "bool", "[int]", "int?", "any"):
        echo = func("echo", [("a", ty)], [ret(var("a"))])
        back = func("back", [("a", "any")], [ret(var("a"))], ret=ty)
        for vn, v in values.items():
            P([echo], [ret(fcall("echo", v))], ["parameter", ty, vn])
            P([back], [ret(fcall("back", v))], ["result", ty, vn])
    # a whole float given for an int parameter is that integer from then on
    half = func("half", [("a", "int")], [ret(bin_("/", var("a"), I(2)))])
    P([half], [ret(arr([fcall("half", F(7.0)), fcall("half", I(7)), bin_("/", F(7.0), I(2))]))], ["int-parameter-makes-the-float-an-integer"])
    P([half], [ret(fcall("half", var("q")))], ["int-parameter-makes-the-float-an-integer", "from-input"], [("q", vfloat(9.0))])
    # required, optional, default
    req = func("req", [("a", "int", True), ("b", "int", False), ("c", "int", False, vint(7))], [ret(arr([var("a"), var("b"), var("c")]))])
    P([req], [ret(fcall("req", I(1), I(2), I(3)))], ["required-optional-default", "all-given"])
    P([req], [ret(fcall("req", I(1), I(2)))], ["required-optional-default", "default-used"])
    P([req], [ret(fcall("req", I(1)))], ["required-optional-default", "optional-is-null"])
    P([req], [ret(fcall("req"))], ["required-optional-default", "required-missing"])
    P([req], [ret(fcall("req", I(1), I(2), I(3), I(4)))], ["required-optional-default", "one-too-many"])
    P([req], [ret(fcall("req", N, N, N))], ["required-optional-default", "nulls-given"])
    P([req], [ret(fcall("req", I(1), S("x")))], ["required-optional-default", "optional-of-the-wrong-type"])
    dflt = func("dflt", [("a", "str", False, vstr("dv")), ("b", "float", False, vfloat(1.5))], [ret(arr([var("a"), var("b")]))])
    P([dflt], [ret(arr([fcall("dflt"), fcall("dflt", S("x")), fcall("dflt", S("x"), I(2))]))], ["defaults"])
    # results
    P([func("f", [], [decl("t", I(1))], ret="int")], [ret(fcall("f"))], ["result", "nothing-returned-is-null"])
    P([func("f", [("a", "int")], [if_(bin_(">", var("a"), I(0)), [ret(S("positive"))]), ret(var("a"))], ret="int")], [ret(arr([fcall("f", I(-1))]))], ["result", "depends-on-the-path", "good"])
    P([func("f", [("a", "int")], [if_(bin_(">", var("a"), I(0)), [ret(S("positive"))]), ret(var("a"))], ret="int")], [ret(arr([fcall("f", I(1))]))], ["result", "depends-on-the-path", "bad"])
    P([func("fact", [("n", "int", True)], [if_(bin_("<=", var("n"), I(1)), [ret(I(1))]), ret(bin_("*", var("n"), fcall("fact", bin_("-", var("n"), I(1)))))], ret="int")], [ret(fcall("fact", I(5)))], ["recursion-typed"])
    P([func("f", [("a", "int")], [ret(var("a"))], ret="int")], [ret(pipe(F(6.0), "f", bare=True))], ["piped-argument"])
    P([half], [ret(arr([pipe(F(7.0), "half", bare=True), fcall("half", F(7.0))]))], ["piped-argument", "same-as-a-direct-call"])
    return out


# ---- numbers the specification cannot compute with but can order: big integers, NaN -------------------------------
def special_numbers_table():
    out = []
    P = lambda body, tags, vars_=(): out.append(prog("", body, vars_, ["numbers"] + tags))
    bigs = [2 ** 53, 2 ** 53 + 1, 2 ** 53 + 2, 2 ** 60, 2 ** 60 + 1, 2 ** 31, 2 ** 31 + 1]      # hi = n >> 30 must stay below 2^31 for TLC
    for a in bigs:
        for b in bigs:
            if abs(bigs.index(a) - bigs.index(b)) <= 1 or (a, b) in ((2 ** 53, 2 ** 60), (2 ** 60, 2 ** 53)):
                P([ret(arr([bin_(op, lit(vbig(a)), lit(vbig(b))) for op in ("<", "<=", ">", ">=", "==", "!=")]))], ["big-int-ordering", "%d-vs-%d" % (bigs.index(a), bigs.index(b))])
                P([decl("x", lit(vbig(a))), decl("y", lit(vbig(b))), if_(bin_("<", var("x"), var("y")), [ret(lit(vstr("less")))]), if_(bin_(">", var("x"), var("y")), [ret(lit(vstr("greater")))]), ret(lit(vstr("same")))],
                  ["big-int-branch", "%d-vs-%d" % (bigs.index(a), bigs.index(b))])
        P([ret(arr([bin_(op, lit(vbig(a)), lit(vint(7))) for op in ("<", ">", "==")] + [bin_(op, lit(vint(7)), lit(vbig(a))) for op in ("<", ">", "!=")]))], ["big-vs-small", str(bigs.index(a))])
        P([decl("i", lit(vbig(a))), decl("n", lit(vint(0))), while_(bin_("<", var("i"), lit(vbig(a + 1))), [set_("n", bin_("+", var("n"), lit(vint(1)))), set_("i", lit(vbig(a + 1)))]), ret(var("n"))], ["big-loop-bound", str(bigs.index(a))])
    # NaN arrives as a float input; every ordering with it is false, it equals nothing
    for other in (lit(vfloat(1.0)), lit(vint(0)), var("x")):
        P([ret(arr([bin_(op, var("x"), other) for op in ("<", "<=", ">", ">=", "==", "!=")] + [bin_(op, other, var("x")) for op in ("<", "<=", ">", ">=")]))], ["nan-ordering"], [("x", vnan())])
    P([if_(bin_("<", var("x"), lit(vfloat(1.0))), [ret(lit(vstr("less")))], [if_(bin_(">=", var("x"), lit(vfloat(1.0))), [ret(lit(vstr("not-less")))], [ret(lit(vstr("unordered")))])])], ["nan-branches"], [("x", vnan())])
    P([decl("y", bin_("+", var("x"), lit(vfloat(1.0)))), ret(arr([bin_("<", var("y"), lit(vfloat(0.0))), bin_("==", var("y"), var("y"))]))], ["nan-propagates"], [("x", vnan())])
    # a result that has no JSON form (NaN): the evaluation has a value, the HTTP answer cannot be a success
    P([ret(var("x"))], ["nan-returned"], [("x", vnan())])
    P([ret(arr([lit(vint(1)), var("x")]))], ["nan-returned", "in-an-array"], [("x", vnan())])
    P([ret(obj([("a", bin_("*", var("x"), lit(vfloat(0.5))))]))], ["nan-returned", "in-an-object"], [("x", vnan())])
    P([ret(obj([("a", var("x"))]), 201)], ["nan-returned", "with-a-status"], [("x", vnan())])
    return out
