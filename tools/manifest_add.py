#!/usr/bin/env python3
"""manifest_add.py <Cxx> <technique> <text> <note> [hook_commit...]"""
import json, sys
pid, tech, text, note = sys.argv[1:5]
p = '/verif/MANIFEST.json'
m = json.load(open(p))
m['checks'] = [c for c in m['checks'] if c['property_id'] != pid]
m['checks'].append({"property_id": pid, "quick_cmd": "bin/check %s quick" % pid, "thorough_cmd": "bin/check %s thorough" % pid,
  "evidence_file": "/verif/evidence/%s.json" % pid, "replay_cmd_template": "bin/check %s --replay {path}" % pid,
  "level_claimed": {"category": "model_checking", "text": text, "design_ref": "DESIGN.md section 4/" + pid},
  "level_note": note, "technique": tech})
m['checks'].sort(key=lambda c: c['property_id'])
m['not_applicable'] = [x for x in m['not_applicable'] if x['property_id'] != pid]
for h in sys.argv[5:]:
    if h not in m['hooks']['source_commits']:
        m['hooks']['source_commits'].append(h)
json.dump(m, open(p, 'w'), indent=1)
