#!/usr/bin/env python3
"""print the sub-agent prompt for a property id (only the property text + worktree path)"""
import json, sys
pid = sys.argv[1]
p = next(json.loads(l) for l in open('/verif/properties.jsonl') if json.loads(l)['id'] == pid)
wt = (sys.argv[2] if len(sys.argv) > 2 else "/tmp/mut/" + pid)
print(f"""You are helping test a verification effort by playing the role of a developer who introduces a subtle regression.

Repository: GlyphLang (a Go-implemented backend DSL). You have your OWN scratch git worktree of it at {wt} (already created; work ONLY inside it; never touch /repo or /verif, never read anything under /verif).

Go environment for every shell command: `export GOFLAGS=-mod=mod GOPROXY=off` (do NOT set GOSUMDB or GOTOOLCHAIN). No network.

The semantic property under test:

  Title: {p['title']}
  Statement: {p['statement']}
  Quantified over: {p['quantifier']['text']}
  Relevant files: {', '.join(p['anchors']['files'])}
  Mechanisms meant to make it hold: {'; '.join(m['name'] + ' (' + m['where'] + ')' for m in p['anchors']['mechanism'])}

Task: produce TWO independent, different, realistic code changes (call them m1 and m2) to the GlyphLang sources, each of which BREAKS this property while the repository still compiles (`go build ./...`, `go vet` of the touched packages) and the EXISTING tests of the touched packages (and of cmd/glyph if you touch anything it uses) still pass (`go test -count=1 ./pkg/<x>/...`). Each change must look like something a developer could plausibly commit (a refactor, an "optimisation", a boundary condition, a lost lock, a reordered step, a wrong key, a dropped check on one path ...), and it must need something SPECIFIC to manifest: a particular interleaving, a fault at a particular point, a multi-step sequence of operations, an unusual input or configuration, or two cooperating sites that each look fine alone. Do NOT make changes that ordinary use or the existing tests would expose at once, do not touch test files, do not change public API signatures, and do not touch files named zz_verif_* or lines calling verifEvent/verifStep (leave them as they are).

For each change provide a DEMONSTRATION: a small Go test file (placed inside the relevant package directory of the worktree, named zz_demo_m1_test.go / zz_demo_m2_test.go) that FAILS with the change applied and PASSES on the unmodified code. Verify both directions yourself (use `git stash` or `git diff > patch; git checkout .` to flip).

Deliver, for k in (1,2), in directory {wt}/out/mk/ :
  - patch.diff : `git diff` of the source change only (NOT including the demo test), relative to the worktree root, applying cleanly with `git apply` on the unmodified tree
  - the demo test file (copy)
  - meta.json : {{"property": "{pid}", "summary": "...what was changed...", "needs": "...what is needed for it to manifest...", "files": [...], "demo_pkg": "./pkg/...", "demo_run": "go test -count=1 -run <TestName> ./pkg/...", "verified": "what you ran and saw"}}
Leave the worktree with NO source modifications at the end (git checkout . ; remove the demo files from package dirs; keep only out/). Keep m1 and m2 mechanistically different (different code sites / different sub-claims of the property). In your final answer, summarise both changes in a few lines each.""")
