#!/usr/bin/env python3
"""apply every seeded change in turn to /repo (clean tree required), run its property's check, undo, and record the
outcome in seeded/<name>/meta.json under "sweep".  usage: sweep_mutants.py [tier] [name-regex]"""
import json, os, subprocess, sys, glob, re
tier = sys.argv[1] if len(sys.argv) > 1 else "quick"
flt = sys.argv[2] if len(sys.argv) > 2 else ""
def sh(cmd, **kw):
    return subprocess.run(cmd, shell=True, stdout=subprocess.PIPE, stderr=subprocess.STDOUT, text=True, **kw)
# works on a scratch clone so that /repo itself is never touched and other checks can run meanwhile
assert sh("git -C /repo status --porcelain").stdout.strip() == "", "repo not clean"
head = sh("git -C /repo rev-parse --short HEAD").stdout.strip()
SW = "/tmp/sweeprepo"
sh("rm -rf %s /tmp/sweepout && git clone -q /repo %s && mkdir -p /tmp/sweepout" % (SW, SW))
env = dict(os.environ, VERIF_REPO=SW, VERIF_OUT_DIR="/tmp/sweepout")
for d in sorted(glob.glob("/verif/seeded/*")):
    name = os.path.basename(d)
    if flt and not re.search(flt, name):
        continue
    meta = json.load(open(d + "/meta.json"))
    pid = meta["property"]
    r = sh("git -C /tmp/sweeprepo apply --check %s/patch.diff" % d)
    if r.returncode != 0:
        meta["sweep"] = {"head": head, "tier": tier, "applies": False}
        json.dump(meta, open(d + "/meta.json", "w"), indent=1)
        print(name, "does not apply")
        continue
    sh("git -C /tmp/sweeprepo apply %s/patch.diff" % d)
    try:
        r = sh("cd /verif && timeout 3000 bin/check %s %s" % (pid, tier), env=env)
    finally:
        sh("git -C /tmp/sweeprepo checkout -- . && git -C /tmp/sweeprepo clean -fdq")
    sigs = re.findall(r"^\s+what: (\S+)", r.stdout, re.M)
    by = pid
    # a change may be caught by the check of a neighbouring property (meta "other_checks"): tried when the own check is quiet
    if r.returncode == 0:
        sh("git -C /tmp/sweeprepo apply %s/patch.diff" % d)
        try:
            for other in meta.get("other_checks", []):
                r2 = sh("cd /verif && timeout 3000 bin/check %s %s" % (other, tier), env=env)
                if r2.returncode == 1:
                    r, by = r2, other
                    sigs = re.findall(r"^\s+what: (\S+)", r.stdout, re.M)
                    break
        finally:
            sh("git -C /tmp/sweeprepo checkout -- . && git -C /tmp/sweeprepo clean -fdq")
    meta["sweep"] = {"head": head, "tier": tier, "applies": True, "exit": r.returncode, "violations": sigs[:6], "by": by}
    json.dump(meta, open(d + "/meta.json", "w"), indent=1)
    print(name, "exit=%d" % r.returncode, sigs[:2], flush=True)
sh("rm -rf /tmp/sweeprepo /tmp/sweepout")
