#!/bin/sh
# usage: tools/try_mutant.sh <patch.diff> <Cxx> [tier]   -- apply to /repo, run the check, always undo
patch="$1"; pid="$2"; tier="${3:-quick}"
cd /repo || exit 2
git diff --quiet || { echo "repo not clean"; exit 2; }
git apply "$patch" || { echo "patch does not apply"; exit 2; }
cd /verif
timeout 3000 bin/check "$pid" "$tier" > /tmp/mutant_out.txt 2>&1
rc=$?
cd /repo && git checkout -- . && git clean -fdq -- . >/dev/null 2>&1
grep -E "^(VIOLATION|KNOWN-FINDING|INFRA)" /tmp/mutant_out.txt | cut -c1-300 | head -8
echo "exit=$rc"
