"""Shared machinery of the /verif checks (python3 stdlib only).

  tlc(...)          run TLC on a generated MC module, parse counts / cases / verdict
  go_test(...)      build+run an in-package driver injected into /repo with -overlay
  Check             evidence + verdict bookkeeping for one property run

Exit codes of a check: 0 held, 1 violation (VIOLATION line printed), 2 infrastructure.
"""
import json, os, re, shutil, subprocess, sys, tempfile, time, hashlib

ROOT = os.path.dirname(os.path.dirname(os.path.abspath(__file__)))
REPO = os.environ.get("VERIF_REPO", "/repo")
MODPATH = "github.com/glyphlang/glyph"
NCPU = os.cpu_count() or 4


class InfraError(Exception):
    pass


def log(*a):
    print("[verif]", *a, file=sys.stderr, flush=True)


def goenv():
    e = dict(os.environ)
    e["GOFLAGS"] = "-mod=mod"
    e["GOPROXY"] = "off"
    e.pop("GOSUMDB", None)           # GOSUMDB=off breaks the cached toolchain switch
    e["GOTOOLCHAIN"] = "auto"
    e.setdefault("GOCACHE", "/root/.cache/go-build")
    return e


_scratch_dirs = []


def scratch(prefix="verif-"):
    d = tempfile.mkdtemp(prefix=prefix)
    _scratch_dirs.append(d)
    return d


def cleanup():
    for d in _scratch_dirs:
        shutil.rmtree(d, ignore_errors=True)
    _scratch_dirs.clear()


# --------------------------------------------------------------------------- TLC

def tla(v):
    """python value -> TLA+ expression text"""
    if isinstance(v, TlaRaw):
        return v.s
    if isinstance(v, bool):
        return "TRUE" if v else "FALSE"
    if isinstance(v, int):
        return str(v) if v >= 0 else "(-%d)" % -v
    if isinstance(v, str):
        return '"' + v.replace("\\", "\\\\").replace('"', '\\"') + '"'
    if isinstance(v, (set, frozenset)):
        return "{" + ", ".join(sorted(tla(x) for x in v)) + "}"
    if isinstance(v, (list, tuple)):
        return "<<" + ", ".join(tla(x) for x in v) + ">>"
    if isinstance(v, dict):
        if not v:
            return "[x \\in {} |-> 0]"
        if all(isinstance(k, str) and re.match(r"^[A-Za-z_][A-Za-z0-9_]*$", k) for k in v):
            return "[" + ", ".join("%s |-> %s" % (k, tla(x)) for k, x in v.items()) + "]"
        return "(" + " @@ ".join("(%s :> %s)" % (tla(k), tla(x)) for k, x in v.items()) + ")"
    raise TypeError(v)


class TlaRaw:
    def __init__(self, s):
        self.s = s


class TLCResult:
    def __init__(self):
        self.rc = None
        self.out = ""
        self.generated = 0
        self.distinct = 0
        self.depth = 0
        self.cases = []          # parsed JSON payloads of <<"CASE", json>> prints
        self.prints = []         # other PrintT tuples (raw text)
        self.violation = None    # text describing violated invariant/property
        self.error = None        # TLC evaluation error text
        self.coverage = {}       # action name -> count (with coverage=True)
        self.wall = 0.0
        self.timeout = False

    @property
    def ok(self):
        return self.rc == 0 and not self.violation and not self.error


_CASE_RE = re.compile(r'^<<"(CASE|EVT)", "(.*)">>$')


def _unescape(s):
    return s.replace('\\"', '"').replace("\\\\", "\\")


def tlc(spec_dir, base, consts=None, *, cfg_consts=None, spec="Spec", init=None, next_=None,
        invariants=(), properties=(), constraint=None, action_constraint=None, view=None,
        deadlock=False, workers=None, simulate=None, seed=None, timeout=600, defs="",
        extends=("Json", "TLC"), postcondition=None, coverage=False, depth_first=False,
        extra_files=None, keep=False, max_cases=None, case_sink=None, heap=None,
        want_cases=True):
    """Run TLC on module `base` from spec_dir (under ROOT/specs unless absolute).
    consts: name -> python value/TlaRaw, emitted as definitions and bound with `<-`.
    case_sink: callable(obj) called per CASE instead of accumulating."""
    sd = spec_dir if os.path.isabs(spec_dir) else os.path.join(ROOT, "specs", spec_dir)
    work = scratch("verif-tlc-")
    for f in os.listdir(sd):
        if f.endswith(".tla"):
            shutil.copy(os.path.join(sd, f), work)
    for name, path in (extra_files or {}).items():
        shutil.copy(path, os.path.join(work, name))
    mc = "MC_" + base
    lines = ["---- MODULE %s ----" % mc, "EXTENDS " + ", ".join((base,) + tuple(extends)), ""]
    cfg = []
    if spec:
        cfg.append("SPECIFICATION " + spec)
    else:
        cfg.append("INIT " + init)
        cfg.append("NEXT " + next_)
    cfg.append("CONSTANTS")
    lines.append(defs)
    for k, v in (consts or {}).items():
        lines.append("mc_%s == %s" % (k, tla(v)))
        cfg.append("  %s <- mc_%s" % (k, k))
    for k, v in (cfg_consts or {}).items():
        cfg.append("  %s = %s" % (k, v))
    lines.append("====")
    if constraint:
        cfg.append("CONSTRAINT " + constraint)
    if action_constraint:
        cfg.append("ACTION_CONSTRAINT " + action_constraint)
    if view:
        cfg.append("VIEW " + view)
    if invariants:
        cfg.append("INVARIANTS " + " ".join(invariants))
    if properties:
        cfg.append("PROPERTIES " + " ".join(properties))
    if postcondition:
        cfg.append("POSTCONDITION " + postcondition)
    cfg.append("CHECK_DEADLOCK " + ("TRUE" if deadlock else "FALSE"))
    open(os.path.join(work, mc + ".tla"), "w").write("\n".join(lines) + "\n")
    open(os.path.join(work, mc + ".cfg"), "w").write("\n".join(cfg) + "\n")
    w = workers or NCPU
    cmd = ["java", "-XX:+UseParallelGC", "-Xss64m"]
    if heap:
        cmd.append("-Xmx" + heap)
    if depth_first:
        cmd.append("-Dtlc2.tool.queue.IStateQueue=StateDeque")
    cmd += ["-cp", "/opt/veriftools/tla/tla2tools.jar:/opt/veriftools/tla/CommunityModules-deps.jar",
            "tlc2.TLC", "-workers", str(w), "-metadir", os.path.join(work, "meta"),
            "-config", mc + ".cfg"]
    if simulate:
        cmd += ["-simulate", "num=%d" % simulate["num"], "-depth", str(simulate["depth"])]
    if seed is not None:
        cmd += ["-seed", str(seed)]
    if coverage:
        cmd += ["-coverage", "1"]
    cmd.append(mc + ".tla")
    r = TLCResult()
    t0 = time.time()
    p = subprocess.Popen(cmd, cwd=work, stdout=subprocess.PIPE, stderr=subprocess.STDOUT,
                         text=True, errors="replace")
    keepl = []
    errl = []
    in_err = False
    deadline = t0 + timeout
    import threading
    timer = threading.Timer(timeout, lambda: (setattr(r, "timeout", True), p.kill()))
    timer.start()
    try:
        for line in p.stdout:
            line = line.rstrip("\n")
            m = _CASE_RE.match(line)
            if m:
                if not want_cases:
                    continue
                try:
                    obj = json.loads(_unescape(m.group(2)))
                except Exception as ex:
                    raise InfraError("bad CASE json: %s: %s" % (ex, line[:300]))
                if case_sink:
                    case_sink(obj)
                elif max_cases is None or len(r.cases) < max_cases:
                    r.cases.append(obj)
                continue
            if line.startswith("<<"):
                r.prints.append(line)
                continue
            if (line.startswith("Semantic processing") or line.startswith("Linting of")
                    or line.startswith("Parsing file")):
                continue
            keepl.append(line)
            m = re.match(r"^(\d+) states generated, (\d+) distinct states found", line)
            if m:
                r.generated, r.distinct = int(m.group(1)), int(m.group(2))
            m = re.match(r"^The depth of the complete state graph search is (\d+)", line)
            if m:
                r.depth = int(m.group(1))
            m = re.match(r"^Error: (Invariant \S+ is violated|Action property \S+ is violated|"
                         r"Temporal properties were violated|Deadlock reached|"
                         r"Postcondition .* is false.*|Postcondition .* violated|The postcondition.*)", line)
            if m and not r.violation:
                r.violation = m.group(1)
            elif line.startswith("Error:") and not r.violation and not r.error:
                r.error = line
                in_err = True
            elif in_err and len(errl) < 40:
                errl.append(line)
            if coverage:
                m = re.match(r"^<(\w+) line \d+, col \d+ to line \d+, col \d+ of module (\w+)>: (\d+):(\d+)", line)
                if m:
                    r.coverage[m.group(1)] = r.coverage.get(m.group(1), 0) + int(m.group(4))
    finally:
        timer.cancel()
        p.wait()
    r.rc = p.returncode
    r.wall = time.time() - t0
    if r.error:
        r.error = r.error + "\n" + "\n".join(errl)
    r.out = "\n".join(keepl[-200:])
    if not keep:
        shutil.rmtree(work, ignore_errors=True)
    else:
        r.work = work
    if r.timeout:
        raise InfraError("TLC timeout after %ds on %s" % (timeout, base))
    if r.rc != 0 and not r.violation and not r.error:
        raise InfraError("TLC failed rc=%s:\n%s" % (r.rc, r.out[-3000:]))
    return r


# --------------------------------------------------------------------------- Go

_CLOCK_RE = re.compile(r"\btime\.Now\(\)")
_SINCE_RE = re.compile(r"\btime\.Since\(")


def clock_rewrite(src_path, dst_path):
    """textual redirection of time.Now()/time.Since( to the virtual clock"""
    s = open(src_path).read()
    s = _CLOCK_RE.sub("verifNow()", s)
    s = _SINCE_RE.sub("verifSince(", s)
    open(dst_path, "w").write(s)


CLOCK_GO = '''package %s

import (
	"sync"
	"time"
)

var verifClockMu sync.Mutex
var verifClock time.Time = time.Unix(1700000000, 0)
var verifClockOn bool

func verifNow() time.Time {
	verifClockMu.Lock()
	defer verifClockMu.Unlock()
	if !verifClockOn {
		return time.Now()
	}
	return verifClock
}
func verifSince(t time.Time) time.Duration { return verifNow().Sub(t) }
func verifSetClock(t time.Time) {
	verifClockMu.Lock()
	verifClock = t
	verifClockOn = true
	verifClockMu.Unlock()
}
func verifAdvance(d time.Duration) {
	verifClockMu.Lock()
	verifClock = verifClock.Add(d)
	verifClockOn = true
	verifClockMu.Unlock()
}

// exported for drivers living in another package
func VerifSetClock(t time.Time)     { verifSetClock(t) }
func VerifAdvance(d time.Duration) { verifAdvance(d) }
func VerifNow() time.Time          { return verifNow() }
'''


def go_test(pkg, inject, *, run="TestVerif", tags="verif", race=False, env=None, timeout=600,
            clock=(), pkgname=None, extra_overlay=None, args=(), cover=False):
    """Run `go test` in REPO/<pkg> with files from ROOT/inject injected by overlay.
    inject: list of file names under ROOT/inject/<pkg>/ (mapped to zz_verif_<name>).
    clock: list of source files (relative to pkg) to rewrite onto the virtual clock.
    Returns (rc, output)."""
    work = scratch("verif-go-")
    overlay = {}
    pdir = os.path.join(REPO, pkg)
    for name in inject:
        src = name if os.path.isabs(name) else os.path.join(ROOT, "inject", pkg, name)
        if not os.path.exists(src):
            raise InfraError("missing inject file " + src)
        overlay[os.path.join(pdir, "zz_verif_" + os.path.basename(name))] = src
    if clock:
        # clock: paths relative to REPO (or to pkg when they contain no '/')
        bydir = {}
        for f in clock:
            full = f if "/" in f else os.path.join(pkg, f)
            bydir.setdefault(os.path.dirname(full), []).append(os.path.basename(full))
        for d, files in bydir.items():
            for f in files:
                dst = os.path.join(work, "clk_" + d.replace("/", "_") + "_" + f)
                clock_rewrite(os.path.join(REPO, d, f), dst)
                overlay[os.path.join(REPO, d, f)] = dst
            cg = os.path.join(work, "zz_verif_clock_%s.go" % d.replace("/", "_"))
            open(cg, "w").write(CLOCK_GO % os.path.basename(d))
            overlay[os.path.join(REPO, d, "zz_verif_clock.go")] = cg
    for k, v in (extra_overlay or {}).items():
        overlay[k] = v
    ov = os.path.join(work, "overlay.json")
    json.dump({"Replace": overlay}, open(ov, "w"))
    cmd = ["go", "test", "-count=1", "-vet=off", "-overlay", ov, "-run", run,
           "-timeout", "%ds" % timeout]
    if tags:
        cmd += ["-tags", tags]
    if race:
        cmd.append("-race")
    cmd += ["./" + pkg] + list(args)
    e = goenv()
    e.update(env or {})
    t0 = time.time()
    try:
        p = subprocess.run(cmd, cwd=REPO, env=e, stdout=subprocess.PIPE, stderr=subprocess.STDOUT,
                           text=True, errors="replace", timeout=timeout + 120)
    except subprocess.TimeoutExpired as ex:
        raise InfraError("go test timeout: %s" % " ".join(cmd))
    out = p.stdout
    if "[build failed]" in out or "[setup failed]" in out or re.search(r"^# ", out, re.M) and p.returncode != 0 and "--- FAIL" not in out and "panic:" not in out:
        raise InfraError("driver build failed for %s:\n%s" % (pkg, out[-4000:]))
    return p.returncode, out


def out_dir():
    """where evidence/ and replay/ go: /verif unless VERIF_OUT_DIR says otherwise (mutant sweeps)"""
    return os.environ.get("VERIF_OUT_DIR", ROOT)


def read_ndjson(path):
    out = []
    if not os.path.exists(path):
        return out
    with open(path) as f:
        for line in f:
            line = line.strip()
            if line:
                try:
                    out.append(json.loads(line))
                except ValueError:
                    break       # a line cut short: the writer died; callers see the missing summary
    return out


def write_ndjson(path, items):
    with open(path, "w") as f:
        for it in items:
            f.write(json.dumps(it, separators=(",", ":"), sort_keys=True) + "\n")


# --------------------------------------------------------------------------- findings

def load_findings():
    p = os.path.join(ROOT, "known_findings.json")
    if not os.path.exists(p):
        return {"known": [], "fixed": []}
    return json.load(open(p))


class Check:
    """One run of one property's check."""

    def __init__(self, pid, tier, seed, level="model_checking"):
        self.pid, self.tier, self.seed, self.level = pid, tier, seed, level
        self.t0 = time.time()
        self.cov = {"states": 0, "transitions": 0, "traces_validated_against_impl": 0,
                    "samples": [], "evaluations": 0, "distinct_nontrivial": 0, "rule": "",
                    "exhaustive": False, "models": [], "notes": []}
        self.assumptions = []
        self.violations = []      # (signature, detail, replay_obj)
        self.known_hit = {}
        self.findings = [k for k in load_findings().get("known", []) if k.get("property") == pid]

    # -- model side
    def add_model(self, name, r, consts=None):
        self.cov["states"] += r.distinct
        self.cov["transitions"] += r.generated
        self.cov["models"].append({"name": name, "distinct": r.distinct, "generated": r.generated,
                                   "depth": r.depth, "wall_s": round(r.wall, 1),
                                   **({"coverage": r.coverage} if r.coverage else {})})

    def expect_model_ok(self, name, r):
        """The design model itself must satisfy its properties: otherwise the spec is
        wrong (infrastructure), never a verdict about the code."""
        if not r.ok:
            raise InfraError("model %s: %s\n%s" % (name, r.violation or r.error, r.out[-2500:]))

    def sample(self, obj, limit=5):
        if len(self.cov["samples"]) < limit:
            self.cov["samples"].append(obj)

    # -- verdicts
    def mismatch(self, signature, detail, replay=None):
        """signature: stable identification of *what* fails (input class / call site).
        A mismatch listed in known_findings.json is a KNOWN-FINDING, anything else a violation."""
        for k in self.findings:
            if k.get("signature") == signature:
                self.known_hit.setdefault(signature, detail)
                return False
        self.violations.append((signature, detail, replay))
        return True

    def finish(self):
        # VERIF_OUT_DIR: where evidence/ and replay/ go (the mutant sweep writes elsewhere so that the committed
        # evidence always describes /repo itself)
        OUT = os.environ.get("VERIF_OUT_DIR", ROOT)
        os.makedirs(os.path.join(OUT, "evidence"), exist_ok=True)
        os.makedirs(os.path.join(OUT, "replay"), exist_ok=True)
        for sig, det in self.known_hit.items():
            what = next((k.get("what", "") for k in self.findings if k.get("signature") == sig), "")
            print("KNOWN-FINDING: property=%s %s %s" % (self.pid, sig, what))
        seen = set()
        n = 0
        for sig, det, rep in self.violations:
            if sig in seen:
                continue
            seen.add(sig)
            n += 1
            h = hashlib.sha1((sig + json.dumps(det, sort_keys=True, default=str)).encode()).hexdigest()[:10]
            path = os.path.join(OUT, "replay", "%s-%s.json" % (self.pid, h))
            json.dump({"property": self.pid, "signature": sig, "detail": det, "replay": rep,
                       "seed": self.seed, "tier": self.tier}, open(path, "w"), indent=1, default=str)
            print("VIOLATION property=%s replay=%s" % (self.pid, path))
            print("  what: %s :: %s" % (sig, json.dumps(det, default=str)[:600]))
            if n >= 20:
                break
        ev = {"property_id": self.pid, "tier": self.tier, "seed": self.seed, "level": self.level,
              "coverage": self.cov, "assumptions": self.assumptions,
              "wall_s": round(time.time() - self.t0, 1), "violations": len(seen),
              "known_findings_observed": sorted(self.known_hit)}
        if not self.cov["samples"]:
            self.cov["samples"].append("none")
        json.dump(ev, open(os.path.join(OUT, "evidence", self.pid + ".json"), "w"), indent=1, default=str)
        return 1 if seen else 0


# --------------------------------------------------------------------------- trace validation

def validate_trace(spec_dir, base, consts, trace_path, *, invariants=(), spec="TraceSpec",
                   constraint="HighWater", postcondition="TraceAccepted", timeout=600,
                   depth_first=True, defs="", properties=(), heap=None):
    """Validate an ndjson trace with <base> (a *Trace module reading "trace.ndjson").
    Returns dict(accepted, reject_at (1-based line index of first unmatched line or None),
    states, result)."""
    r = tlc(spec_dir, base, consts, spec=spec, invariants=invariants, constraint=constraint,
            postcondition=postcondition, workers=1, timeout=timeout, depth_first=depth_first,
            extra_files={"trace.ndjson": trace_path}, defs=defs, properties=properties,
            want_cases=False, heap=heap)
    rej = None
    for p in r.prints:
        m = re.match(r'^<<"REJECT", (\d+)>>', p)
        if m:
            rej = int(m.group(1))
    if r.error:
        raise InfraError("trace validation error in %s: %s\n%s" % (base, r.error, r.out[-2000:]))
    accepted = r.rc == 0 and rej is None and not r.violation
    return {"accepted": accepted, "reject_at": rej, "violation": r.violation, "states": r.distinct,
            "result": r}
